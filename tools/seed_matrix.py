#!/usr/bin/env python3
"""seed_matrix.py: collect the results of tools/try_seed.sh runs (work/seedtry/<TAG>/log), copy the confirmed
seeded changes into /verif/seeded/<TAG>/ and write /verif/seeded/README.md (which check catches which change)."""
import json, os, re, shutil, sys
ROOT = os.path.dirname(os.path.dirname(os.path.abspath(__file__)))
SRC = {1: "/tmp/mut/{id}/seed", 2: "/tmp/mut2/wt_{id}/seed", 3: "/tmp/mut3/wt_{id}/seed", 4: "/tmp/mut4/wt_{id}/seed", 5: "/tmp/mut5/wt_{id}/seed", 6: "/tmp/mut6/wt_{id}/seed"}
rows = []
for rnd in (1, 2, 3, 4, 5, 6):
    for n in range(1, 17):
        pid = f"C{n:02d}"
        tag = f"{pid}r{rnd}"
        src = SRC[rnd].format(id=pid)
        if pid == "C14" and rnd == 2:
            continue
        if pid == "C14" and rnd == 1:
            src = "/tmp/mut2/wt_C14/seed"      # the C14 check was built later: its first seed came with round 2
        dst = os.path.join(ROOT, "seeded", tag)
        log = os.path.join(ROOT, "work", "seedtry", tag, "log")
        if os.path.exists(os.path.join(src, "patch.diff")) and os.path.exists(os.path.join(src, "meta.json")):
            os.makedirs(dst, exist_ok=True)
            for f in ("patch.diff", "demo.diff"):
                if os.path.exists(os.path.join(src, f)):
                    shutil.copy(os.path.join(src, f), os.path.join(dst, f))
            if os.path.isdir(os.path.join(src, "demo")):
                shutil.rmtree(os.path.join(dst, "demo"), ignore_errors=True)
                shutil.copytree(os.path.join(src, "demo"), os.path.join(dst, "demo"))
            meta = json.load(open(os.path.join(src, "meta.json")))
            conf = os.path.join(src, "confirm.log")
            if os.path.exists(conf):
                meta["confirmed_by_me"] = [l for l in open(conf).read().splitlines()
                                           if l.startswith(("demo test", "==", "test result", "exit=", "passed", "test "))][:16]
            proj = os.path.join(src, "confirm.log.projection")
            if os.path.exists(proj):
                meta["flaky_test_alone_with_change"] = open(proj).read().strip().splitlines()
        elif not os.path.exists(os.path.join(dst, "meta.json")):
            continue
        else:
            meta = json.load(open(os.path.join(dst, "meta.json")))
        if os.path.exists(log):
            txt = open(log).read()
            rc = re.findall(r"^rc=(\d+)", txt, re.M)
            nviol = len(re.findall(r"^VIOLATION", txt, re.M))
            lines = txt.splitlines()
            details = [lines[i + 1].strip() for i, l in enumerate(lines[:-1])
                       if l.startswith("VIOLATION") and lines[i + 1].startswith("  ")][:3]
            meta["check_result"] = {"command": f"tools/try_seed.sh {pid} seeded/{tag}/patch.diff  (./check {pid} --tier quick on a scratch worktree carrying the change)",
                                    "exit": int(rc[-1]) if rc else None, "violation_lines": nviol, "first_details": details}
        json.dump(meta, open(os.path.join(dst, "meta.json"), "w"), indent=1)
        cr = meta.get("check_result", {})
        rows.append((tag, pid, (meta.get("files_changed") or ["?"])[0].replace("crates/", ""),
                     str(meta.get("summary", ""))[:150].replace("|", "/").replace("\n", " "),
                     "caught" if cr.get("exit") == 1 else ("MISSED" if cr.get("exit") == 0 else "not run"),
                     (cr.get("first_details") or [""])[0][:110].replace("|", "/")))
with open(os.path.join(ROOT, "seeded", "README.md"), "w") as f:
    f.write("# Seeded changes\n\nEach directory holds one realistic property-breaking change produced by a fresh agent that saw only the\n"
            "property text and a scratch worktree (`patch.diff`), its demonstration (`demo.diff`, `demo/`) and `meta.json`\n"
            "(the agent's description, my own confirmation in the scratch worktree, and the result of the registered check\n"
            "run against a scratch worktree carrying the change). None of them is ever committed to /repo.\n\n"
            "| tag | property | file | change | check | first violation reported |\n|---|---|---|---|---|---|\n")
    for r in rows:
        f.write("| " + " | ".join(r) + " |\n")
print(f"{len(rows)} seeds;", sum(1 for r in rows if r[4] == "caught"), "caught,", sum(1 for r in rows if r[4] == "MISSED"), "missed,",
      sum(1 for r in rows if r[4] == "not run"), "not run")
