#!/bin/bash
# confirm_seed.sh <ID>: in the scratch worktree /tmp/mut/<ID> (patch + demo applied by the seeding agent)
# confirm: demo fails with the change, passes without it, existing suite passes with it.
ID=$1
W=/tmp/mut/$ID
export CARGO_TARGET_DIR=/tmp/confirm_target
cd $W || exit 2
OUT=$W/seed/confirm.log
: > $OUT
# normalise: make sure both diffs are applied
git checkout -- . 2>/dev/null; git clean -fdq crates
git apply seed/patch.diff || { echo "patch does not apply" >> $OUT; exit 2; }
git apply seed/demo.diff || { echo "demo does not apply" >> $OUT; exit 2; }
DEMO=$(grep -h '^name = ' seed/demo.diff crates/integration_test/Cargo.toml 2>/dev/null | tail -1 | sed 's/.*"\(.*\)".*/\1/')
DEMO=$(git diff -- crates/integration_test/Cargo.toml | grep '^+name' | sed 's/.*"\(.*\)".*/\1/' | head -1)
echo "demo test target: $DEMO" >> $OUT
find crates -name '*.rs' -exec touch {} +
echo "== demo WITH change" >> $OUT
timeout 1800 cargo test --offline -p qbice_integration_test --test $DEMO >> $OUT.with 2>&1; echo "exit=$?" >> $OUT.with
grep -E "^test result|exit=|panicked|SIGABRT|signal" $OUT.with | head -8 >> $OUT
git apply -R seed/patch.diff
find crates -name '*.rs' -exec touch {} +
echo "== demo WITHOUT change" >> $OUT
timeout 1800 cargo test --offline -p qbice_integration_test --test $DEMO >> $OUT.without 2>&1; echo "exit=$?" >> $OUT.without
grep -E "^test result|exit=" $OUT.without | head -4 >> $OUT
git apply seed/patch.diff
git apply -R seed/demo.diff
find crates -name '*.rs' -exec touch {} +
echo "== existing suite WITH change" >> $OUT
timeout 3000 cargo test --workspace --no-fail-fast --offline > $OUT.suite 2>&1; echo "exit=$?" >> $OUT.suite
grep -E "^test .* FAILED|exit=" $OUT.suite | head >> $OUT
grep "test result" $OUT.suite | awk '{p+=$4; f+=$6} END {print "passed", p, "failed", f}' >> $OUT
git checkout -- . ; git clean -fdq crates
cat $OUT
