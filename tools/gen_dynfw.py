#!/usr/bin/env python3
"""Family of programs with *dynamic firewall dependencies*: a picker node
whose selector input decides which of two firewalls it reads, siblings whose
value absorbs input changes (dirty but unchanged), and consumers reading them
in both orders, optionally through projections.  Used by C01/C03 (random
histories and TLC-generated ones)."""
import itertools, json, sys

def item(deps, g=0, gc=0, mode=0, w=1, c=0):
    return {"g": g, "gc": gc, "mode": mode, "deps": list(deps), "w": w, "c": c}
def node(kind, code=(), init=0, post=0):
    return {"kind": kind, "init": init, "code": list(code), "post": post, "panic_if": -1}

def programs():
    out = []
    for fw_post, sib_post, order, via_proj, mid in itertools.product((0, 1, 2), (1, 2), (0, 1), (0, 1), (0, 1)):
        # 1:S 2:A1 3:A2 4:X
        nodes = [node("In"), node("In"), node("In"), node("In")]
        nodes.append(node("Fw", [item([2])], post=fw_post))          # 5 F1
        nodes.append(node("Fw", [item([3])], post=fw_post))          # 6 F2
        f1, f2 = 5, 6
        if via_proj:
            nodes.append(node("Pj", [item([5])]))                     # 7
            nodes.append(node("Pj", [item([6])]))                     # 8
            f1, f2 = 7, 8
        # pickers: read S, then F1 if S == 0, F2 if S == 1.
        # pick: value = S-derived only (firewall reads have weight 0)
        pick = len(nodes) + 1
        nodes.append(node("Nm", [item([1], w=1), item([f1], g=1, gc=0, w=0, c=0), item([f2], g=2, gc=0, w=0, c=0)], post=1))
        # pick2: value = F1 (S == 0) or F2 (S == 1): switching the selector keeps the value when F1 == F2
        #   acc = S; if acc == 0: acc = F1; if acc == 1: acc = 1 + F2 + 2 = F2 (mod 3)
        pick2 = len(nodes) + 1
        nodes.append(node("Nm", [item([1], w=1), item([f1], g=1, gc=0, w=1), item([f2], g=1, gc=1, w=1, c=2)]))
        sib = len(nodes) + 1
        nodes.append(node("Nm", [item([4])], post=sib_post))         # absorbs changes of X
        p_used = pick2 if mid else pick
        deps = [p_used, sib] if order == 0 else [sib, p_used]
        nodes.append(node("Nm", [item([deps[0]]), item([deps[1]], c=1)]))        # total
        nodes.append(node("Nm", [item([len(nodes)], c=1)]))                      # above total
        out.append({"m": 3, "nodes": nodes})
    return out

if __name__ == "__main__":
    ps = programs()
    with open(sys.argv[1], "w") as f:
        for p in ps:
            f.write(json.dumps({"prog": p}) + "\n")
    print(json.dumps({"written": len(ps)}))
