#!/bin/bash
# tools/batch.sh "<seeds>" [extra eng_seq args] : run eng_seq + TLC validation per seed, print violation counters
seeds="$1"; shift
for s in $seeds; do
  /verif/harness/target/debug/eng_seq --seed $s --runs 150 --steps 40 --out /tmp/lag/t$s.ndjson "$@" 2>/dev/null
  (cd /verif/specs && TRACE=/tmp/lag/t$s.ndjson OUT=/tmp/lag/out$s.json JAVA_TOOL_OPTIONS="-Xss1g" timeout 600 tlc -workers 1 -metadir /tmp/lag/tlcwork$s -cleanup -noGenerateSpecTE -config EngineObsTrace.cfg EngineObsTrace.tla > /tmp/lag/tlc$s.log 2>&1 || tail -20 /tmp/lag/tlc$s.log)
  python3 -c "
import json,collections
o=json.load(open('/tmp/lag/out$s.json'))
print($s, o['events'], dict(collections.Counter((v['kind'],v['kf']) for v in o['viol'])))
"
done
