#!/usr/bin/env python3
"""Family of small possibly-cyclic programs for C06 (one program per line).

Shape: 1-2 inputs; 2-4 executable "ring" nodes whose LAST item reads other
executable nodes (any digraph on them incl. self-loops and two rings sharing
nothing), guarded by a condition on an input-only prefix, so input edits switch
cycle edges on and off; 1-2 consumer nodes outside that read ring nodes.
All digraphs on <=3 ring nodes are enumerated; a seeded sample on 4."""
import itertools, json, random, sys

def item(deps, g=0, gc=0, mode=0, w=1, c=0):
    return {"g": g, "gc": gc, "mode": mode, "deps": list(deps), "w": w, "c": c}
def node(kind, code=(), init=0, post=0):
    return {"kind": kind, "init": init, "code": list(code), "post": post, "panic_if": -1}

PAR = "--par" in sys.argv     # 2-successor items read their successors concurrently (join_all)
FW = "--fw" in sys.argv       # some ring nodes are firewalls, one consumer is a projection of a firewall ring node
GATE = "--gate" in sys.argv   # the guarded cycle edges are switched by a firewall next to the cycle (a gate), not by an input


def programs(seed, max4):
    out = []
    rnd = random.Random(seed)
    for n_in in (1, 2):
        for k in (2, 3, 4):
            ring = list(range(n_in + 1, n_in + k + 1))
            # every node: one successor set among ring nodes (non-empty subsets of size<=2)
            succ_opts = [c for r in (1, 2) for c in itertools.combinations(ring, r)]
            combos = list(itertools.product(succ_opts, repeat=k))
            if k == 4:
                rnd.shuffle(combos)
                combos = combos[:max4]
            elif k == 3:
                rnd.shuffle(combos)
                combos = combos[:max4]
            for combo in combos:
                for gmode in (0, 1):   # 0: edges always active, 1: active iff input-derived acc == 1
                    nodes = [node("In") for _ in range(n_in)]
                    shift = 0
                    if GATE:
                        if gmode == 0:
                            continue
                        # one gate firewall per input: reads that input only; node ids of the ring move up
                        shift = n_in
                        for g_in in range(1, n_in + 1):
                            nodes.append(node("Fw", [item([g_in])]))
                        combo = tuple(tuple(x + shift for x in succ) for succ in combo)
                    for j, succ in enumerate(combo):
                        inp = 1 + (j % n_in)
                        # guarded nodes read the gate of their input instead of the input itself
                        code = [item([inp + n_in if GATE and j % 2 == 0 else inp])]
                        md = 1 if PAR and len(succ) == 2 else 0
                        if gmode == 0 or j % 2 == 1:
                            code.append(item(list(succ), c=1, mode=md))
                        else:
                            code.append(item(list(succ), g=1, gc=1, c=1, mode=md))
                        nodes.append(node("Nm", code, init=0))
                    if FW:
                        # firewalls on the ring: the first ring node always, every other one by a seeded coin;
                        # consumers: a projection of the firewall ring node (projections read firewalls /
                        # projections only), a normal reader of that projection and of the last ring node
                        for j in range(k):
                            if j == 0 or rnd.random() < 0.4:
                                nodes[n_in + j]["kind"] = "Fw"
                        nodes.append(node("Pj", [item([ring[0]], c=1)]))
                        nodes.append(node("Nm", [item([1]), item([len(nodes), ring[-1]], c=0)]))
                        out.append({"m": 3, "nodes": nodes})
                        continue
                    # consumers
                    nodes.append(node("Nm", [item([1]), item([ring[0] + shift], c=1)]))
                    nodes.append(node("Nm", [item([ring[-1] + shift, ring[0] + shift], c=0)]))
                    if GATE:
                        # an outside reader of a reader (two levels above the cycle) and a projection of the gate
                        nodes.append(node("Nm", [item([len(nodes) - 1], c=1)]))
                        nodes.append(node("Pj", [item([n_in + 1], c=1)]))
                    out.append({"m": 3, "nodes": nodes})
    return out

def merge_programs():
    """Fork/merge shapes for the parallel family: a fork node reads two ring nodes concurrently, the two
    paths (of different lengths) merge in one node before the edge that closes the cycle; every
    numbering of the ring nodes (the engine's search order depends on the ids)."""
    out = []
    shapes = {
        4: {"F": ("A", "L"), "L": ("A",), "A": ("C",), "C": ("F",)},                       # F->{A,L}, L->A, A->C, C->F
        5: {"F": ("A", "L"), "L": ("I",), "I": ("A",), "A": ("C",), "C": ("F",)},           # + one inner node
    }
    for k, shape in shapes.items():
        names = list(shape)
        perms = list(itertools.permutations(range(2, k + 2)))
        if k == 5:
            random.Random(5).shuffle(perms)
            perms = perms[:40]
        for perm in perms:
          for fork_mode in (3, 1):     # 3: each read in its own spawned task, 1: join_all in the executor's task
            idx = dict(zip(names, perm))
            nodes = [node("In")] + [None] * k
            for nm, succ in shape.items():
                code = [item([1]), item([idx[x] for x in succ], c=1, mode=fork_mode if len(succ) == 2 else 0)]
                nodes[idx[nm] - 1] = node("Nm", code, init=0)
            nodes.append(node("Nm", [item([1]), item([idx["F"]], c=1)]))      # consumer of the fork node
            nodes.append(node("Nm", [item([idx["L"]], c=0)]))                  # consumer of the long path
            out.append({"m": 3, "nodes": nodes})
    return out


if __name__ == "__main__":
    args = [a for a in sys.argv if not a.startswith("--")]
    outp = args[1]
    seed = int(args[2]) if len(args) > 2 else 1
    mx = int(args[3]) if len(args) > 3 else 40
    ps = programs(seed, mx)
    if PAR:
        ps = [p for p in ps if any(it["mode"] == 1 for nd in p["nodes"] for it in nd["code"])]
    random.Random(seed).shuffle(ps)
    cap = int(args[4]) if len(args) > 4 else len(ps)
    ps = ps[:cap]
    if PAR:
        ps = merge_programs() + ps
    with open(outp, "w") as f:
        for p in ps:
            f.write(json.dumps({"prog": p}) + "\n")
    print(json.dumps({"written": len(ps)}))
