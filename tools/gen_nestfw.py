#!/usr/bin/env python3
"""Family "a projection starts to read a never-computed projection over nested firewalls":
inputs S (selector) and X; SelF = firewall(S); InnerF = firewall(X); OuterF = firewall(InnerF);
OuterView = projection(OuterF); Switch = projection: reads SelF and, only if that is 1, OuterView;
Top reads Switch; Side reads OuterF directly (so OuterF is computed long before OuterView is).
When one session flips S to 1 and changes X, Switch is re-executed by backward projection
propagation and reaches OuterF, which has no dirty edge (dirty marks stop at InnerF): only the
eager verification handed down through executing queries keeps the answer right.  Variants: id
order of SelF vs the nested firewalls, nesting depth 1..3, a second projection between Switch and OuterView, value-absorbing firewalls."""
import itertools, json, sys

def item(deps, g=0, gc=0, mode=0, w=1, c=0):
    return {"g": g, "gc": gc, "mode": mode, "deps": list(deps), "w": w, "c": c}
def node(kind, code=(), init=0, post=0):
    return {"kind": kind, "init": init, "code": list(code), "post": post, "panic_if": -1}

def programs():
    out = []
    for sel_first, depth, mid, fpost, extra in itertools.product((0, 1), (1, 2, 3), (0, 1), (0, 2), (0, 1)):
        nodes = [node("In"), node("In")]           # 1 S, 2 X
        def add(n):
            nodes.append(n); return len(nodes)
        if sel_first:
            self_ = add(node("Fw", [item([1])]))
        inner = add(node("Fw", [item([2])], post=fpost))
        prev = inner
        for _ in range(depth - 1):
            prev = add(node("Fw", [item([prev], c=1)]))
        outer = prev
        if not sel_first:
            self_ = add(node("Fw", [item([1])]))
        # a projection may only read firewalls and projections
        view = add(node("Pj", [item([outer], c=1)]))
        tgt = view
        if mid:
            tgt = add(node("Pj", [item([view], c=2)]))
        # Switch: acc = SelF; if acc == 1: acc += target
        switch = add(node("Pj", [item([self_]), item([tgt], g=1, gc=1)]))
        top = add(node("Nm", [item([switch], c=1)]))
        side = add(node("Nm", [item([outer], c=2)]))
        if extra:
            add(node("Nm", [item([top]), item([side], c=1)]))
        out.append({"m": 3, "nodes": nodes})
    return out

if __name__ == "__main__":
    ps = programs()
    with open(sys.argv[1], "w") as f:
        for p in ps:
            f.write(json.dumps({"prog": p}) + "\n")
    print(json.dumps({"written": len(ps)}))
