#!/usr/bin/env python3
"""Families around UNORDERED callee groups (start_unordered_callee_group / join_all, DSL mode 2).

  gen_unord.py wide OUT SEED [K ...]
      a node S reads K inputs as ONE unordered group (K around the chunking thresholds of the repair:
      the check of a recorded group is split into chunks of max(K / (4 * cpus), 1) callees, so chunks of
      two and more and a remainder need K >= 8 * cpus + 1), a consumer T reads S.  Histories: compute,
      repeat, an empty session, a session that sets a member to its present value and changes an
      unrelated input, a real change, a change back.  Judged by EngineObsLite: values and - C03 - no
      executor run whose recorded reads all still have their values.
  gen_unord.py tfc OUT SEED
      the members of a wide unordered group are queries; one of them switches to another firewall without
      changing its value while the others are dirty but unchanged: the group's reader is re-verified clean
      and has to take over the new firewall (chunks of two and more callees: n >= 8 * cpus).
  gen_unord.py race OUT SEED
      a node S reads {slow, fast} as one unordered group: `slow` is the top of a chain (many polls with
      --yields), `fast` a single node over another input; both are dirty after a session, `fast` is found
      changed while the check of `slow` is still suspended inside slow's re-execution (C05: the abandoned
      sibling check must not damage what the re-execution records).  Orders (slow first / fast first),
      chain lengths 2..4."""
import json, os, random, sys

def item(deps, g=0, gc=0, mode=0, w=1, c=0):
    return {"g": g, "gc": gc, "mode": mode, "deps": list(deps), "w": w, "c": c}
def node(kind, code=(), init=0, post=0, panic_if=-1):
    return {"kind": kind, "init": init, "code": list(code), "post": post, "panic_if": panic_if}

def wide(k, rnd):
    nodes = [node("In") for _ in range(k)] + [node("In")]            # K members, one unrelated input
    s = len(nodes) + 1
    nodes.append(node("Nm", [item(list(range(1, k + 1)), mode=2)]))
    nodes.append(node("Nm", [item([s], c=1), item([k + 1])]))
    t = len(nodes)
    acts = [{"a": "begin"}] + [{"a": "set", "n": i, "v": (i * 7) % 3} for i in range(1, k + 2)] + [{"a": "commit"}]
    q = [{"a": "query", "t": 0, "n": t}]
    acts += q + q
    acts += [{"a": "begin"}, {"a": "commit"}] + q                                        # empty session
    m = rnd.randrange(1, k + 1)
    acts += [{"a": "begin"}, {"a": "set", "n": m, "v": (m * 7) % 3}, {"a": "commit"}] + q   # present value
    acts += [{"a": "begin"}, {"a": "set", "n": k + 1, "v": 2}, {"a": "commit"}] + q          # unrelated input
    for m in (1, k, rnd.randrange(1, k + 1)):
        acts += [{"a": "begin"}, {"a": "set", "n": m, "v": ((m * 7) % 3 + 1) % 3}, {"a": "commit"}] + q
        acts += [{"a": "begin"}, {"a": "commit"}] + q
        acts += [{"a": "begin"}, {"a": "set", "n": m, "v": (m * 7) % 3}, {"a": "commit"}] + q
    return {"prog": {"m": 3, "nodes": nodes}, "actions": acts}

def race(chain, slow_first, panicking, rnd):
    nodes = [node("In"), node("In")]
    def add(n):
        nodes.append(n); return len(nodes)
    p = add(node("Nm", [item([1])]))
    for _ in range(chain - 1):
        p = add(node("Nm", [item([p], c=1)]))
    slow = p
    fast = add(node("Nm", [item([2], c=1)], panic_if=(2 if panicking else -1)))   # value = in2 + 1; panics when in2 = 1
    group = [slow, fast] if slow_first else [fast, slow]
    s = add(node("Nm", [item(group, mode=2)]))
    t = add(node("Nm", [item([s], c=1)]))
    acts = [{"a": "begin"}, {"a": "set", "n": 1, "v": 0}, {"a": "set", "n": 2, "v": 0}, {"a": "commit"},
            {"a": "query", "t": 0, "n": t}]
    for _ in range(6):
        a, b = rnd.randrange(3), rnd.randrange(3)
        acts += [{"a": "begin"}, {"a": "set", "n": 1, "v": a}, {"a": "set", "n": 2, "v": b}, {"a": "commit"}]
        acts += [{"a": "query", "t": 0, "n": rnd.choice((s, t))} for _ in range(rnd.randrange(1, 3))]
    return {"prog": {"m": 3, "nodes": nodes}, "actions": acts}

def tfc(n, rnd):
    """A node Total reads n members as ONE unordered group.  Member 0 reads the firewall LEFT or RIGHT depending
    on a selector and keeps its value when the selector flips (the two firewalls are equal then); the other
    members read the selector and keep their value too.  After the flip Total is re-verified clean, but must take
    over the firewall its member now reaches: the next session changes only what is behind that firewall."""
    nodes = [node("In"), node("In"), node("In")]            # 1 selector, 2 left input, 3 right input
    def add(x):
        nodes.append(x); return len(nodes)
    gl = add(node("Fw", [item([2])]))
    gr = add(node("Fw", [item([3])]))
    # member 0: acc = selector; then + LEFT (acc = 0) or + RIGHT (acc = 1; LEFT = 3 makes acc 3, so only one of
    # the two fires); 1 iff acc >= 3
    m0 = add(node("Nm", [item([1]), item([gl], g=1, gc=0), item([gr], g=1, gc=1)], post=3))
    members = [m0] + [add(node("Nm", [item([1])], post=9)) for _ in range(n - 1)]
    total = add(node("Nm", [item(members, mode=2)]))
    top = add(node("Nm", [item([total], c=1)]))
    q = [{"a": "query", "t": 0, "n": top}]
    acts = [{"a": "begin"}, {"a": "set", "n": 1, "v": 0}, {"a": "set", "n": 2, "v": 3}, {"a": "set", "n": 3, "v": 3}, {"a": "commit"}] + q
    acts += [{"a": "begin"}, {"a": "set", "n": 1, "v": 1}, {"a": "commit"}] + q            # the selector flips: same values everywhere
    acts += [{"a": "begin"}, {"a": "set", "n": 3, "v": 0}, {"a": "commit"}] + q            # behind the newly reached firewall
    acts += [{"a": "begin"}, {"a": "set", "n": 1, "v": 0}, {"a": "commit"}] + q            # back to LEFT
    acts += [{"a": "begin"}, {"a": "set", "n": 2, "v": 1}, {"a": "commit"}] + q
    acts += [{"a": "begin"}, {"a": "set", "n": 3, "v": 3}, {"a": "set", "n": 1, "v": 1}, {"a": "commit"}] + q
    return {"prog": {"m": 7, "nodes": nodes}, "actions": acts}


if __name__ == "__main__":
    kind, out, seed = sys.argv[1], sys.argv[2], int(sys.argv[3])
    rnd = random.Random(seed)
    n = 0
    with open(out, "w") as f:
        if kind == "wide":
            ks = [int(x) for x in sys.argv[4:]]
            if not ks:
                c = os.cpu_count() or 4
                ks = sorted({3, 33, 65, 8 * c, 8 * c + 1, 8 * c + 3, 16 * c + 1})
            for k in ks:
                f.write(json.dumps(wide(k, rnd)) + "\n"); n += 1
        elif kind == "tfc":
            c = os.cpu_count() or 4
            for n in sorted({3, 16, 8 * c, 8 * c + 1, 16 * c, 64, 65}):
                f.write(json.dumps(tfc(n, rnd)) + "\n"); n and None
            n = 7
        else:
            for chain in (2, 3, 4):
                for slow_first in (True, False):
                    for panicking in (False,):      # (a member that panics by design makes the user request panic: not judged)
                        for _ in range(5):
                            f.write(json.dumps(race(chain, slow_first, panicking, rnd)) + "\n"); n += 1
    print(json.dumps({"written": n}))
