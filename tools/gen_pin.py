#!/usr/bin/env python3
"""Family "a query that an executor computed so far is committed as an input" (set_input on an executable
query; C01): X = f(a) is computed, then X is given a value in a session - exactly its present value
(`Unchanged`), or another one (`Updated`), or before it was ever computed (`Fresh`) - and from then on X is an
input: changes of `a` must no longer reach X or its readers; later sets of X must.  Variants: a reader above X
(direct / two levels), X read by two readers, pinning in the session that also changes `a`."""
import itertools, json, random, sys

def item(deps, g=0, gc=0, mode=0, w=1, c=0):
    return {"g": g, "gc": gc, "mode": mode, "deps": list(deps), "w": w, "c": c}
def node(kind, code=(), init=0, post=0):
    return {"kind": kind, "init": init, "code": list(code), "post": post, "panic_if": -1}

def cases(rnd):
    out = []
    for how, levels, same_session, computed in itertools.product(("same", "other"), (1, 2), (False, True), (True, False)):
        nodes = [node("In"), node("In")]                      # 1 = a, 2 = b
        nodes.append(node("Nm", [item([1])]))                 # 3 = X = a
        nodes.append(node("Nm", [item([3]), item([2])]))      # 4 = Y = X + b
        top = 4
        if levels == 2:
            nodes.append(node("Nm", [item([4], c=1)])); top = 5
        nodes.append(node("Nm", [item([3], c=2)]))            # another reader of X
        z = len(nodes)
        q = lambda n: {"a": "query", "t": 0, "n": n}
        a0 = rnd.randrange(3)
        acts = [{"a": "begin"}, {"a": "set", "n": 1, "v": a0}, {"a": "set", "n": 2, "v": 1}, {"a": "commit"}]
        if computed:
            acts += [q(top), q(3)]
        pin = a0 if how == "same" else (a0 + 1) % 3
        a1 = (a0 + 2) % 3
        acts += [{"a": "begin"}, {"a": "set", "n": 3, "v": pin}] + ([{"a": "set", "n": 1, "v": a1}] if same_session else []) + [{"a": "commit"}]
        acts += [q(top), q(z)]
        if not same_session:
            acts += [{"a": "begin"}, {"a": "set", "n": 1, "v": a1}, {"a": "commit"}, q(top), q(3), q(z)]
        acts += [{"a": "begin"}, {"a": "set", "n": 1, "v": a0}, {"a": "set", "n": 2, "v": 2}, {"a": "commit"}, q(z), q(top)]
        acts += [{"a": "begin"}, {"a": "set", "n": 3, "v": (pin + 1) % 3}, {"a": "commit"}, q(top), q(3), q(z)]
        out.append({"prog": {"m": 3, "nodes": nodes}, "actions": acts})
    return out

if __name__ == "__main__":
    rnd = random.Random(int(sys.argv[2]) if len(sys.argv) > 2 else 1)
    cs = cases(rnd)
    with open(sys.argv[1], "w") as f:
        for c in cs:
            f.write(json.dumps(c) + "\n")
    print(json.dumps({"written": len(cs)}))
