#!/bin/bash
# confirm_demo.sh <worktree>: demo fails with the change, passes without (demo = auto-discovered tests/*.rs or [[test]] of integration_test)
W=$1
export CARGO_TARGET_DIR=${CTD:-/tmp/confirm_target}
cd $W || exit 2
OUT=$W/seed/confirm_demo.log
: > $OUT
git checkout -- . 2>/dev/null; git clean -fdq crates
git apply seed/patch.diff || { echo "patch does not apply" >> $OUT; exit 2; }
git apply seed/demo.diff || { echo "demo does not apply" >> $OUT; exit 2; }
F=$(git apply --numstat seed/demo.diff | awk '{print $3}' | grep 'tests/.*\.rs$' | head -1)
CR=$(echo $F | sed 's#\(crates/[^/]*\)/.*#\1#')
PKG=$(grep -m1 '^name' $CR/Cargo.toml | sed 's/.*"\(.*\)".*/\1/')
T=$(basename $F .rs)
FEAT=${FEAT:-}
echo "demo test: -p $PKG --test $T $FEAT" >> $OUT
find crates -name '*.rs' -exec touch {} +
echo "== demo WITH change" >> $OUT
timeout 2400 cargo test --offline -p $PKG $FEAT --test $T > $OUT.with 2>&1; echo "exit=$?" >> $OUT.with
grep -E "^test result|exit=|panicked|SIGABRT|signal" $OUT.with | head -6 >> $OUT
git apply -R seed/patch.diff
find crates -name '*.rs' -exec touch {} +
echo "== demo WITHOUT change" >> $OUT
timeout 2400 cargo test --offline -p $PKG $FEAT --test $T > $OUT.without 2>&1; echo "exit=$?" >> $OUT.without
grep -E "^test result|exit=" $OUT.without | head -4 >> $OUT
git checkout -- . ; git clean -fdq crates
git apply seed/patch.diff
cat $OUT
