#!/bin/bash
# tools/try_seed.sh <ID> [patch] : run ./check <ID> against a scratch worktree of /repo carrying a seeded
# change; /repo itself, the committed evidence and the regular work directories are not touched.
# env: TIER (quick), CHECK (defaults to <ID>: the check to run), KEEP=1 keeps the scratch worktree.
ID=$1; P=${2:-/verif/seeded/$ID/patch.diff}
[ -f "$P" ] || P=/tmp/mut/$ID/seed/patch.diff
CHK=${CHECK:-$ID}
TAG=${TAG:-$ID}
WT=/tmp/seedwt_$TAG
W=/verif/work/seedtry/$TAG
rm -rf "$W"; mkdir -p "$W/evidence" "$W/replays" "$W/work"
git -C /repo worktree remove --force "$WT" 2>/dev/null
git -C /repo worktree add --detach "$WT" HEAD -q || exit 2
git -C "$WT" apply "$P" || { echo "patch does not apply"; git -C /repo worktree remove --force "$WT"; exit 2; }
(cd /verif && VERIF_REPO=$WT VERIF_WORK=$W/work VERIF_EVIDENCE=$W/evidence VERIF_REPLAYS=$W/replays \
   timeout 3000 ./check $CHK --tier ${TIER:-quick} > $W/log 2>&1; echo "rc=$?" >> $W/log)
[ -n "$KEEP" ] || { git -C /repo worktree remove --force "$WT"; rm -rf "$W/work"; }
echo "== $TAG (check $CHK): $(grep -c '^VIOLATION' $W/log) violation lines, $(tail -1 $W/log)"
grep -v '^KNOWN' $W/log | grep -v "^\[" | tail -6
