#!/bin/bash
# tools/try_seed.sh <ID> [patch]: apply a seeded change to /repo, run the check, revert. Prints the verdict lines.
ID=$1; P=${2:-/verif/seeded/$ID/patch.diff}
[ -f "$P" ] || P=/tmp/mut/$ID/seed/patch.diff
mkdir -p /verif/work/seedtry
[ -z "$(git -C /repo status --porcelain)" ] || { echo "/repo not clean"; exit 2; }
git -C /repo apply "$P" || exit 2
(cd /verif && timeout 3000 ./check $ID --tier ${TIER:-quick} > work/seedtry/$ID.log 2>&1; echo "rc=$?" >> work/seedtry/$ID.log)
git -C /repo checkout -- .
echo "== $ID: $(grep -c '^VIOLATION' work/seedtry/$ID.log) violation lines, $(tail -1 work/seedtry/$ID.log)"
grep -v '^KNOWN' /verif/work/seedtry/$ID.log | tail -6
