#!/usr/bin/env python3
"""gen_conc.py OUT SEED NUM [abandon]: schedules of the single-flight protocol from specs/EngineConcGen.tla (TLC -simulate)."""
import json, os, subprocess, sys, tempfile, shutil
out, seed, num = sys.argv[1], int(sys.argv[2]), int(sys.argv[3])
AB = "ab" if len(sys.argv) > 4 and sys.argv[4] == "abandon" else ""   # behaviours with one abandoned request
SPECS = os.path.join(os.path.dirname(os.path.dirname(os.path.abspath(__file__))), "specs")
FAMS = {"A": ([[], [1], [2, 1], [3, 2]], [4, 3, 4]),
        "B": ([[], [1], [1], [2, 3], [4, 1]], [5, 4, 2]),
        "C": ([[], [1], [2]], [3, 3, 3]),
        "D": ([[], [], [1, 2], [2, 1], [3, 4], [4, 3]], [5, 6])}
# cyclic programs (C06): `gen_conc.py OUT SEED NUM cyclic`
CYC = {"E": ([[4, 2], [1], [1], []], [1, 2, 3]),
       "F": ([[2], [3], [1], [2]], [1, 2, 3]),
       "G": ([[1], [1], [2, 4], [3]], [2, 3, 4])}
if len(sys.argv) > 4 and sys.argv[4] == "cyclic":
    FAMS = CYC
n = 0
states = 0
with open(out, "w") as f:
    for k, (fam, (deps, roots)) in enumerate(FAMS.items()):
        md = tempfile.mkdtemp(prefix="gc", dir=os.environ.get("VH_TMP", "/tmp"))
        p = subprocess.run(["timeout", "600", "tlc", "-workers", "1", "-simulate", f"num={num}", "-depth", "400",
                            "-seed", str(seed * 10 + k), "-metadir", md, "-cleanup", "-noGenerateSpecTE",
                            "-config", f"EngineConcGen{fam}{AB}.cfg", "EngineConcGen.tla"],
                           cwd=SPECS, stdout=subprocess.PIPE, stderr=subprocess.STDOUT, text=True)
        shutil.rmtree(md, ignore_errors=True)
        if "Error:" in p.stdout and "Invariant" in p.stdout:
            sys.stderr.write(p.stdout[-3000:]); sys.exit(3)
        for l in p.stdout.splitlines():
            if l.startswith('"{'):
                d = json.loads(json.loads(l))
                f.write(json.dumps({"fam": fam, "deps": deps, "roots": roots, "steps": d["steps"], "cut": d.get("cut", [])}) + "\n")
                n += 1
                states += len(d["steps"])
print(json.dumps({"behaviours": n, "steps": states}))
