#!/usr/bin/env python3
"""Family "a backward projection is pending when the process ends" (C07).

A firewall F over an input, a projection P of F, a consumer Top of P, and a side reader S of F.  When the input
changes and only S (or F itself) is asked, F is recomputed as a plain callee: its projections are not re-run yet,
the engine only records that the backward projection is pending.  The store is closed and reopened at that
moment; afterwards Top must still follow.  Variants: one or two projections, a second firewall level, who is asked
before the restart (S, F, both), whether Top was computed before, one or two changes, restart before or after a
further empty session."""
import itertools, json, random, sys

def item(deps, g=0, gc=0, mode=0, w=1, c=0):
    return {"g": g, "gc": gc, "mode": mode, "deps": list(deps), "w": w, "c": c}
def node(kind, code=(), init=0, post=0):
    return {"kind": kind, "init": init, "code": list(code), "post": post, "panic_if": -1}

def program(nproj, nested):
    nodes = [node("In"), node("In")]
    def add(n):
        nodes.append(n); return len(nodes)
    f = add(node("Fw", [item([1])]))
    if nested:
        f2 = add(node("Fw", [item([f], c=1)]))
    else:
        f2 = f
    projs = [add(node("Pj", [item([f2], c=i)])) for i in range(nproj)]
    top = add(node("Nm", [item(projs, c=1), item([2])]))
    side = add(node("Nm", [item([f2], c=2)]))
    return {"m": 3, "nodes": nodes}, f2, projs, top, side

def histories(rnd):
    out = []
    for nproj, nested, ask, top_before, empty_after in itertools.product((1, 2), (False, True), ("side", "fw", "both"),
                                                                      (True, False), (False, True)):
        prog, f, projs, top, side = program(nproj, nested)
        q = lambda n: {"a": "query", "t": 0, "n": n}
        acts = [{"a": "begin"}, {"a": "set", "n": 1, "v": 0}, {"a": "set", "n": 2, "v": 0}, {"a": "commit"}]
        if top_before:
            acts.append(q(top))
        else:
            acts.append(q(projs[0]))
        v = 0
        for rnd_i in range(3):
            v = (v + rnd.choice((1, 2))) % 3
            acts += [{"a": "begin"}, {"a": "set", "n": 1, "v": v}, {"a": "commit"}]
            if ask in ("side", "both"):
                acts.append(q(side))
            if ask in ("fw", "both"):
                acts.append(q(f))
            if empty_after and rnd_i == 1:
                acts += [{"a": "restart"}, {"a": "begin"}, {"a": "commit"}]
            else:
                acts.append({"a": "restart"})
            acts += [q(top), q(projs[-1]), q(side)]
        out.append({"prog": prog, "actions": acts})
    return out

if __name__ == "__main__":
    rnd = random.Random(int(sys.argv[2]) if len(sys.argv) > 2 else 1)
    hs = histories(rnd)
    with open(sys.argv[1], "w") as f:
        for h in hs:
            f.write(json.dumps(h) + "\n")
    print(json.dumps({"written": len(hs)}))
