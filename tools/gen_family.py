#!/usr/bin/env python3
"""Enumerate the small-program family used by the S->I generators.

usage: gen_family.py OUT.ndjson [--max N] [--seed S] [--execs 2,3] [--cyclic]

Programs: 1-2 inputs, optionally one external input, 2-3 executable nodes with
kinds from {Nm, Fw, Pj} (projections only read firewalls/projections), code
templates: one read, two reads, conditional second read, unordered pair,
joined pair; post = identity or absorb.  All programs of the family are
enumerated, then (if --max) a seeded sample is taken; a few hand-written
shapes (the witnesses of the known findings) are always included.
"""
import itertools
import json
import random
import sys


def item(deps, g=0, gc=0, mode=0, w=1, c=0):
    return {"g": g, "gc": gc, "mode": mode, "deps": list(deps), "w": w, "c": c}


def node(kind, code=(), init=0, post=0):
    return {"kind": kind, "init": init, "code": list(code), "post": post, "panic_if": -1}


def templates(cands):
    """code templates over candidate deps (1-based ids)"""
    out = []
    for a in cands:
        out.append([item([a])])
    for a, b in itertools.permutations(cands, 2):
        out.append([item([a]), item([b], c=1)])
        out.append([item([a]), item([b], g=1, gc=1)])      # read b only if acc == 1
        if a < b:
            out.append([item([a, b], mode=2)])              # unordered pair
            out.append([item([a, b], mode=1)])              # joined pair
    return out


def enumerate_family(n_exec_opts, m=2, with_ext=True):
    progs = []
    for n_in in (1, 2):
        for n_ex in ((0, 1) if with_ext else (0,)):
            base = [node("In") for _ in range(n_in)] + [node("Ex") for _ in range(n_ex)]
            for n_exec in n_exec_opts:
                for kinds in itertools.product(("Nm", "Fw", "Pj"), repeat=n_exec):
                    def rec(nodes, k):
                        if k == n_exec:
                            progs.append({"m": m, "nodes": nodes})
                            return
                        kind = kinds[k]
                        idx = len(nodes) + 1
                        if kind == "Pj":
                            cands = [i + 1 for i, nd in enumerate(nodes) if nd["kind"] in ("Fw", "Pj")]
                        else:
                            cands = list(range(1, idx))
                        if not cands:
                            return
                        # keep the family tractable: prefer recent nodes as deps
                        cands = cands[-3:]
                        for code in templates(cands):
                            for post in ((0, 1) if kind != "Nm" else (0,)):
                                rec(nodes + [node(kind, code, post=post)], k + 1)
                    rec(list(base), 0)
    return progs


def witnesses():
    ws = []
    # KF_TFC: A <- F(fw, absorbing? no: identity) <- N <- R ; R2 -> R
    ws.append({"m": 3, "nodes": [node("In"), node("Fw", [item([1])]), node("Nm", [item([2])]),
                                  node("Nm", [item([3])]), node("Nm", [item([4], c=1)])]})
    # KF_PBP / KF_BP: A <- F(fw) <- P(pj) <- N
    ws.append({"m": 3, "nodes": [node("In"), node("Fw", [item([1])]), node("Pj", [item([2])]),
                                  node("Nm", [item([3], c=1)])]})
    # diamond with firewall absorbing
    ws.append({"m": 3, "nodes": [node("In"), node("In"), node("Fw", [item([1]), item([2])], post=2),
                                  node("Nm", [item([3]), item([1], g=1, gc=1)]),
                                  node("Nm", [item([3, 4], mode=2)])]})
    return ws


def main():
    out = sys.argv[1]
    mx = None
    seed = 1
    execs = (2, 3)
    a = sys.argv[2:]
    i = 0
    while i < len(a):
        if a[i] == "--max":
            mx = int(a[i + 1]); i += 2
        elif a[i] == "--seed":
            seed = int(a[i + 1]); i += 2
        elif a[i] == "--execs":
            execs = tuple(int(x) for x in a[i + 1].split(",")); i += 2
        else:
            i += 1
    fam = enumerate_family(execs)
    total = len(fam)
    if mx is not None and mx < len(fam):
        random.Random(seed).shuffle(fam)
        fam = fam[:mx]
    fam = witnesses() + fam
    with open(out, "w") as f:
        for p in fam:
            f.write(json.dumps({"prog": p}) + "\n")
    print(json.dumps({"family_total": total, "written": len(fam)}))


if __name__ == "__main__":
    main()
