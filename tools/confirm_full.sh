#!/bin/bash
# confirm_full.sh <worktree> : demo with/without + existing suite with change (target dir /tmp/confirm_target)
W=$1
/verif/tools/confirm_demo.sh $W > /dev/null 2>&1
export CARGO_TARGET_DIR=${CTD:-/tmp/confirm_target}
cd $W || exit 2
OUT=$W/seed/confirm.log
cp $W/seed/confirm_demo.log $OUT
git checkout -- . ; git clean -fdq crates; git apply seed/patch.diff
find crates -name '*.rs' -exec touch {} +
echo "== existing suite WITH change" >> $OUT
timeout 3000 cargo test --workspace --no-fail-fast --offline > $OUT.suite 2>&1; echo "exit=$?" >> $OUT.suite
grep -E "^test .* FAILED|exit=" $OUT.suite | head >> $OUT
grep "test result" $OUT.suite | awk '{p+=$4; f+=$6} END {print "passed", p, "failed", f}' >> $OUT
cat $OUT
