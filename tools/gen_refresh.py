#!/usr/bin/env python3
"""Family: MANY external inputs refreshed in one session (InputSession::refresh::<Q>() re-executes the
recorded external inputs of a type in parallel chunks of max(K / (4 * cpus), 1): chunks of two and more with a
remainder need K >= 8 * cpus + 1).

  gen_refresh.py OUT SEED [K ...]
      K external nodes, one ordinary input, a node TOTAL reading all externals (sequentially), a consumer of
      TOTAL and the input.  History: the outside world is set, everything is queried (samples the externals);
      then rounds of { the world of EVERY external changes, a session sets the input and refreshes, commit,
      every external and the consumer are queried } - a session takes effect all at once: after the commit
      every external shows the world of the refresh, none an older one (C04), values are the from-scratch
      values (C01), every sampled external is re-sampled (C03).  Rounds without a world change, with a refresh
      in an otherwise empty session and with a world change but NO refresh (nothing may move) are included.
      Judged by EngineObsLite."""
import json, os, random, sys

def item(deps, g=0, gc=0, mode=0, w=1, c=0):
    return {"g": g, "gc": gc, "mode": mode, "deps": list(deps), "w": w, "c": c}
def node(kind, code=(), init=0, post=0, panic_if=-1):
    return {"kind": kind, "init": init, "code": list(code), "post": post, "panic_if": panic_if}

def family(k, rnd, m=5):
    nodes = [node("Ex") for _ in range(k)] + [node("In")]
    inp = k + 1
    nodes.append(node("Nm", [item(list(range(1, k + 1)))]))
    total = len(nodes)
    nodes.append(node("Nm", [item([total]), item([inp], w=2)]))
    top = len(nodes)
    acts = [{"a": "world", "n": i, "v": i % m} for i in range(1, k + 1)]
    acts += [{"a": "begin"}, {"a": "set", "n": inp, "v": 1}, {"a": "commit"}]
    every = [{"a": "query", "t": 0, "n": i} for i in range(1, k + 1)]
    acts += [{"a": "query", "t": 0, "n": top}] + every
    for r in range(1, 5):
        acts += [{"a": "world", "n": i, "v": (i + r) % m} for i in range(1, k + 1)]
        acts += [{"a": "begin"}, {"a": "set", "n": inp, "v": (1 + r) % m}, {"a": "refresh"}, {"a": "commit"}]
        order = list(range(1, k + 1))
        rnd.shuffle(order)
        acts += [{"a": "query", "t": 0, "n": i} for i in order[: max(k // 2, 1)]] + [{"a": "query", "t": 0, "n": top}]
        acts += [{"a": "query", "t": 0, "n": i} for i in order[max(k // 2, 1):]]
        if r == 2:      # refresh without any change of the world, in an otherwise empty session
            acts += [{"a": "begin"}, {"a": "refresh"}, {"a": "commit"}, {"a": "query", "t": 0, "n": top}] + every
        if r == 3:      # the world moves but nobody refreshes: nothing may change
            acts += [{"a": "world", "n": i, "v": (i + 2 * r) % m} for i in range(1, k + 1, 3)]
            acts += [{"a": "begin"}, {"a": "set", "n": inp, "v": 0}, {"a": "commit"}, {"a": "query", "t": 0, "n": top}] + every
    return {"prog": {"m": m, "nodes": nodes}, "actions": acts}

if __name__ == "__main__":
    out, seed = sys.argv[1], int(sys.argv[2])
    rnd = random.Random(seed)
    ks = [int(x) for x in sys.argv[3:]]
    if not ks:
        c = os.cpu_count() or 4
        ks = sorted({1, 3, 4 * c + 1, 8 * c, 8 * c + 1, 8 * c + 3, 12 * c + 5, 16 * c + 1})
    with open(out, "w") as f:
        for k in ks:
            f.write(json.dumps(family(k, rnd)) + "\n")
    print(json.dumps({"written": len(ks), "externals": ks}))
