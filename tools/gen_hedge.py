#!/usr/bin/env python3
"""Family "a sub-query future is dropped inside a live executor" (C05): a hedging node H requests a
slow probe P first (mode 4: polled once, dropped after the other reads if still pending), then reads a
guard G and, only if the guard is not 0, a node D that panics when the guard is 0 (panic_if).  The
order in which H's dependencies were recorded decides whether a later repair checks G before D.
Variants: the probe is a chain of 1..2 nodes, H reads 2 or 3 further dependencies, with/without a
consumer above H."""
import itertools, json, sys

def item(deps, g=0, gc=0, mode=0, w=1, c=0):
    return {"g": g, "gc": gc, "mode": mode, "deps": list(deps), "w": w, "c": c}
def node(kind, code=(), init=0, post=0, panic_if=-1):
    return {"kind": kind, "init": init, "code": list(code), "post": post, "panic_if": panic_if}

def programs():
    out = []
    for plen, extra, top in itertools.product((1, 2), (0, 1), (0, 1)):
        nodes = [node("In"), node("In")]                 # 1 guard input Gi, 2 other input X
        def add(n):
            nodes.append(n); return len(nodes)
        p = add(node("Nm", [item([2])]))                  # probe (has a dependency, so it pends with yields)
        for _ in range(plen - 1):
            p = add(node("Nm", [item([p], c=1)]))
        g = add(node("Nm", [item([1])]))                  # G = Gi
        # D = Gi + 2 (mod 3), panics when its value is 2, i.e. when Gi = 0
        d = add(node("Nm", [item([1], c=2)], panic_if=2))
        code = [item([p, g], mode=4, w=0)]                # acc = 0*P + 1*G
        if extra:
            code.append(item([2], w=0))                   # one more recorded callee
        code.append(item([d], g=2, gc=0, w=0))            # only if acc != 0
        h = add(node("Nm", code))
        if top:
            add(node("Nm", [item([h], c=1)]))
        out.append({"m": 3, "nodes": nodes})
    return out

def histories(prog, rnd, n):
    """Only H and the consumer above it are queried (D itself panics by design when the guard is 0)."""
    k = len(prog["nodes"])
    hs = [i + 1 for i, nd in enumerate(prog["nodes"]) if any(it["mode"] == 4 for it in nd["code"])]
    targets = [x for x in (hs[0], k) if x >= hs[0]]
    acts = []
    for _ in range(n):
        acts += [{"a": "begin"}, {"a": "set", "n": 1, "v": rnd.choice((0, 0, 1, 2))},
                 {"a": "set", "n": 2, "v": rnd.randrange(3)}, {"a": "commit"}]
        acts += [{"a": "query", "t": 0, "n": rnd.choice(targets)} for _ in range(rnd.randrange(1, 3))]
    return acts


if __name__ == "__main__":
    import random
    seed = int(sys.argv[2]) if len(sys.argv) > 2 else 1
    per = int(sys.argv[3]) if len(sys.argv) > 3 else 6
    rnd = random.Random(seed)
    ps = programs()
    n = 0
    with open(sys.argv[1], "w") as f:
        for p in ps:
            for _ in range(per):
                f.write(json.dumps({"prog": p, "actions": histories(p, rnd, 10)}) + "\n")
                n += 1
    print(json.dumps({"written": n}))
