#!/usr/bin/env python3
"""gen_fanin.py OUT K [K ...] [--restart]: cases (program + history) with one callee read by K callers.
1: input A; 2: callee C = A + 1; 3..K+2: callers reading C.  History: set A, query every caller (in an order
that depends on K), change A twice more and query every caller again; with --restart a clean restart
happens before each later input change.  Used around the container thresholds of the callee -> callers
set (32: vector -> hash set, 1024: in-memory -> spilled)."""
import json, sys
args = [a for a in sys.argv[1:] if not a.startswith("--")]
restart = "--restart" in sys.argv
proj = "--proj" in sys.argv      # 2: firewall over the input, K projections over the firewall, one consumer per projection
out, ks = args[0], [int(x) for x in args[1:]]
def item(deps, w=1, c=0):
    return {"g": 0, "gc": 0, "mode": 0, "deps": deps, "w": w, "c": c}
def node(kind, code=(), init=0):
    return {"kind": kind, "init": init, "code": list(code), "post": 0, "panic_if": -1}
with open(out, "w") as f:
    for k in ks:
        if proj:
            nodes = [node("In"), node("Fw", [item([1])], init=1)]
            nodes += [node("Pj", [item([2], c=i % 2)], init=i % 3) for i in range(k)]
            nodes += [node("Nm", [item([3 + i], c=1)]) for i in range(k)]
            callers = list(range(k + 3, 2 * k + 3))
        else:
            nodes = [node("In"), node("Nm", [item([1])], init=1)]
            nodes += [node("Nm", [item([2], c=i % 2)], init=i % 3) for i in range(k)]
            callers = list(range(3, k + 3))
        prog = {"m": 5, "nodes": nodes}
        order = callers[k // 2:] + callers[:k // 2]
        acts = []
        for rnd, v in enumerate((1, 3, 0)):
            if rnd and restart:
                acts.append({"a": "restart"})
            acts += [{"a": "begin"}, {"a": "set", "n": 1, "v": v}, {"a": "commit"}]
            acts += [{"a": "query", "t": 0, "n": n} for n in (order if rnd % 2 == 0 else reversed(order))]
        f.write(json.dumps({"prog": prog, "actions": acts}) + "\n")
print(json.dumps({"cases": len(ks), "fan_in": ks}))
