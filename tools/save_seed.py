#!/usr/bin/env python3
"""save_seed.py <ID> "<caught-by text>": copy a confirmed seeded change from its scratch worktree
(/tmp/mut/<ID>/seed) to /verif/seeded/<ID>/ and record my own confirmation and the check result."""
import json, os, shutil, sys, re
ID, caught = sys.argv[1], sys.argv[2]
src = f"/tmp/mut/{ID}/seed"
dst = f"/verif/seeded/{ID}"
os.makedirs(dst, exist_ok=True)
for f in ("patch.diff", "demo.diff"):
    shutil.copy(os.path.join(src, f), os.path.join(dst, f))
if os.path.isdir(os.path.join(src, "demo")):
    shutil.rmtree(os.path.join(dst, "demo"), ignore_errors=True)
    shutil.copytree(os.path.join(src, "demo"), os.path.join(dst, "demo"))
meta = json.load(open(os.path.join(src, "meta.json")))
conf = open(os.path.join(src, "confirm.log")).read() if os.path.exists(os.path.join(src, "confirm.log")) else ""
def section(name):
    m = re.search(r"== " + re.escape(name) + r"\n(.*?)(?=\n== |\Z)", conf, re.S)
    return m.group(1).strip().splitlines() if m else []
meta["confirmed_by_me"] = {
    "where": f"scratch worktree /tmp/mut/{ID} (removed afterwards), CARGO_TARGET_DIR=/tmp/confirm_target",
    "demo_with_change": section("demo WITH change")[-3:],
    "demo_without_change": section("demo WITHOUT change")[-2:],
    "existing_suite_with_change": section("existing suite WITH change"),
}
extra = os.path.join(src, "confirm.log.projection")
if os.path.exists(extra):
    meta["confirmed_by_me"]["projection_test_alone_with_change_3x"] = open(extra).read().strip().splitlines()
meta["check"] = {"command": f"git -C /repo apply seeded/{ID}/patch.diff; ./check {ID} --tier quick; git -C /repo checkout -- .",
                 "result": caught}
json.dump(meta, open(os.path.join(dst, "meta.json"), "w"), indent=1)
print("saved", dst, meta["confirmed_by_me"]["existing_suite_with_change"])
