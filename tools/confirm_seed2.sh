#!/bin/bash
# confirm_seed2.sh <ID>: like confirm_seed.sh for seeds whose demo is an auto-discovered tests/*.rs file of some crate
ID=$1
W=/tmp/mut/$ID
export CARGO_TARGET_DIR=/tmp/confirm_target
cd $W || exit 2
OUT=$W/seed/confirm.log
: > $OUT; rm -f $OUT.with $OUT.without $OUT.suite
git checkout -- . 2>/dev/null; git clean -fdq crates
git apply seed/patch.diff || { echo "patch does not apply" >> $OUT; exit 2; }
git apply seed/demo.diff || { echo "demo does not apply" >> $OUT; exit 2; }
F=$(git status --porcelain crates | grep '^??' | awk '{print $2}' | grep 'tests/.*\.rs$' | head -1)
[ -d "$F" ] && F=$(ls $F*.rs | head -1)
CR=$(echo $F | sed 's#\(crates/[^/]*\)/.*#\1#')
PKG=$(grep -m1 '^name' $CR/Cargo.toml | sed 's/.*"\(.*\)".*/\1/')
T=$(basename $F .rs)
FEAT=""
[ "$ID" = "C11" ] && FEAT="--features rocksdb,fjall"
echo "demo test: -p $PKG --test $T $FEAT" >> $OUT
find crates -name '*.rs' -exec touch {} +
echo "== demo WITH change" >> $OUT
timeout 2400 cargo test --offline -p $PKG $FEAT --test $T >> $OUT.with 2>&1; echo "exit=$?" >> $OUT.with
grep -E "^test result|exit=|panicked|SIGABRT|signal" $OUT.with | head -8 >> $OUT
git apply -R seed/patch.diff
find crates -name '*.rs' -exec touch {} +
echo "== demo WITHOUT change" >> $OUT
timeout 2400 cargo test --offline -p $PKG $FEAT --test $T >> $OUT.without 2>&1; echo "exit=$?" >> $OUT.without
grep -E "^test result|exit=" $OUT.without | head -4 >> $OUT
git apply seed/patch.diff
git apply -R seed/demo.diff
find crates -name '*.rs' -exec touch {} +
echo "== existing suite WITH change" >> $OUT
timeout 3000 cargo test --workspace --no-fail-fast --offline > $OUT.suite 2>&1; echo "exit=$?" >> $OUT.suite
grep -E "^test .* FAILED|exit=" $OUT.suite | head >> $OUT
grep "test result" $OUT.suite | awk '{p+=$4; f+=$6} END {print "passed", p, "failed", f}' >> $OUT
git checkout -- . ; git clean -fdq crates
cat $OUT
