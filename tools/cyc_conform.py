#!/usr/bin/env python3
"""EngineCyc <-> real engine, executor run by executor run.

  cyc_conform.py compare <behaviours.ndjson> <trace.ndjson>

behaviours.ndjson: one JSON object per line as printed by EngineCycMC (Emitting = TRUE):
    {prog, actions, queries: [{n, v, judged}], runs: [{n, reads, out}], err}
trace.ndjson: what eng_seq --mode replay --cyc 1 recorded for exactly these behaviours, in order
(runs separated by `reset` events).

Prints one JSON summary; "mismatches" lists behaviours whose user-visible values or executor runs
differ from what the model predicts (kind = "value": a query result differs; kind = "runs": the
sequence of executor runs differs; kind = "state": the persisted mechanism state after some query or
commit differs (traces recorded with --dump 1 only); kind = "model_err": the model itself reported
trouble)."""
import json, sys


def impl_runs(trace):
    def fresh():
        return {"queries": [], "runs": [], "panics": [], "dumps": []}
    cur = fresh()
    snap = None
    for line in open(trace):
        e = json.loads(line)
        k = e.get("e")
        if k == "act":
            if snap:
                cur["dumps"].append(snap)
            snap = None
        elif k == "dump":
            snap = snap or {}
            snap[e["n"]] = {"age": -1 if e["lv"] < 0 else e["cur"] - e["lv"], "fwd": e["fwd"],
                            "dirty": sorted(e["dirty"]), "back": sorted(e["back"]), "tfc": sorted(e.get("tfc", []))}
        if k == "reset":
            if snap:
                cur["dumps"].append(snap)
            snap = None
        if k == "query":
            cur["queries"].append((e["n"], e["v"]))
        elif k == "exec":
            cur["runs"].append((e["n"], [tuple(r) for r in e["reads"]], e["out"] if e.get("ok", True) else -1))
        elif k in ("query_panicked", "hang", "no_progress"):
            cur["panics"].append(e)
        elif k == "reset":
            yield cur
            cur = fresh()


def main():
    beh_path, trace = sys.argv[2], sys.argv[3]
    behs = [json.loads(l) for l in open(beh_path) if l.strip()]
    n = nq = nr = nd = norder = 0
    mism = []
    for i, (b, r) in enumerate(zip(behs, impl_runs(trace))):
        n += 1
        mq = [(q["n"], q["v"]) for q in b["queries"]]
        mr = [(x["n"], [tuple(y) for y in x["reads"]], x["out"]) for x in b["runs"]]
        nq += len(mq)
        nr += len(mr)
        kind = None
        state_diff = None
        if b.get("err"):
            kind = "model_err"
        elif r["panics"]:
            kind = "value"
        elif mq != r["queries"]:
            kind = "value"
        elif mr != r["runs"] and sorted(map(repr, mr)) == sorted(map(repr, r["runs"])):
            # the same executor runs in another order: the firewalls of one transitive-firewall-callee set are
            # repaired in the iteration order of a hash set (the model takes them in ascending order)
            norder += 1
        elif mr != r["runs"]:
            kind = "runs"
        elif r["dumps"] and "snaps" in b:
            # mechanism state after every query / commit (Engine::verif_dump): age of last_verified,
            # forward edge order, dirty edges, callers
            ms = [{int(k) if not isinstance(k, int) else k: v for k, v in (enumerate(sn, 1) if isinstance(sn, list) else sn.items())}
                  for sn in b["snaps"]]
            nd += len(r["dumps"])
            if len(ms) != len(r["dumps"]):
                kind, state_diff = "state", {"snapshots": [len(ms), len(r["dumps"])]}
            else:
                for si, (m_, d_) in enumerate(zip(ms, r["dumps"])):
                    for node in sorted(d_):
                        mm = m_[node]
                        mm = {"age": mm["age"], "fwd": list(mm["fwd"]), "dirty": sorted(mm["dirty"]), "back": sorted(mm["back"]),
                              "tfc": sorted(mm.get("tfc", []))}
                        if mm != d_[node]:
                            kind, state_diff = "state", {"snapshot": si, "node": node, "model": mm, "impl": d_[node]}
                            break
                    if kind:
                        break
        if kind:
            mism.append({"i": i, "kind": kind, "model_queries": mq, "impl_queries": r["queries"],
                         "model_runs": mr, "impl_runs": r["runs"], "panics": r["panics"][:2],
                         "judged": [q["judged"] for q in b["queries"]], "err": b.get("err", ""), "state_diff": state_diff,
                         "case": {"prog": b["prog"], "actions": b["actions"]}})
    print(json.dumps({"behaviours": n, "queries_compared": nq, "executor_runs_compared": nr, "state_snapshots_compared": nd,
                      "same_runs_in_another_order": norder, "mismatches": len(mism), "first": mism[:5]}))


if __name__ == "__main__":
    main()
