#!/usr/bin/env python3
"""EngineCyc <-> real engine, executor run by executor run.

  cyc_conform.py compare <behaviours.ndjson> <trace.ndjson>

behaviours.ndjson: one JSON object per line as printed by EngineCycMC (Emitting = TRUE):
    {prog, actions, queries: [{n, v, judged}], runs: [{n, reads, out}], err}
trace.ndjson: what eng_seq --mode replay --cyc 1 recorded for exactly these behaviours, in order
(runs separated by `reset` events).

Prints one JSON summary; "mismatches" lists behaviours whose user-visible values or executor runs
differ from what the model predicts (kind = "value": a query result differs; kind = "runs": the
sequence of executor runs differs; kind = "model_err": the model itself reported trouble)."""
import json, sys


def impl_runs(trace):
    cur = {"queries": [], "runs": [], "panics": []}
    for line in open(trace):
        e = json.loads(line)
        k = e.get("e")
        if k == "query":
            cur["queries"].append((e["n"], e["v"]))
        elif k == "exec":
            cur["runs"].append((e["n"], [tuple(r) for r in e["reads"]], e["out"] if e.get("ok", True) else -1))
        elif k in ("query_panicked", "hang", "no_progress"):
            cur["panics"].append(e)
        elif k == "reset":
            yield cur
            cur = {"queries": [], "runs": [], "panics": []}


def main():
    beh_path, trace = sys.argv[2], sys.argv[3]
    behs = [json.loads(l) for l in open(beh_path) if l.strip()]
    n = nq = nr = 0
    mism = []
    for i, (b, r) in enumerate(zip(behs, impl_runs(trace))):
        n += 1
        mq = [(q["n"], q["v"]) for q in b["queries"]]
        mr = [(x["n"], [tuple(y) for y in x["reads"]], x["out"]) for x in b["runs"]]
        nq += len(mq)
        nr += len(mr)
        kind = None
        if b.get("err"):
            kind = "model_err"
        elif r["panics"]:
            kind = "value"
        elif mq != r["queries"]:
            kind = "value"
        elif mr != r["runs"]:
            kind = "runs"
        if kind:
            mism.append({"i": i, "kind": kind, "model_queries": mq, "impl_queries": r["queries"],
                         "model_runs": mr, "impl_runs": r["runs"], "panics": r["panics"][:2],
                         "judged": [q["judged"] for q in b["queries"]], "err": b.get("err", ""),
                         "case": {"prog": b["prog"], "actions": b["actions"]}})
    print(json.dumps({"behaviours": n, "queries_compared": nq, "executor_runs_compared": nr,
                      "mismatches": len(mism), "first": mism[:5]}))


if __name__ == "__main__":
    main()
