#!/usr/bin/env python3
"""showviol.py TRACE OUT [k]: print context of k-th unclassified violation."""
import json,sys
L=[json.loads(l) for l in open(sys.argv[1])]
o=json.load(open(sys.argv[2]))
vs=[v for v in o['viol'] if v['kf']=='']
k=int(sys.argv[3]) if len(sys.argv)>3 else 0
v=vs[k]; print(v)
i=v['at']-1
s=i
while L[s]['e']!='prog': s-=1
p=L[s]['prog']
for kk,n in enumerate(p['nodes'],1): print(kk,n['kind'],'init',n['init'],'post',n['post'],[(it['g'],it['gc'],it['mode'],it['deps'],it['w'],it['c']) for it in n['code']])
# print events of the last 3 epochs
commits=[j for j in range(s,i+1) if L[j]['e']=='commit']
start=commits[-3] if len(commits)>=3 else s
inputs={}
for j in range(s,start):
    if L[j]['e']=='set': inputs[L[j]['n']]=L[j]['v']
print('inputs before window',inputs)
for j in range(start,i+1):
    e=L[j]
    if e['e'] in ('tracked','drop','enter'): continue
    print(j+1,e)
