#!/usr/bin/env python3
"""Build the minimal witness cases of the engine-level known findings
(/verif/witness/*.json); each is replayable with ./check <ID> --replay."""
import json, os
ROOT = os.path.dirname(os.path.dirname(os.path.abspath(__file__)))
def item(deps, g=0, gc=0, mode=0, w=1, c=0):
    return {"g": g, "gc": gc, "mode": mode, "deps": list(deps), "w": w, "c": c}
def node(kind, code=(), init=0, post=0):
    return {"kind": kind, "init": init, "code": list(code), "post": post, "panic_if": -1}
def sess(*kv):
    return [{"a": "begin"}] + [{"a": "set", "n": n, "v": v} for n, v in kv] + [{"a": "commit"}]
def q(*ns):
    return [{"a": "query", "t": 0, "n": n} for n in ns]
W = {}
# KF_TFC: A <- F(Fw) <- N <- R ; R2 -> R
W["kf_tfc"] = ("C01", {"m": 3, "nodes": [node("In"), node("Fw", [item([1])]), node("Nm", [item([2])]),
                                          node("Nm", [item([3])]), node("Nm", [item([4])])]},
               sess((1, 0)) + q(4) + sess((1, 1)) + q(5))
# KF_PBP: A <- F(Fw) <- P(Pj) <- N
W["kf_pbp"] = ("C01", {"m": 3, "nodes": [node("In"), node("Fw", [item([1])]), node("Pj", [item([2])]),
                                          node("Nm", [item([3])])]},
               sess((1, 0)) + q(4) + sess((1, 1)) + q(2) + sess() + q(4))
# KF_BP: A <- F(Fw) <- P(Pj); F goes 0 -> 1 (seen by nobody) -> 0
W["kf_bp"] = ("C03", {"m": 3, "nodes": [node("In"), node("Fw", [item([1])]), node("Pj", [item([2])]),
                                         node("Nm", [item([3])])]},
              sess((1, 0)) + q(4) + sess((1, 1)) + q(2) + sess((1, 0)) + q(4))
# KF_TFC_LAG: picker 5 reads S(1) and then F1(3<-A1) or F2(4<-A2); T(6) <- 5 ; U(7) <- T
lag_nodes = [node("In"), node("In"), node("In"),            # 1 S, 2 A1, 3 A2
             node("Fw", [item([2])]), node("Fw", [item([3])]),   # 4 F1, 5 F2
             # 6 pick: acc=S; S==0: acc=F1 ; S==1: acc=1+F2+2=F2 (mod 3)
             node("Nm", [item([1]), item([4], g=1, gc=0), item([5], g=1, gc=1, c=2)]),
             node("Nm", [item([6])]),                        # 7 T
             node("Nm", [item([7], c=1)])]                   # 8 U
W["kf_tfc_lag"] = ("C01", {"m": 3, "nodes": lag_nodes},
                   sess((1, 0), (2, 2), (3, 2)) + q(8)       # U computed through F1
                   + sess((1, 1)) + q(7)                     # picker switches to F2, same value; only T re-verified
                   + sess((3, 0)) + q(8))                    # F2 changes: U's recorded firewall set lacks F2
for name, (pid, prog, actions) in W.items():
    json.dump({"property": pid, "cfg": "mem", "case": {"prog": prog, "actions": actions}},
              open(os.path.join(ROOT, "witness", name + ".json"), "w"), indent=1)
print("written", sorted(W))
