//! C12 — a dynamically typed value universe over the REAL `Encode`/`Decode`
//! impls of `qbice_serialize` (+ derive, + `Interned`).
//!
//! Rust is statically typed, TLC enumerates type *terms*.  The bridge is
//! [`Dyn`]: a value that carries its type term.  `Dyn::encode` dispatches on
//! the term and calls the REAL generic impl instantiated at `T = Dyn`
//! (`Vec<Dyn>`, `HashMap<Dyn, Dyn>`, `Option<Dyn>`, `(Dyn, Dyn, Dyn)`,
//! `[Dyn; 3]`, `Interned<Dyn>`, derived `GS<Dyn>` …) and the real leaf impls
//! (`u64`, `String`, `NonZeroI16`, `AtomicU32`, …).  `Dyn::decode` learns the
//! expected term from a thread-local frame stack (decode is a static method)
//! and calls the real `Decode` impl of the same instantiation.  The generic
//! source of an impl is the same for every `T`, so nesting to any depth
//! exercises exactly the shipped code.
#![allow(clippy::all)]
#![allow(dead_code)]

use std::{
    borrow::Cow,
    cell::{Cell, RefCell},
    collections::{BTreeMap, BTreeSet, HashMap, HashSet, LinkedList, VecDeque},
    io,
    path::{Path, PathBuf},
    rc::Rc,
    sync::Arc,
};

use dashmap::{DashMap, DashSet};
use fxhash::FxBuildHasher;
use qbice::serialize::{
    Decode, Decoder, Encode, Encoder, Plugin, PostcardDecoder, PostcardEncoder, session::Session,
};
use qbice::stable_hash::{BuildStableHasherDefault, Sip128Hasher, StableHash, StableHasher};
use qbice::stable_type_id::{Identifiable, StableTypeID};
use qbice::storage::intern::{Interned, Interner};
use serde_json::{Value as J, json};

macro_rules! named_enum {
    ($name:ident { $($v:ident),* $(,)? }) => {
        #[derive(Clone, Copy, Debug, PartialEq, Eq, Hash, PartialOrd, Ord)]
        pub enum $name { $($v),* }
        impl $name {
            pub const ALL: &'static [$name] = &[$($name::$v),*];
            pub fn name(self) -> &'static str { match self { $($name::$v => stringify!($v)),* } }
            pub fn parse(s: &str) -> Option<Self> { match s { $(stringify!($v) => Some($name::$v),)* _ => None } }
        }
    };
}

named_enum!(Leaf {
    U8, U16, U32, U64, U128, Usize, I8, I16, I32, I64, I128, Isize, Bool, Char, F32, F64, Unit,
    String, BoxStr, RcStr, ArcStr, CowStr, RefStr, PathBuf, BoxPath, RcPath, ArcPath,
    Duration, RangeFull,
    NzU8, NzU16, NzU32, NzU64, NzU128, NzUsize, NzI8, NzI16, NzI32, NzI64, NzI128, NzIsize,
    AtBool, AtI8, AtI16, AtI32, AtI64, AtIsize, AtU8, AtU16, AtU32, AtU64, AtUsize,
    CellU32, CellI64, CellBool, CellPair,
    UnitStruct, Named, TupleStruct, Enum, BigEnum,
    IStr, IPath, IString,
    BvUsizeLsb0, BvU8Lsb0, BvU8Msb0, BvU16Lsb0, BvU32Msb0, BvU64Lsb0,
});

named_enum!(Un {
    Option, Vec, VecDeque, LinkedList, BoxSlice, RcSlice, ArcSlice, Slice,
    BTreeSet, HashSet, HashSetFx, DashSet,
    Box, Rc, Arc, Cow, CowSlice, Ref, RefMut, RefCell, Wrapping, Reverse, Phantom,
    Range, RangeInclusive, RangeFrom, RangeTo, RangeToInclusive, Bound,
    Array0, Array1, Array2, Array3, Array4, Array33, Pair, Triple,
    Interned, InternedSlice, Gs, Ge, GSkip, SmallVec2,
});

named_enum!(Bin { Result, BTreeMap, HashMap, HashMapFx, DashMap, Gs2, Ge2 });

pub const EXTRAS: bool = cfg!(feature = "extras");

impl Leaf {
    pub fn is_extra(self) -> bool {
        matches!(self, Leaf::BvUsizeLsb0 | Leaf::BvU8Lsb0 | Leaf::BvU8Msb0 | Leaf::BvU16Lsb0 | Leaf::BvU32Msb0 | Leaf::BvU64Lsb0)
    }
}
impl Un {
    pub fn is_extra(self) -> bool { matches!(self, Un::SmallVec2) }
}

/// A type term.
#[derive(Clone, Debug, PartialEq, Eq, Hash, PartialOrd, Ord)]
pub enum Ty {
    Leaf(Leaf),
    Un(Un, Arc<Ty>),
    Bin(Bin, Arc<Ty>, Arc<Ty>),
    /// tuples of arity 1..=12
    Tup(Vec<Arc<Ty>>),
}

impl Ty {
    pub fn show(&self) -> String {
        match self {
            Ty::Leaf(l) => l.name().to_string(),
            Ty::Un(u, a) => format!("{}<{}>", u.name(), a.show()),
            Ty::Bin(b, x, y) => format!("{}<{},{}>", b.name(), x.show(), y.show()),
            Ty::Tup(v) => format!("({})", v.iter().map(|t| t.show()).collect::<Vec<_>>().join(",")),
        }
    }
}

/// Value representation (normalised: unordered collections are sorted, floats
/// are bit patterns, skipped fields are not represented).
#[derive(Clone, Debug, PartialEq, Eq, Hash, PartialOrd, Ord)]
pub enum V {
    Unit,
    Bool(bool),
    U(u128),
    I(i128),
    Char(char),
    F32(u32),
    F64(u64),
    Str(String),
    Dur(u64, u32),
    Bits(Vec<bool>),
    /// leaf composites (derived structs): untyped field list
    Raw(Vec<V>),
    /// leaf enums: variant index + fields
    RawVariant(u32, Vec<V>),
    /// typed children in order (sequences, tuples, arrays, struct fields)
    Seq(Vec<Dyn>),
    /// sets: sorted, deduplicated
    Set(Vec<Dyn>),
    /// maps: sorted by key
    Map(Vec<(Dyn, Dyn)>),
    Opt(Option<Box<Dyn>>),
    /// Result / Bound / generic derived enums
    Variant(u32, Vec<Dyn>),
    Handle(Interned<Dyn>),
    HandleSlice(Interned<[Dyn]>),
    HandleStr(Interned<str>),
    HandlePath(Interned<Path>),
    HandleString(Interned<String>),
    /// produced by the decode side when a non-representable condition is seen
    /// (e.g. a skipped field that is not `Default`): never equal to an input
    Bad(String),
}

#[derive(Clone, Debug, PartialEq, Eq, Hash, PartialOrd, Ord)]
pub struct Dyn {
    pub ty: Arc<Ty>,
    pub v: V,
}

impl Default for Dyn {
    fn default() -> Self { Dyn { ty: Arc::new(Ty::Leaf(Leaf::Unit)), v: V::Unit } }
}

impl Identifiable for Dyn {
    const STABLE_TYPE_ID: StableTypeID = StableTypeID::from_unique_type_name("vh::codec::Dyn@C12");
}

impl StableHash for Dyn {
    fn stable_hash<H: StableHasher + ?Sized>(&self, state: &mut H) {
        // canonical: V is normalised, Debug prints the whole tree incl. handles' contents
        format!("{:?}", self).stable_hash(state);
    }
}

// ---------------------------------------------------------------------------
// derived types (the derive macros under test)
// ---------------------------------------------------------------------------

#[derive(qbice::Encode, qbice::Decode, Debug, Clone, PartialEq)]
pub struct UnitS;

#[derive(qbice::Encode, qbice::Decode, Debug, Clone, PartialEq)]
pub struct NamedS {
    pub x: i32,
    #[serialize(skip)]
    pub cache: Vec<u8>,
    pub y: u64,
    pub name: String,
    #[serialize(skip)]
    pub tail: Option<String>,
}

#[derive(qbice::Encode, qbice::Decode, Debug, Clone, PartialEq)]
pub struct TupleS(pub u16, #[serialize(skip)] pub u64, pub String, pub i8);

#[derive(qbice::Encode, qbice::Decode, Debug, Clone, PartialEq)]
pub enum En {
    A,
    B(u32, String),
    C {
        x: i64,
        #[serialize(skip)]
        s: String,
        y: bool,
    },
    D(#[serialize(skip)] u8, i16),
    E {
        #[serialize(skip)]
        only: u8,
    },
}

macro_rules! big_enum {
    ($($u:ident = $i:expr),*) => {
        #[derive(qbice::Encode, qbice::Decode, Debug, Clone, PartialEq)]
        pub enum Big {
            $($u,)*
            T128(u32),
            N129 { a: String },
            U130,
            T131(u8, #[serialize(skip)] u8, i64),
        }
        impl Big {
            pub fn unit_from_idx(i: u32) -> Option<Big> { match i { $($i => Some(Big::$u),)* 130 => Some(Big::U130), _ => None } }
            pub fn idx(&self) -> u32 {
                match self { $(Big::$u => $i,)* Big::T128(..) => 128, Big::N129 { .. } => 129, Big::U130 => 130, Big::T131(..) => 131 }
            }
        }
    };
}
big_enum!(V0=0, V1=1, V2=2, V3=3, V4=4, V5=5, V6=6, V7=7, V8=8, V9=9, V10=10, V11=11, V12=12, V13=13, V14=14, V15=15, V16=16, V17=17, V18=18, V19=19, V20=20, V21=21, V22=22, V23=23, V24=24, V25=25, V26=26, V27=27, V28=28, V29=29, V30=30, V31=31, V32=32, V33=33, V34=34, V35=35, V36=36, V37=37, V38=38, V39=39, V40=40, V41=41, V42=42, V43=43, V44=44, V45=45, V46=46, V47=47, V48=48, V49=49, V50=50, V51=51, V52=52, V53=53, V54=54, V55=55, V56=56, V57=57, V58=58, V59=59, V60=60, V61=61, V62=62, V63=63, V64=64, V65=65, V66=66, V67=67, V68=68, V69=69, V70=70, V71=71, V72=72, V73=73, V74=74, V75=75, V76=76, V77=77, V78=78, V79=79, V80=80, V81=81, V82=82, V83=83, V84=84, V85=85, V86=86, V87=87, V88=88, V89=89, V90=90, V91=91, V92=92, V93=93, V94=94, V95=95, V96=96, V97=97, V98=98, V99=99, V100=100, V101=101, V102=102, V103=103, V104=104, V105=105, V106=106, V107=107, V108=108, V109=109, V110=110, V111=111, V112=112, V113=113, V114=114, V115=115, V116=116, V117=117, V118=118, V119=119, V120=120, V121=121, V122=122, V123=123, V124=124, V125=125, V126=126, V127=127);

#[derive(qbice::Encode, qbice::Decode, Debug, Clone, PartialEq)]
pub struct GS<T> {
    pub a: T,
    #[serialize(skip)]
    pub skipped: u32,
    pub b: T,
}

#[derive(qbice::Encode, qbice::Decode, Debug, Clone, PartialEq)]
pub enum GE<T> {
    U,
    T1(T),
    N {
        x: T,
        #[serialize(skip)]
        s: u8,
        y: T,
    },
    T2(#[serialize(skip)] u8, T),
}

#[derive(qbice::Encode, qbice::Decode, Debug, Clone, PartialEq)]
pub struct GSkipS<T: Default> {
    #[serialize(skip)]
    pub t: T,
    pub n: u8,
}

#[derive(qbice::Encode, qbice::Decode, Debug, Clone, PartialEq)]
pub struct GS2<T, U> {
    pub t: T,
    pub u: U,
    #[serialize(skip)]
    pub z: String,
}

#[derive(qbice::Encode, qbice::Decode, Debug, Clone, PartialEq)]
pub enum GE2<T, U> {
    L(T),
    R(U),
    B { t: T, u: U },
    Z,
}

// ---------------------------------------------------------------------------
// thread-local decode frames and M-layer observation counters
// ---------------------------------------------------------------------------

struct Frame {
    tys: Vec<Arc<Ty>>,
    i: usize,
}

thread_local! {
    static CTX: RefCell<Vec<Frame>> = const { RefCell::new(Vec::new()) };
    static ENC_CALLS: Cell<u64> = const { Cell::new(0) };
    static DEC_CALLS: Cell<u64> = const { Cell::new(0) };
    static SR_ENC: RefCell<Vec<u8>> = const { RefCell::new(Vec::new()) };
    static SR_DEC: RefCell<Vec<u8>> = const { RefCell::new(Vec::new()) };
}

pub fn reset_tls() {
    CTX.with(|c| c.borrow_mut().clear());
    SR_ENC.with(|c| c.borrow_mut().clear());
    SR_DEC.with(|c| c.borrow_mut().clear());
}

pub fn take_sr_enc() -> String { SR_ENC.with(|c| String::from_utf8(std::mem::take(&mut *c.borrow_mut())).unwrap()) }
pub fn take_sr_dec() -> String { SR_DEC.with(|c| String::from_utf8(std::mem::take(&mut *c.borrow_mut())).unwrap()) }

struct FrameGuard;
impl Drop for FrameGuard {
    fn drop(&mut self) { CTX.with(|c| { c.borrow_mut().pop(); }); }
}

/// Run `f` with the expected child types `tys` (taken cyclically by the
/// `Dyn::decode` calls made by the real container impl).
pub fn with_frame<R>(tys: Vec<Arc<Ty>>, f: impl FnOnce() -> R) -> R {
    CTX.with(|c| c.borrow_mut().push(Frame { tys, i: 0 }));
    let _g = FrameGuard;
    f()
}

fn next_ty() -> io::Result<Arc<Ty>> {
    CTX.with(|c| {
        let mut c = c.borrow_mut();
        let f = c.last_mut().ok_or_else(|| io::Error::new(io::ErrorKind::Other, "harness: Dyn::decode without frame"))?;
        if f.tys.is_empty() {
            return Err(io::Error::new(io::ErrorKind::Other, "harness: empty frame"));
        }
        let t = f.tys[f.i % f.tys.len()].clone();
        f.i += 1;
        Ok(t)
    })
}

fn sr_open(log: &'static std::thread::LocalKey<RefCell<Vec<u8>>>) -> usize {
    log.with(|l| { let mut l = l.borrow_mut(); l.push(b'?'); l.len() - 1 })
}
fn sr_close(log: &'static std::thread::LocalKey<RefCell<Vec<u8>>>, idx: usize, src: bool) {
    log.with(|l| { if let Some(x) = l.borrow_mut().get_mut(idx) { *x = if src { b'S' } else { b'R' }; } });
}

fn bad(msg: impl Into<String>) -> io::Error { io::Error::new(io::ErrorKind::Other, format!("harness: {}", msg.into())) }

// ---------------------------------------------------------------------------
// Encode: dispatch to the real impls
// ---------------------------------------------------------------------------

impl Dyn {
    pub fn new(ty: &Arc<Ty>, v: V) -> Dyn { Dyn { ty: ty.clone(), v } }
    fn u(&self) -> io::Result<u128> { if let V::U(x) = &self.v { Ok(*x) } else { Err(bad(format!("expected U in {:?}", self.ty))) } }
    fn i(&self) -> io::Result<i128> { if let V::I(x) = &self.v { Ok(*x) } else { Err(bad(format!("expected I in {:?}", self.ty))) } }
    fn b(&self) -> io::Result<bool> { if let V::Bool(x) = &self.v { Ok(*x) } else { Err(bad("expected Bool")) } }
    fn s(&self) -> io::Result<&str> { if let V::Str(x) = &self.v { Ok(x) } else { Err(bad("expected Str")) } }
    fn seq(&self) -> io::Result<&[Dyn]> {
        match &self.v { V::Seq(x) | V::Set(x) => Ok(x), _ => Err(bad(format!("expected Seq in {}", self.ty.show()))) }
    }
    fn seqn(&self, n: usize) -> io::Result<&[Dyn]> {
        let s = self.seq()?;
        if s.len() == n { Ok(s) } else { Err(bad(format!("expected {} children, got {} in {}", n, s.len(), self.ty.show()))) }
    }
    fn map(&self) -> io::Result<&[(Dyn, Dyn)]> { if let V::Map(x) = &self.v { Ok(x) } else { Err(bad("expected Map")) } }
    fn raw(&self) -> io::Result<&[V]> { if let V::Raw(x) = &self.v { Ok(x) } else { Err(bad("expected Raw")) } }
    fn bits(&self) -> io::Result<&[bool]> { if let V::Bits(x) = &self.v { Ok(x) } else { Err(bad("expected Bits")) } }
}

fn vu(v: &V) -> io::Result<u128> { if let V::U(x) = v { Ok(*x) } else { Err(bad("raw: expected U")) } }
fn vi(v: &V) -> io::Result<i128> { if let V::I(x) = v { Ok(*x) } else { Err(bad("raw: expected I")) } }
fn vs(v: &V) -> io::Result<String> { if let V::Str(x) = v { Ok(x.clone()) } else { Err(bad("raw: expected Str")) } }
fn vb(v: &V) -> io::Result<bool> { if let V::Bool(x) = v { Ok(*x) } else { Err(bad("raw: expected Bool")) } }

/// junk put into skipped fields of values to be encoded (must not survive)
const JUNK8: u8 = 0xA5;

fn to_named(d: &Dyn) -> io::Result<NamedS> {
    let r = d.raw()?;
    Ok(NamedS { x: vi(&r[0])? as i32, cache: vec![JUNK8, 1, 2], y: vu(&r[1])? as u64, name: vs(&r[2])?, tail: Some("junk".into()) })
}
fn from_named(n: NamedS) -> V {
    if !n.cache.is_empty() || n.tail.is_some() { return V::Bad("NamedS: skipped field not Default after decode".into()); }
    V::Raw(vec![V::I(n.x as i128), V::U(n.y as u128), V::Str(n.name)])
}
fn to_tuples(d: &Dyn) -> io::Result<TupleS> {
    let r = d.raw()?;
    Ok(TupleS(vu(&r[0])? as u16, 0xDEAD_BEEF, vs(&r[1])?, vi(&r[2])? as i8))
}
fn from_tuples(t: TupleS) -> V {
    if t.1 != 0 { return V::Bad("TupleS: skipped field not Default".into()); }
    V::Raw(vec![V::U(t.0 as u128), V::Str(t.2), V::I(t.3 as i128)])
}
fn to_en(d: &Dyn) -> io::Result<En> {
    if let V::RawVariant(i, f) = &d.v {
        Ok(match i {
            0 => En::A,
            1 => En::B(vu(&f[0])? as u32, vs(&f[1])?),
            2 => En::C { x: vi(&f[0])? as i64, s: "junk".into(), y: vb(&f[1])? },
            3 => En::D(JUNK8, vi(&f[0])? as i16),
            4 => En::E { only: JUNK8 },
            _ => return Err(bad("En idx")),
        })
    } else { Err(bad("expected RawVariant")) }
}
fn from_en(e: En) -> V {
    match e {
        En::A => V::RawVariant(0, vec![]),
        En::B(a, b) => V::RawVariant(1, vec![V::U(a as u128), V::Str(b)]),
        En::C { x, s, y } => if s.is_empty() { V::RawVariant(2, vec![V::I(x as i128), V::Bool(y)]) } else { V::Bad("En::C skip".into()) },
        En::D(k, v) => if k == 0 { V::RawVariant(3, vec![V::I(v as i128)]) } else { V::Bad("En::D skip".into()) },
        En::E { only } => if only == 0 { V::RawVariant(4, vec![]) } else { V::Bad("En::E skip".into()) },
    }
}
fn to_big(d: &Dyn) -> io::Result<Big> {
    if let V::RawVariant(i, f) = &d.v {
        Ok(match i {
            128 => Big::T128(vu(&f[0])? as u32),
            129 => Big::N129 { a: vs(&f[0])? },
            131 => Big::T131(vu(&f[0])? as u8, JUNK8, vi(&f[1])? as i64),
            i => Big::unit_from_idx(*i).ok_or_else(|| bad("Big idx"))?,
        })
    } else { Err(bad("expected RawVariant")) }
}
fn from_big(b: Big) -> V {
    let i = b.idx();
    match b {
        Big::T128(x) => V::RawVariant(i, vec![V::U(x as u128)]),
        Big::N129 { a } => V::RawVariant(i, vec![V::Str(a)]),
        Big::T131(x, k, y) => if k == 0 { V::RawVariant(i, vec![V::U(x as u128), V::I(y as i128)]) } else { V::Bad("Big::T131 skip".into()) },
        _ => V::RawVariant(i, vec![]),
    }
}

#[cfg(feature = "extras")]
fn to_bv<T: bitvec::store::BitStore, O: bitvec::order::BitOrder>(bits: &[bool]) -> bitvec::vec::BitVec<T, O> {
    let mut bv = bitvec::vec::BitVec::<T, O>::new();
    for b in bits { bv.push(*b); }
    bv
}
#[cfg(feature = "extras")]
fn from_bv<T: bitvec::store::BitStore, O: bitvec::order::BitOrder>(bv: bitvec::vec::BitVec<T, O>) -> V {
    V::Bits(bv.iter().map(|b| *b).collect())
}

macro_rules! enc_atomic {
    ($e:expr, $p:expr, $s:expr, $at:ty, $val:expr) => { <$at>::new($val).encode($e, $p, $s) };
}

fn arr<const N: usize>(s: &[Dyn]) -> io::Result<[Dyn; N]> {
    let v: Vec<Dyn> = s.to_vec();
    <[Dyn; N]>::try_from(v).map_err(|_| bad(format!("array arity {}", N)))
}

impl Encode for Dyn {
    fn encode<E: Encoder + ?Sized>(&self, e: &mut E, p: &Plugin, s: &mut Session) -> io::Result<()> {
        ENC_CALLS.with(|c| c.set(c.get() + 1));
        use std::num::*;
        use std::sync::atomic::*;
        match &*self.ty {
            Ty::Leaf(l) => match l {
                Leaf::U8 => (self.u()? as u8).encode(e, p, s),
                Leaf::U16 => (self.u()? as u16).encode(e, p, s),
                Leaf::U32 => (self.u()? as u32).encode(e, p, s),
                Leaf::U64 => (self.u()? as u64).encode(e, p, s),
                Leaf::U128 => self.u()?.encode(e, p, s),
                Leaf::Usize => (self.u()? as usize).encode(e, p, s),
                Leaf::I8 => (self.i()? as i8).encode(e, p, s),
                Leaf::I16 => (self.i()? as i16).encode(e, p, s),
                Leaf::I32 => (self.i()? as i32).encode(e, p, s),
                Leaf::I64 => (self.i()? as i64).encode(e, p, s),
                Leaf::I128 => self.i()?.encode(e, p, s),
                Leaf::Isize => (self.i()? as isize).encode(e, p, s),
                Leaf::Bool => self.b()?.encode(e, p, s),
                Leaf::Char => if let V::Char(c) = self.v { c.encode(e, p, s) } else { Err(bad("Char")) },
                Leaf::F32 => if let V::F32(b) = self.v { f32::from_bits(b).encode(e, p, s) } else { Err(bad("F32")) },
                Leaf::F64 => if let V::F64(b) = self.v { f64::from_bits(b).encode(e, p, s) } else { Err(bad("F64")) },
                Leaf::Unit => ().encode(e, p, s),
                Leaf::String => self.s()?.to_string().encode(e, p, s),
                Leaf::BoxStr => Box::<str>::from(self.s()?).encode(e, p, s),
                Leaf::RcStr => Rc::<str>::from(self.s()?).encode(e, p, s),
                Leaf::ArcStr => Arc::<str>::from(self.s()?).encode(e, p, s),
                Leaf::CowStr => Cow::<'_, str>::Borrowed(self.s()?).encode(e, p, s),
                Leaf::RefStr => { let r: &str = self.s()?; (&r).encode(e, p, s) }
                Leaf::PathBuf => PathBuf::from(self.s()?).encode(e, p, s),
                Leaf::BoxPath => Box::<Path>::from(Path::new(self.s()?)).encode(e, p, s),
                Leaf::RcPath => Rc::<Path>::from(Path::new(self.s()?)).encode(e, p, s),
                Leaf::ArcPath => Arc::<Path>::from(Path::new(self.s()?)).encode(e, p, s),
                Leaf::Duration => if let V::Dur(a, b) = self.v { std::time::Duration::new(a, b).encode(e, p, s) } else { Err(bad("Dur")) },
                Leaf::RangeFull => (..).encode(e, p, s),
                Leaf::NzU8 => NonZeroU8::new(self.u()? as u8).ok_or_else(|| bad("nz"))?.encode(e, p, s),
                Leaf::NzU16 => NonZeroU16::new(self.u()? as u16).ok_or_else(|| bad("nz"))?.encode(e, p, s),
                Leaf::NzU32 => NonZeroU32::new(self.u()? as u32).ok_or_else(|| bad("nz"))?.encode(e, p, s),
                Leaf::NzU64 => NonZeroU64::new(self.u()? as u64).ok_or_else(|| bad("nz"))?.encode(e, p, s),
                Leaf::NzU128 => NonZeroU128::new(self.u()?).ok_or_else(|| bad("nz"))?.encode(e, p, s),
                Leaf::NzUsize => NonZeroUsize::new(self.u()? as usize).ok_or_else(|| bad("nz"))?.encode(e, p, s),
                Leaf::NzI8 => NonZeroI8::new(self.i()? as i8).ok_or_else(|| bad("nz"))?.encode(e, p, s),
                Leaf::NzI16 => NonZeroI16::new(self.i()? as i16).ok_or_else(|| bad("nz"))?.encode(e, p, s),
                Leaf::NzI32 => NonZeroI32::new(self.i()? as i32).ok_or_else(|| bad("nz"))?.encode(e, p, s),
                Leaf::NzI64 => NonZeroI64::new(self.i()? as i64).ok_or_else(|| bad("nz"))?.encode(e, p, s),
                Leaf::NzI128 => NonZeroI128::new(self.i()?).ok_or_else(|| bad("nz"))?.encode(e, p, s),
                Leaf::NzIsize => NonZeroIsize::new(self.i()? as isize).ok_or_else(|| bad("nz"))?.encode(e, p, s),
                Leaf::AtBool => enc_atomic!(e, p, s, AtomicBool, self.b()?),
                Leaf::AtI8 => enc_atomic!(e, p, s, AtomicI8, self.i()? as i8),
                Leaf::AtI16 => enc_atomic!(e, p, s, AtomicI16, self.i()? as i16),
                Leaf::AtI32 => enc_atomic!(e, p, s, AtomicI32, self.i()? as i32),
                Leaf::AtI64 => enc_atomic!(e, p, s, AtomicI64, self.i()? as i64),
                Leaf::AtIsize => enc_atomic!(e, p, s, AtomicIsize, self.i()? as isize),
                Leaf::AtU8 => enc_atomic!(e, p, s, AtomicU8, self.u()? as u8),
                Leaf::AtU16 => enc_atomic!(e, p, s, AtomicU16, self.u()? as u16),
                Leaf::AtU32 => enc_atomic!(e, p, s, AtomicU32, self.u()? as u32),
                Leaf::AtU64 => enc_atomic!(e, p, s, AtomicU64, self.u()? as u64),
                Leaf::AtUsize => enc_atomic!(e, p, s, AtomicUsize, self.u()? as usize),
                Leaf::CellU32 => Cell::new(self.u()? as u32).encode(e, p, s),
                Leaf::CellI64 => Cell::new(self.i()? as i64).encode(e, p, s),
                Leaf::CellBool => Cell::new(self.b()?).encode(e, p, s),
                Leaf::CellPair => { let r = self.raw()?; Cell::new((vu(&r[0])? as u8, vi(&r[1])? as i16)).encode(e, p, s) }
                Leaf::UnitStruct => UnitS.encode(e, p, s),
                Leaf::Named => to_named(self)?.encode(e, p, s),
                Leaf::TupleStruct => to_tuples(self)?.encode(e, p, s),
                Leaf::Enum => to_en(self)?.encode(e, p, s),
                Leaf::BigEnum => to_big(self)?.encode(e, p, s),
                Leaf::IStr => if let V::HandleStr(h) = &self.v { h.encode(e, p, s) } else { Err(bad("IStr")) },
                Leaf::IPath => if let V::HandlePath(h) = &self.v { h.encode(e, p, s) } else { Err(bad("IPath")) },
                Leaf::IString => if let V::HandleString(h) = &self.v { h.encode(e, p, s) } else { Err(bad("IString")) },
                #[cfg(feature = "extras")]
                Leaf::BvUsizeLsb0 => to_bv::<usize, bitvec::order::Lsb0>(self.bits()?).encode(e, p, s),
                #[cfg(feature = "extras")]
                Leaf::BvU8Lsb0 => to_bv::<u8, bitvec::order::Lsb0>(self.bits()?).encode(e, p, s),
                #[cfg(feature = "extras")]
                Leaf::BvU8Msb0 => to_bv::<u8, bitvec::order::Msb0>(self.bits()?).encode(e, p, s),
                #[cfg(feature = "extras")]
                Leaf::BvU16Lsb0 => to_bv::<u16, bitvec::order::Lsb0>(self.bits()?).encode(e, p, s),
                #[cfg(feature = "extras")]
                Leaf::BvU32Msb0 => to_bv::<u32, bitvec::order::Msb0>(self.bits()?).encode(e, p, s),
                #[cfg(feature = "extras")]
                Leaf::BvU64Lsb0 => to_bv::<u64, bitvec::order::Lsb0>(self.bits()?).encode(e, p, s),
                #[cfg(not(feature = "extras"))]
                _ => Err(bad("built without feature extras")),
            },
            Ty::Un(u, _) => match u {
                Un::Option => if let V::Opt(o) = &self.v { o.as_deref().cloned().encode(e, p, s) } else { Err(bad("Opt")) },
                Un::Vec => self.seq()?.to_vec().encode(e, p, s),
                Un::VecDeque => self.seq()?.iter().cloned().collect::<VecDeque<Dyn>>().encode(e, p, s),
                Un::LinkedList => self.seq()?.iter().cloned().collect::<LinkedList<Dyn>>().encode(e, p, s),
                Un::BoxSlice => self.seq()?.to_vec().into_boxed_slice().encode(e, p, s),
                Un::RcSlice => Rc::<[Dyn]>::from(self.seq()?.to_vec()).encode(e, p, s),
                Un::ArcSlice => Arc::<[Dyn]>::from(self.seq()?.to_vec()).encode(e, p, s),
                Un::Slice => { let sl: &[Dyn] = self.seq()?; <[Dyn] as Encode>::encode(sl, e, p, s) }
                Un::BTreeSet => self.seq()?.iter().cloned().collect::<BTreeSet<Dyn>>().encode(e, p, s),
                Un::HashSet => self.seq()?.iter().cloned().collect::<HashSet<Dyn>>().encode(e, p, s),
                Un::HashSetFx => self.seq()?.iter().cloned().collect::<HashSet<Dyn, FxBuildHasher>>().encode(e, p, s),
                Un::DashSet => self.seq()?.iter().cloned().collect::<DashSet<Dyn>>().encode(e, p, s),
                Un::Box => Box::new(self.seqn(1)?[0].clone()).encode(e, p, s),
                Un::Rc => Rc::new(self.seqn(1)?[0].clone()).encode(e, p, s),
                Un::Arc => Arc::new(self.seqn(1)?[0].clone()).encode(e, p, s),
                Un::Cow => Cow::<'_, Dyn>::Borrowed(&self.seqn(1)?[0]).encode(e, p, s),
                Un::CowSlice => Cow::<'_, [Dyn]>::Borrowed(self.seq()?).encode(e, p, s),
                Un::Ref => { let r: &Dyn = &self.seqn(1)?[0]; (&r).encode(e, p, s) }
                Un::RefMut => { let mut c = self.seqn(1)?[0].clone(); let r: &mut Dyn = &mut c; (&r).encode(e, p, s) }
                Un::RefCell => RefCell::new(self.seqn(1)?[0].clone()).encode(e, p, s),
                Un::Wrapping => std::num::Wrapping(self.seqn(1)?[0].clone()).encode(e, p, s),
                Un::Reverse => std::cmp::Reverse(self.seqn(1)?[0].clone()).encode(e, p, s),
                Un::Phantom => std::marker::PhantomData::<Dyn>.encode(e, p, s),
                Un::Range => { let k = self.seqn(2)?; (k[0].clone()..k[1].clone()).encode(e, p, s) }
                Un::RangeInclusive => { let k = self.seqn(2)?; (k[0].clone()..=k[1].clone()).encode(e, p, s) }
                Un::RangeFrom => (self.seqn(1)?[0].clone()..).encode(e, p, s),
                Un::RangeTo => (..self.seqn(1)?[0].clone()).encode(e, p, s),
                Un::RangeToInclusive => (..=self.seqn(1)?[0].clone()).encode(e, p, s),
                Un::Bound => if let V::Variant(i, f) = &self.v {
                    match i {
                        0 => std::ops::Bound::<Dyn>::Unbounded.encode(e, p, s),
                        1 => std::ops::Bound::Included(f[0].clone()).encode(e, p, s),
                        _ => std::ops::Bound::Excluded(f[0].clone()).encode(e, p, s),
                    }
                } else { Err(bad("Bound")) },
                Un::Array0 => arr::<0>(self.seq()?)?.encode(e, p, s),
                Un::Array1 => arr::<1>(self.seq()?)?.encode(e, p, s),
                Un::Array2 => arr::<2>(self.seq()?)?.encode(e, p, s),
                Un::Array3 => arr::<3>(self.seq()?)?.encode(e, p, s),
                Un::Array4 => arr::<4>(self.seq()?)?.encode(e, p, s),
                Un::Array33 => arr::<33>(self.seq()?)?.encode(e, p, s),
                Un::Pair => { let k = self.seqn(2)?; (k[0].clone(), k[1].clone()).encode(e, p, s) }
                Un::Triple => { let k = self.seqn(3)?; (k[0].clone(), k[1].clone(), k[2].clone()).encode(e, p, s) }
                Un::Interned => if let V::Handle(h) = &self.v {
                    let idx = sr_open(&SR_ENC);
                    let before = ENC_CALLS.with(|c| c.get());
                    let r = h.encode(e, p, s);
                    sr_close(&SR_ENC, idx, ENC_CALLS.with(|c| c.get()) != before);
                    r
                } else { Err(bad("Handle")) },
                Un::InternedSlice => if let V::HandleSlice(h) = &self.v { h.encode(e, p, s) } else { Err(bad("HandleSlice")) },
                Un::Gs => { let k = self.seqn(2)?; GS { a: k[0].clone(), skipped: 0xDEAD, b: k[1].clone() }.encode(e, p, s) }
                Un::Ge => if let V::Variant(i, f) = &self.v {
                    match i {
                        0 => GE::<Dyn>::U.encode(e, p, s),
                        1 => GE::T1(f[0].clone()).encode(e, p, s),
                        2 => GE::N { x: f[0].clone(), s: JUNK8, y: f[1].clone() }.encode(e, p, s),
                        _ => GE::T2(JUNK8, f[0].clone()).encode(e, p, s),
                    }
                } else { Err(bad("Ge")) },
                Un::GSkip => {
                    let k = self.seqn(1)?;
                    // the skipped field carries a non-default value of the parameter type; only `n` is written
                    GSkipS { t: k[0].clone(), n: 0x5A }.encode(e, p, s)
                }
                #[cfg(feature = "extras")]
                Un::SmallVec2 => self.seq()?.iter().cloned().collect::<smallvec::SmallVec<[Dyn; 2]>>().encode(e, p, s),
                #[cfg(not(feature = "extras"))]
                Un::SmallVec2 => Err(bad("built without feature extras")),
            },
            Ty::Bin(b, _, _) => match b {
                Bin::Result => if let V::Variant(i, f) = &self.v {
                    if *i == 0 { Ok::<Dyn, Dyn>(f[0].clone()).encode(e, p, s) } else { Err::<Dyn, Dyn>(f[0].clone()).encode(e, p, s) }
                } else { Err(bad("Result")) },
                Bin::BTreeMap => self.map()?.iter().cloned().collect::<BTreeMap<Dyn, Dyn>>().encode(e, p, s),
                Bin::HashMap => self.map()?.iter().cloned().collect::<HashMap<Dyn, Dyn>>().encode(e, p, s),
                Bin::HashMapFx => self.map()?.iter().cloned().collect::<HashMap<Dyn, Dyn, FxBuildHasher>>().encode(e, p, s),
                Bin::DashMap => self.map()?.iter().cloned().collect::<DashMap<Dyn, Dyn>>().encode(e, p, s),
                Bin::Gs2 => { let k = self.seqn(2)?; GS2 { t: k[0].clone(), u: k[1].clone(), z: "junk".into() }.encode(e, p, s) }
                Bin::Ge2 => if let V::Variant(i, f) = &self.v {
                    match i {
                        0 => GE2::<Dyn, Dyn>::L(f[0].clone()).encode(e, p, s),
                        1 => GE2::<Dyn, Dyn>::R(f[0].clone()).encode(e, p, s),
                        2 => GE2::<Dyn, Dyn>::B { t: f[0].clone(), u: f[1].clone() }.encode(e, p, s),
                        _ => GE2::<Dyn, Dyn>::Z.encode(e, p, s),
                    }
                } else { Err(bad("Ge2")) },
            },
            Ty::Tup(ts) => {
                let k = self.seqn(ts.len())?;
                macro_rules! tup { ($($i:tt),+) => { ($(k[$i].clone(),)+).encode(e, p, s) }; }
                match ts.len() {
                    1 => tup!(0),
                    2 => tup!(0, 1),
                    3 => tup!(0, 1, 2),
                    4 => tup!(0, 1, 2, 3),
                    5 => tup!(0, 1, 2, 3, 4),
                    6 => tup!(0, 1, 2, 3, 4, 5),
                    7 => tup!(0, 1, 2, 3, 4, 5, 6),
                    8 => tup!(0, 1, 2, 3, 4, 5, 6, 7),
                    9 => tup!(0, 1, 2, 3, 4, 5, 6, 7, 8),
                    10 => tup!(0, 1, 2, 3, 4, 5, 6, 7, 8, 9),
                    11 => tup!(0, 1, 2, 3, 4, 5, 6, 7, 8, 9, 10),
                    12 => tup!(0, 1, 2, 3, 4, 5, 6, 7, 8, 9, 10, 11),
                    n => Err(bad(format!("tuple arity {}", n))),
                }
            }
        }
    }
}
