//! C12 — a dynamically typed value universe over the REAL `Encode`/`Decode`
//! impls of `qbice_serialize` (+ derive, + `Interned`).
//!
//! Rust is statically typed, TLC enumerates type *terms*.  The bridge is
//! [`Dyn`]: a value that carries its type term.  `Dyn::encode` dispatches on
//! the term and calls the REAL generic impl instantiated at `T = Dyn`
//! (`Vec<Dyn>`, `HashMap<Dyn, Dyn>`, `Option<Dyn>`, `(Dyn, Dyn, Dyn)`,
//! `[Dyn; 3]`, `Interned<Dyn>`, derived `GS<Dyn>` …) and the real leaf impls
//! (`u64`, `String`, `NonZeroI16`, `AtomicU32`, …).  `Dyn::decode` learns the
//! expected term from a thread-local frame stack (decode is a static method)
//! and calls the real `Decode` impl of the same instantiation.  The generic
//! source of an impl is the same for every `T`, so nesting to any depth
//! exercises exactly the shipped code.
#![allow(clippy::all)]
#![allow(dead_code)]

use std::{
    borrow::Cow,
    cell::{Cell, RefCell},
    collections::{BTreeMap, BTreeSet, HashMap, HashSet, LinkedList, VecDeque},
    io,
    path::{Path, PathBuf},
    rc::Rc,
    sync::Arc,
};

use dashmap::{DashMap, DashSet};
use fxhash::FxBuildHasher;
use qbice::serialize::{
    Decode, Decoder, Encode, Encoder, Plugin, PostcardDecoder, PostcardEncoder, session::Session,
};
use qbice::stable_hash::{BuildStableHasherDefault, Compact128, Sip128Hasher, StableHash, StableHasher};
use qbice::stable_type_id::{Identifiable, StableTypeID};
use qbice::storage::intern::{Interned, Interner};
use serde_json::{Value as J, json};

macro_rules! named_enum {
    ($name:ident { $($v:ident),* $(,)? }) => {
        #[derive(Clone, Copy, Debug, PartialEq, Eq, Hash, PartialOrd, Ord)]
        pub enum $name { $($v),* }
        impl $name {
            pub const ALL: &'static [$name] = &[$($name::$v),*];
            pub fn name(self) -> &'static str { match self { $($name::$v => stringify!($v)),* } }
            pub fn parse(s: &str) -> Option<Self> { match s { $(stringify!($v) => Some($name::$v),)* _ => None } }
        }
    };
}

named_enum!(Leaf {
    U8, U16, U32, U64, U128, Usize, I8, I16, I32, I64, I128, Isize, Bool, Char, F32, F64, Unit,
    String, BoxStr, RcStr, ArcStr, CowStr, RefStr, PathBuf, BoxPath, RcPath, ArcPath,
    Duration, RangeFull,
    NzU8, NzU16, NzU32, NzU64, NzU128, NzUsize, NzI8, NzI16, NzI32, NzI64, NzI128, NzIsize,
    AtBool, AtI8, AtI16, AtI32, AtI64, AtIsize, AtU8, AtU16, AtU32, AtU64, AtUsize,
    CellU32, CellI64, CellBool, CellPair,
    UnitStruct, Named, TupleStruct, Enum, BigEnum,
    IStr, IPath, IString, IW,
    BvUsizeLsb0, BvU8Lsb0, BvU8Msb0, BvU16Lsb0, BvU32Msb0, BvU64Lsb0,
});

named_enum!(Un {
    Option, Vec, VecDeque, LinkedList, BoxSlice, RcSlice, ArcSlice, Slice,
    BTreeSet, HashSet, HashSetFx, DashSet,
    Box, Rc, Arc, Cow, CowSlice, Ref, RefMut, RefCell, Wrapping, Reverse, Phantom,
    Range, RangeInclusive, RangeFrom, RangeTo, RangeToInclusive, Bound,
    Array0, Array1, Array2, Array3, Array4, Array33, Pair, Triple,
    Interned, InternedSlice, Gs, Ge, GSkip, SmallVec2,
});

named_enum!(Bin { Result, BTreeMap, HashMap, HashMapFx, DashMap, Gs2, Ge2 });

pub const EXTRAS: bool = cfg!(feature = "extras");

impl Leaf {
    pub fn is_extra(self) -> bool {
        matches!(self, Leaf::BvUsizeLsb0 | Leaf::BvU8Lsb0 | Leaf::BvU8Msb0 | Leaf::BvU16Lsb0 | Leaf::BvU32Msb0 | Leaf::BvU64Lsb0)
    }
}
impl Un {
    pub fn is_extra(self) -> bool { matches!(self, Un::SmallVec2) }
}

/// A type term.
#[derive(Clone, Debug, PartialEq, Eq, Hash, PartialOrd, Ord)]
pub enum Ty {
    Leaf(Leaf),
    Un(Un, Arc<Ty>),
    Bin(Bin, Arc<Ty>, Arc<Ty>),
    /// tuples of arity 1..=12
    Tup(Vec<Arc<Ty>>),
}

impl Ty {
    pub fn show(&self) -> String {
        match self {
            Ty::Leaf(l) => l.name().to_string(),
            Ty::Un(u, a) => format!("{}<{}>", u.name(), a.show()),
            Ty::Bin(b, x, y) => format!("{}<{},{}>", b.name(), x.show(), y.show()),
            Ty::Tup(v) => format!("({})", v.iter().map(|t| t.show()).collect::<Vec<_>>().join(",")),
        }
    }
}

/// Value representation (normalised: unordered collections are sorted, floats
/// are bit patterns, skipped fields are not represented).
#[derive(Clone, Debug, PartialEq, Eq, Hash, PartialOrd, Ord)]
pub enum V {
    Unit,
    Bool(bool),
    U(u128),
    I(i128),
    Char(char),
    F32(u32),
    F64(u64),
    Str(String),
    Dur(u64, u32),
    Bits(Vec<bool>),
    /// leaf composites (derived structs): untyped field list
    Raw(Vec<V>),
    /// leaf enums: variant index + fields
    RawVariant(u32, Vec<V>),
    /// typed children in order (sequences, tuples, arrays, struct fields)
    Seq(Vec<Dyn>),
    /// sets: sorted, deduplicated
    Set(Vec<Dyn>),
    /// maps: sorted by key
    Map(Vec<(Dyn, Dyn)>),
    Opt(Option<Box<Dyn>>),
    /// Result / Bound / generic derived enums
    Variant(u32, Vec<Dyn>),
    Handle(Interned<Dyn>),
    HandleSlice(Interned<[Dyn]>),
    HandleStr(Interned<str>),
    HandlePath(Interned<Path>),
    HandleString(Interned<String>),
    /// `Interned<W>`: a derived new-type of `String` (hashes like `String` and like `str`)
    HandleW(Interned<W>),
    /// produced by the decode side when a non-representable condition is seen
    /// (e.g. a skipped field that is not `Default`): never equal to an input
    Bad(String),
}

#[derive(Clone, Debug, PartialEq, Eq, Hash, PartialOrd, Ord)]
pub struct Dyn {
    pub ty: Arc<Ty>,
    pub v: V,
}

impl Default for Dyn {
    fn default() -> Self { Dyn { ty: Arc::new(Ty::Leaf(Leaf::Unit)), v: V::Unit } }
}

impl Identifiable for Dyn {
    const STABLE_TYPE_ID: StableTypeID = StableTypeID::from_unique_type_name("vh::codec::Dyn@C12");
}

impl StableHash for Dyn {
    fn stable_hash<H: StableHasher + ?Sized>(&self, state: &mut H) {
        // canonical: V is normalised, Debug prints the whole tree incl. handles' contents
        format!("{:?}", self).stable_hash(state);
    }
}

// ---------------------------------------------------------------------------
// derived types (the derive macros under test)
// ---------------------------------------------------------------------------

#[derive(qbice::Encode, qbice::Decode, Debug, Clone, PartialEq)]
pub struct UnitS;

/// A new-type of `String`, everything derived.  Its derived `StableHash` hashes
/// the single field, so `W(s)`, `s: String` and `*s: str` have the SAME 128-bit
/// content hash under three different `STABLE_TYPE_ID`s (checked on the real
/// hasher by `hash_collisions`): interned handles of these types must never
/// share an entry of the encode session's `seen` set.
#[derive(qbice::StableHash, qbice::Identifiable, qbice::Encode, qbice::Decode, Debug, Clone, PartialEq, Eq, PartialOrd, Ord, Hash)]
pub struct W(pub String);

#[derive(qbice::Encode, qbice::Decode, Debug, Clone, PartialEq)]
pub struct NamedS {
    pub x: i32,
    #[serialize(skip)]
    pub cache: Vec<u8>,
    pub y: u64,
    pub name: String,
    #[serialize(skip)]
    pub tail: Option<String>,
}

#[derive(qbice::Encode, qbice::Decode, Debug, Clone, PartialEq)]
pub struct TupleS(pub u16, #[serialize(skip)] pub u64, pub String, pub i8);

#[derive(qbice::Encode, qbice::Decode, Debug, Clone, PartialEq)]
pub enum En {
    A,
    B(u32, String),
    C {
        x: i64,
        #[serialize(skip)]
        s: String,
        y: bool,
    },
    D(#[serialize(skip)] u8, i16),
    E {
        #[serialize(skip)]
        only: u8,
    },
}

macro_rules! big_enum {
    ($($u:ident = $i:expr),*) => {
        #[derive(qbice::Encode, qbice::Decode, Debug, Clone, PartialEq)]
        pub enum Big {
            $($u,)*
            T128(u32),
            N129 { a: String },
            U130,
            T131(u8, #[serialize(skip)] u8, i64),
        }
        impl Big {
            pub fn unit_from_idx(i: u32) -> Option<Big> { match i { $($i => Some(Big::$u),)* 130 => Some(Big::U130), _ => None } }
            pub fn idx(&self) -> u32 {
                match self { $(Big::$u => $i,)* Big::T128(..) => 128, Big::N129 { .. } => 129, Big::U130 => 130, Big::T131(..) => 131 }
            }
        }
    };
}
big_enum!(V0=0, V1=1, V2=2, V3=3, V4=4, V5=5, V6=6, V7=7, V8=8, V9=9, V10=10, V11=11, V12=12, V13=13, V14=14, V15=15, V16=16, V17=17, V18=18, V19=19, V20=20, V21=21, V22=22, V23=23, V24=24, V25=25, V26=26, V27=27, V28=28, V29=29, V30=30, V31=31, V32=32, V33=33, V34=34, V35=35, V36=36, V37=37, V38=38, V39=39, V40=40, V41=41, V42=42, V43=43, V44=44, V45=45, V46=46, V47=47, V48=48, V49=49, V50=50, V51=51, V52=52, V53=53, V54=54, V55=55, V56=56, V57=57, V58=58, V59=59, V60=60, V61=61, V62=62, V63=63, V64=64, V65=65, V66=66, V67=67, V68=68, V69=69, V70=70, V71=71, V72=72, V73=73, V74=74, V75=75, V76=76, V77=77, V78=78, V79=79, V80=80, V81=81, V82=82, V83=83, V84=84, V85=85, V86=86, V87=87, V88=88, V89=89, V90=90, V91=91, V92=92, V93=93, V94=94, V95=95, V96=96, V97=97, V98=98, V99=99, V100=100, V101=101, V102=102, V103=103, V104=104, V105=105, V106=106, V107=107, V108=108, V109=109, V110=110, V111=111, V112=112, V113=113, V114=114, V115=115, V116=116, V117=117, V118=118, V119=119, V120=120, V121=121, V122=122, V123=123, V124=124, V125=125, V126=126, V127=127);

#[derive(qbice::Encode, qbice::Decode, Debug, Clone, PartialEq)]
pub struct GS<T> {
    pub a: T,
    #[serialize(skip)]
    pub skipped: u32,
    pub b: T,
}

#[derive(qbice::Encode, qbice::Decode, Debug, Clone, PartialEq)]
pub enum GE<T> {
    U,
    T1(T),
    N {
        x: T,
        #[serialize(skip)]
        s: u8,
        y: T,
    },
    T2(#[serialize(skip)] u8, T),
}

#[derive(qbice::Encode, qbice::Decode, Debug, Clone, PartialEq)]
pub struct GSkipS<T: Default> {
    #[serialize(skip)]
    pub t: T,
    pub n: u8,
}

#[derive(qbice::Encode, qbice::Decode, Debug, Clone, PartialEq)]
pub struct GS2<T, U> {
    pub t: T,
    pub u: U,
    #[serialize(skip)]
    pub z: String,
}

#[derive(qbice::Encode, qbice::Decode, Debug, Clone, PartialEq)]
pub enum GE2<T, U> {
    L(T),
    R(U),
    B { t: T, u: U },
    Z,
}

// ---------------------------------------------------------------------------
// thread-local decode frames and M-layer observation counters
// ---------------------------------------------------------------------------

struct Frame {
    tys: Vec<Arc<Ty>>,
    i: usize,
}

thread_local! {
    static CTX: RefCell<Vec<Frame>> = const { RefCell::new(Vec::new()) };
    static ENC_CALLS: Cell<u64> = const { Cell::new(0) };
    static DEC_CALLS: Cell<u64> = const { Cell::new(0) };
    static SR_ENC: RefCell<Vec<u8>> = const { RefCell::new(Vec::new()) };
    static SR_DEC: RefCell<Vec<u8>> = const { RefCell::new(Vec::new()) };
    /// the World's byte buffer and read position (the codecs are unbuffered): lets the
    /// harness see the tag byte (0 = inline, 1 = reference) a leaf handle wrote / read
    static IO: RefCell<Option<(Rc<RefCell<Vec<u8>>>, Rc<Cell<usize>>)>> = const { RefCell::new(None) };
    /// handle occurrences of the top-level value being encoded, in encode (= decode) order:
    /// (type tag, content hash by the interner's real hasher)
    static ENC_OCC: RefCell<Vec<(u8, Compact128)>> = const { RefCell::new(Vec::new()) };
}

pub const OCC_TYPES: [&str; 6] = ["Dyn", "[Dyn]", "str", "Path", "String", "W"];
fn occ_push<T: StableHash + ?Sized>(p: &Plugin, tag: u8, v: &T) {
    if let Some(i) = p.get::<Interner>() { let h = i.hash_128(v); ENC_OCC.with(|c| c.borrow_mut().push((tag, h))); }
}
pub fn take_enc_occ() -> Vec<(u8, Compact128)> { ENC_OCC.with(|c| std::mem::take(&mut *c.borrow_mut())) }

fn io_wlen() -> Option<usize> { IO.with(|c| c.borrow().as_ref().map(|(b, _)| b.borrow().len())) }
fn io_rpos() -> Option<usize> { IO.with(|c| c.borrow().as_ref().map(|(_, r)| r.get())) }
fn io_byte(i: usize) -> Option<u8> { IO.with(|c| c.borrow().as_ref().and_then(|(b, _)| b.borrow().get(i).copied())) }
/// log S/R of a leaf handle (`Interned<str|String|W|Path|[T]>`) from the tag byte at `at`
fn sr_leaf(log: &'static std::thread::LocalKey<RefCell<Vec<u8>>>, idx: usize, at: Option<usize>) {
    let c = match at.and_then(io_byte) { Some(0) => b'S', Some(1) => b'R', _ => b'?' };
    log.with(|l| { if let Some(x) = l.borrow_mut().get_mut(idx) { *x = c; } });
}

pub fn reset_tls() {
    CTX.with(|c| c.borrow_mut().clear());
    SR_ENC.with(|c| c.borrow_mut().clear());
    SR_DEC.with(|c| c.borrow_mut().clear());
    ENC_OCC.with(|c| c.borrow_mut().clear());
}

pub fn take_sr_enc() -> String { SR_ENC.with(|c| String::from_utf8(std::mem::take(&mut *c.borrow_mut())).unwrap()) }
pub fn take_sr_dec() -> String { SR_DEC.with(|c| String::from_utf8(std::mem::take(&mut *c.borrow_mut())).unwrap()) }

struct FrameGuard;
impl Drop for FrameGuard {
    fn drop(&mut self) { CTX.with(|c| { c.borrow_mut().pop(); }); }
}

/// Run `f` with the expected child types `tys` (taken cyclically by the
/// `Dyn::decode` calls made by the real container impl).
pub fn with_frame<R>(tys: Vec<Arc<Ty>>, f: impl FnOnce() -> R) -> R {
    CTX.with(|c| c.borrow_mut().push(Frame { tys, i: 0 }));
    let _g = FrameGuard;
    f()
}

fn next_ty() -> io::Result<Arc<Ty>> {
    CTX.with(|c| {
        let mut c = c.borrow_mut();
        let f = c.last_mut().ok_or_else(|| io::Error::new(io::ErrorKind::Other, "harness: Dyn::decode without frame"))?;
        if f.tys.is_empty() {
            return Err(io::Error::new(io::ErrorKind::Other, "harness: empty frame"));
        }
        let t = f.tys[f.i % f.tys.len()].clone();
        f.i += 1;
        Ok(t)
    })
}

fn sr_open(log: &'static std::thread::LocalKey<RefCell<Vec<u8>>>) -> usize {
    log.with(|l| { let mut l = l.borrow_mut(); l.push(b'?'); l.len() - 1 })
}
fn sr_close(log: &'static std::thread::LocalKey<RefCell<Vec<u8>>>, idx: usize, src: bool) {
    log.with(|l| { if let Some(x) = l.borrow_mut().get_mut(idx) { *x = if src { b'S' } else { b'R' }; } });
}

fn bad(msg: impl Into<String>) -> io::Error { io::Error::new(io::ErrorKind::Other, format!("harness: {}", msg.into())) }

// ---------------------------------------------------------------------------
// Encode: dispatch to the real impls
// ---------------------------------------------------------------------------

impl Dyn {
    pub fn new(ty: &Arc<Ty>, v: V) -> Dyn { Dyn { ty: ty.clone(), v } }
    fn u(&self) -> io::Result<u128> { if let V::U(x) = &self.v { Ok(*x) } else { Err(bad(format!("expected U in {:?}", self.ty))) } }
    fn i(&self) -> io::Result<i128> { if let V::I(x) = &self.v { Ok(*x) } else { Err(bad(format!("expected I in {:?}", self.ty))) } }
    fn b(&self) -> io::Result<bool> { if let V::Bool(x) = &self.v { Ok(*x) } else { Err(bad("expected Bool")) } }
    fn s(&self) -> io::Result<&str> { if let V::Str(x) = &self.v { Ok(x) } else { Err(bad("expected Str")) } }
    fn seq(&self) -> io::Result<&[Dyn]> {
        match &self.v { V::Seq(x) | V::Set(x) => Ok(x), _ => Err(bad(format!("expected Seq in {}", self.ty.show()))) }
    }
    fn seqn(&self, n: usize) -> io::Result<&[Dyn]> {
        let s = self.seq()?;
        if s.len() == n { Ok(s) } else { Err(bad(format!("expected {} children, got {} in {}", n, s.len(), self.ty.show()))) }
    }
    fn map(&self) -> io::Result<&[(Dyn, Dyn)]> { if let V::Map(x) = &self.v { Ok(x) } else { Err(bad("expected Map")) } }
    fn raw(&self) -> io::Result<&[V]> { if let V::Raw(x) = &self.v { Ok(x) } else { Err(bad("expected Raw")) } }
    fn bits(&self) -> io::Result<&[bool]> { if let V::Bits(x) = &self.v { Ok(x) } else { Err(bad("expected Bits")) } }
}

fn vu(v: &V) -> io::Result<u128> { if let V::U(x) = v { Ok(*x) } else { Err(bad("raw: expected U")) } }
fn vi(v: &V) -> io::Result<i128> { if let V::I(x) = v { Ok(*x) } else { Err(bad("raw: expected I")) } }
fn vs(v: &V) -> io::Result<String> { if let V::Str(x) = v { Ok(x.clone()) } else { Err(bad("raw: expected Str")) } }
fn vb(v: &V) -> io::Result<bool> { if let V::Bool(x) = v { Ok(*x) } else { Err(bad("raw: expected Bool")) } }

/// junk put into skipped fields of values to be encoded (must not survive)
const JUNK8: u8 = 0xA5;

fn to_named(d: &Dyn) -> io::Result<NamedS> {
    let r = d.raw()?;
    Ok(NamedS { x: vi(&r[0])? as i32, cache: vec![JUNK8, 1, 2], y: vu(&r[1])? as u64, name: vs(&r[2])?, tail: Some("junk".into()) })
}
fn from_named(n: NamedS) -> V {
    if !n.cache.is_empty() || n.tail.is_some() { return V::Bad("NamedS: skipped field not Default after decode".into()); }
    V::Raw(vec![V::I(n.x as i128), V::U(n.y as u128), V::Str(n.name)])
}
fn to_tuples(d: &Dyn) -> io::Result<TupleS> {
    let r = d.raw()?;
    Ok(TupleS(vu(&r[0])? as u16, 0xDEAD_BEEF, vs(&r[1])?, vi(&r[2])? as i8))
}
fn from_tuples(t: TupleS) -> V {
    if t.1 != 0 { return V::Bad("TupleS: skipped field not Default".into()); }
    V::Raw(vec![V::U(t.0 as u128), V::Str(t.2), V::I(t.3 as i128)])
}
fn to_en(d: &Dyn) -> io::Result<En> {
    if let V::RawVariant(i, f) = &d.v {
        Ok(match i {
            0 => En::A,
            1 => En::B(vu(&f[0])? as u32, vs(&f[1])?),
            2 => En::C { x: vi(&f[0])? as i64, s: "junk".into(), y: vb(&f[1])? },
            3 => En::D(JUNK8, vi(&f[0])? as i16),
            4 => En::E { only: JUNK8 },
            _ => return Err(bad("En idx")),
        })
    } else { Err(bad("expected RawVariant")) }
}
fn from_en(e: En) -> V {
    match e {
        En::A => V::RawVariant(0, vec![]),
        En::B(a, b) => V::RawVariant(1, vec![V::U(a as u128), V::Str(b)]),
        En::C { x, s, y } => if s.is_empty() { V::RawVariant(2, vec![V::I(x as i128), V::Bool(y)]) } else { V::Bad("En::C skip".into()) },
        En::D(k, v) => if k == 0 { V::RawVariant(3, vec![V::I(v as i128)]) } else { V::Bad("En::D skip".into()) },
        En::E { only } => if only == 0 { V::RawVariant(4, vec![]) } else { V::Bad("En::E skip".into()) },
    }
}
fn to_big(d: &Dyn) -> io::Result<Big> {
    if let V::RawVariant(i, f) = &d.v {
        Ok(match i {
            128 => Big::T128(vu(&f[0])? as u32),
            129 => Big::N129 { a: vs(&f[0])? },
            131 => Big::T131(vu(&f[0])? as u8, JUNK8, vi(&f[1])? as i64),
            i => Big::unit_from_idx(*i).ok_or_else(|| bad("Big idx"))?,
        })
    } else { Err(bad("expected RawVariant")) }
}
fn from_big(b: Big) -> V {
    let i = b.idx();
    match b {
        Big::T128(x) => V::RawVariant(i, vec![V::U(x as u128)]),
        Big::N129 { a } => V::RawVariant(i, vec![V::Str(a)]),
        Big::T131(x, k, y) => if k == 0 { V::RawVariant(i, vec![V::U(x as u128), V::I(y as i128)]) } else { V::Bad("Big::T131 skip".into()) },
        _ => V::RawVariant(i, vec![]),
    }
}

#[cfg(feature = "extras")]
fn to_bv<T: bitvec::store::BitStore, O: bitvec::order::BitOrder>(bits: &[bool]) -> bitvec::vec::BitVec<T, O> {
    let mut bv = bitvec::vec::BitVec::<T, O>::new();
    for b in bits { bv.push(*b); }
    bv
}
#[cfg(feature = "extras")]
fn from_bv<T: bitvec::store::BitStore, O: bitvec::order::BitOrder>(bv: bitvec::vec::BitVec<T, O>) -> V {
    V::Bits(bv.iter().map(|b| *b).collect())
}

macro_rules! enc_atomic {
    ($e:expr, $p:expr, $s:expr, $at:ty, $val:expr) => { <$at>::new($val).encode($e, $p, $s) };
}

fn arr<const N: usize>(s: &[Dyn]) -> io::Result<[Dyn; N]> {
    let v: Vec<Dyn> = s.to_vec();
    <[Dyn; N]>::try_from(v).map_err(|_| bad(format!("array arity {}", N)))
}

impl Encode for Dyn {
    fn encode<E: Encoder + ?Sized>(&self, e: &mut E, p: &Plugin, s: &mut Session) -> io::Result<()> {
        ENC_CALLS.with(|c| c.set(c.get() + 1));
        if let V::Bad(m) = &self.v { return Err(bad(format!("encode of a value that must not be encoded: {}", m))); }
        use std::num::*;
        use std::sync::atomic::*;
        match &*self.ty {
            Ty::Leaf(l) => match l {
                Leaf::U8 => (self.u()? as u8).encode(e, p, s),
                Leaf::U16 => (self.u()? as u16).encode(e, p, s),
                Leaf::U32 => (self.u()? as u32).encode(e, p, s),
                Leaf::U64 => (self.u()? as u64).encode(e, p, s),
                Leaf::U128 => self.u()?.encode(e, p, s),
                Leaf::Usize => (self.u()? as usize).encode(e, p, s),
                Leaf::I8 => (self.i()? as i8).encode(e, p, s),
                Leaf::I16 => (self.i()? as i16).encode(e, p, s),
                Leaf::I32 => (self.i()? as i32).encode(e, p, s),
                Leaf::I64 => (self.i()? as i64).encode(e, p, s),
                Leaf::I128 => self.i()?.encode(e, p, s),
                Leaf::Isize => (self.i()? as isize).encode(e, p, s),
                Leaf::Bool => self.b()?.encode(e, p, s),
                Leaf::Char => if let V::Char(c) = self.v { c.encode(e, p, s) } else { Err(bad("Char")) },
                Leaf::F32 => if let V::F32(b) = self.v { f32::from_bits(b).encode(e, p, s) } else { Err(bad("F32")) },
                Leaf::F64 => if let V::F64(b) = self.v { f64::from_bits(b).encode(e, p, s) } else { Err(bad("F64")) },
                Leaf::Unit => ().encode(e, p, s),
                Leaf::String => self.s()?.to_string().encode(e, p, s),
                Leaf::BoxStr => Box::<str>::from(self.s()?).encode(e, p, s),
                Leaf::RcStr => Rc::<str>::from(self.s()?).encode(e, p, s),
                Leaf::ArcStr => Arc::<str>::from(self.s()?).encode(e, p, s),
                Leaf::CowStr => Cow::<'_, str>::Borrowed(self.s()?).encode(e, p, s),
                Leaf::RefStr => { let r: &str = self.s()?; (&r).encode(e, p, s) }
                Leaf::PathBuf => PathBuf::from(self.s()?).encode(e, p, s),
                Leaf::BoxPath => Box::<Path>::from(Path::new(self.s()?)).encode(e, p, s),
                Leaf::RcPath => Rc::<Path>::from(Path::new(self.s()?)).encode(e, p, s),
                Leaf::ArcPath => Arc::<Path>::from(Path::new(self.s()?)).encode(e, p, s),
                Leaf::Duration => if let V::Dur(a, b) = self.v { std::time::Duration::new(a, b).encode(e, p, s) } else { Err(bad("Dur")) },
                Leaf::RangeFull => (..).encode(e, p, s),
                Leaf::NzU8 => NonZeroU8::new(self.u()? as u8).ok_or_else(|| bad("nz"))?.encode(e, p, s),
                Leaf::NzU16 => NonZeroU16::new(self.u()? as u16).ok_or_else(|| bad("nz"))?.encode(e, p, s),
                Leaf::NzU32 => NonZeroU32::new(self.u()? as u32).ok_or_else(|| bad("nz"))?.encode(e, p, s),
                Leaf::NzU64 => NonZeroU64::new(self.u()? as u64).ok_or_else(|| bad("nz"))?.encode(e, p, s),
                Leaf::NzU128 => NonZeroU128::new(self.u()?).ok_or_else(|| bad("nz"))?.encode(e, p, s),
                Leaf::NzUsize => NonZeroUsize::new(self.u()? as usize).ok_or_else(|| bad("nz"))?.encode(e, p, s),
                Leaf::NzI8 => NonZeroI8::new(self.i()? as i8).ok_or_else(|| bad("nz"))?.encode(e, p, s),
                Leaf::NzI16 => NonZeroI16::new(self.i()? as i16).ok_or_else(|| bad("nz"))?.encode(e, p, s),
                Leaf::NzI32 => NonZeroI32::new(self.i()? as i32).ok_or_else(|| bad("nz"))?.encode(e, p, s),
                Leaf::NzI64 => NonZeroI64::new(self.i()? as i64).ok_or_else(|| bad("nz"))?.encode(e, p, s),
                Leaf::NzI128 => NonZeroI128::new(self.i()?).ok_or_else(|| bad("nz"))?.encode(e, p, s),
                Leaf::NzIsize => NonZeroIsize::new(self.i()? as isize).ok_or_else(|| bad("nz"))?.encode(e, p, s),
                Leaf::AtBool => enc_atomic!(e, p, s, AtomicBool, self.b()?),
                Leaf::AtI8 => enc_atomic!(e, p, s, AtomicI8, self.i()? as i8),
                Leaf::AtI16 => enc_atomic!(e, p, s, AtomicI16, self.i()? as i16),
                Leaf::AtI32 => enc_atomic!(e, p, s, AtomicI32, self.i()? as i32),
                Leaf::AtI64 => enc_atomic!(e, p, s, AtomicI64, self.i()? as i64),
                Leaf::AtIsize => enc_atomic!(e, p, s, AtomicIsize, self.i()? as isize),
                Leaf::AtU8 => enc_atomic!(e, p, s, AtomicU8, self.u()? as u8),
                Leaf::AtU16 => enc_atomic!(e, p, s, AtomicU16, self.u()? as u16),
                Leaf::AtU32 => enc_atomic!(e, p, s, AtomicU32, self.u()? as u32),
                Leaf::AtU64 => enc_atomic!(e, p, s, AtomicU64, self.u()? as u64),
                Leaf::AtUsize => enc_atomic!(e, p, s, AtomicUsize, self.u()? as usize),
                Leaf::CellU32 => Cell::new(self.u()? as u32).encode(e, p, s),
                Leaf::CellI64 => Cell::new(self.i()? as i64).encode(e, p, s),
                Leaf::CellBool => Cell::new(self.b()?).encode(e, p, s),
                Leaf::CellPair => { let r = self.raw()?; Cell::new((vu(&r[0])? as u8, vi(&r[1])? as i16)).encode(e, p, s) }
                Leaf::UnitStruct => UnitS.encode(e, p, s),
                Leaf::Named => to_named(self)?.encode(e, p, s),
                Leaf::TupleStruct => to_tuples(self)?.encode(e, p, s),
                Leaf::Enum => to_en(self)?.encode(e, p, s),
                Leaf::BigEnum => to_big(self)?.encode(e, p, s),
                Leaf::IStr | Leaf::IPath | Leaf::IString | Leaf::IW => {
                    let idx = sr_open(&SR_ENC);
                    let at = io_wlen();
                    let r = match (l, &self.v) {
                        (Leaf::IStr, V::HandleStr(h)) => { occ_push::<str>(p, 2, h); h.encode(e, p, s) }
                        (Leaf::IPath, V::HandlePath(h)) => { occ_push::<Path>(p, 3, h); h.encode(e, p, s) }
                        (Leaf::IString, V::HandleString(h)) => { occ_push::<String>(p, 4, h); h.encode(e, p, s) }
                        (Leaf::IW, V::HandleW(h)) => { occ_push::<W>(p, 5, h); h.encode(e, p, s) }
                        _ => Err(bad(format!("handle leaf {}", l.name()))),
                    };
                    sr_leaf(&SR_ENC, idx, at);
                    r
                }
                #[cfg(feature = "extras")]
                Leaf::BvUsizeLsb0 => to_bv::<usize, bitvec::order::Lsb0>(self.bits()?).encode(e, p, s),
                #[cfg(feature = "extras")]
                Leaf::BvU8Lsb0 => to_bv::<u8, bitvec::order::Lsb0>(self.bits()?).encode(e, p, s),
                #[cfg(feature = "extras")]
                Leaf::BvU8Msb0 => to_bv::<u8, bitvec::order::Msb0>(self.bits()?).encode(e, p, s),
                #[cfg(feature = "extras")]
                Leaf::BvU16Lsb0 => to_bv::<u16, bitvec::order::Lsb0>(self.bits()?).encode(e, p, s),
                #[cfg(feature = "extras")]
                Leaf::BvU32Msb0 => to_bv::<u32, bitvec::order::Msb0>(self.bits()?).encode(e, p, s),
                #[cfg(feature = "extras")]
                Leaf::BvU64Lsb0 => to_bv::<u64, bitvec::order::Lsb0>(self.bits()?).encode(e, p, s),
                #[cfg(not(feature = "extras"))]
                _ => Err(bad("built without feature extras")),
            },
            Ty::Un(u, _) => match u {
                Un::Option => if let V::Opt(o) = &self.v { o.as_deref().cloned().encode(e, p, s) } else { Err(bad("Opt")) },
                Un::Vec => lay_vec(self.seq()?).encode(e, p, s),
                Un::VecDeque => lay_deque(self.seq()?).encode(e, p, s),
                Un::LinkedList => lay_list(self.seq()?).encode(e, p, s),
                Un::BoxSlice => self.seq()?.to_vec().into_boxed_slice().encode(e, p, s),
                Un::RcSlice => Rc::<[Dyn]>::from(self.seq()?.to_vec()).encode(e, p, s),
                Un::ArcSlice => Arc::<[Dyn]>::from(self.seq()?.to_vec()).encode(e, p, s),
                Un::Slice => { let sl: &[Dyn] = self.seq()?; <[Dyn] as Encode>::encode(sl, e, p, s) }
                Un::BTreeSet => lay_order(self.seq()?).into_iter().collect::<BTreeSet<Dyn>>().encode(e, p, s),
                Un::HashSet => lay_hashset::<std::collections::hash_map::RandomState>(self.seq()?).encode(e, p, s),
                Un::HashSetFx => lay_hashset::<FxBuildHasher>(self.seq()?).encode(e, p, s),
                Un::DashSet => self.seq()?.iter().cloned().collect::<DashSet<Dyn>>().encode(e, p, s),
                Un::Box => Box::new(self.seqn(1)?[0].clone()).encode(e, p, s),
                Un::Rc => Rc::new(self.seqn(1)?[0].clone()).encode(e, p, s),
                Un::Arc => Arc::new(self.seqn(1)?[0].clone()).encode(e, p, s),
                Un::Cow => Cow::<'_, Dyn>::Borrowed(&self.seqn(1)?[0]).encode(e, p, s),
                Un::CowSlice => Cow::<'_, [Dyn]>::Borrowed(self.seq()?).encode(e, p, s),
                Un::Ref => { let r: &Dyn = &self.seqn(1)?[0]; (&r).encode(e, p, s) }
                Un::RefMut => { let mut c = self.seqn(1)?[0].clone(); let r: &mut Dyn = &mut c; (&r).encode(e, p, s) }
                Un::RefCell => RefCell::new(self.seqn(1)?[0].clone()).encode(e, p, s),
                Un::Wrapping => std::num::Wrapping(self.seqn(1)?[0].clone()).encode(e, p, s),
                Un::Reverse => std::cmp::Reverse(self.seqn(1)?[0].clone()).encode(e, p, s),
                Un::Phantom => std::marker::PhantomData::<Dyn>.encode(e, p, s),
                Un::Range => { let k = self.seqn(2)?; (k[0].clone()..k[1].clone()).encode(e, p, s) }
                Un::RangeInclusive => { let k = self.seqn(2)?; (k[0].clone()..=k[1].clone()).encode(e, p, s) }
                Un::RangeFrom => (self.seqn(1)?[0].clone()..).encode(e, p, s),
                Un::RangeTo => (..self.seqn(1)?[0].clone()).encode(e, p, s),
                Un::RangeToInclusive => (..=self.seqn(1)?[0].clone()).encode(e, p, s),
                Un::Bound => if let V::Variant(i, f) = &self.v {
                    match i {
                        0 => std::ops::Bound::<Dyn>::Unbounded.encode(e, p, s),
                        1 => std::ops::Bound::Included(f[0].clone()).encode(e, p, s),
                        _ => std::ops::Bound::Excluded(f[0].clone()).encode(e, p, s),
                    }
                } else { Err(bad("Bound")) },
                Un::Array0 => arr::<0>(self.seq()?)?.encode(e, p, s),
                Un::Array1 => arr::<1>(self.seq()?)?.encode(e, p, s),
                Un::Array2 => arr::<2>(self.seq()?)?.encode(e, p, s),
                Un::Array3 => arr::<3>(self.seq()?)?.encode(e, p, s),
                Un::Array4 => arr::<4>(self.seq()?)?.encode(e, p, s),
                Un::Array33 => arr::<33>(self.seq()?)?.encode(e, p, s),
                Un::Pair => { let k = self.seqn(2)?; (k[0].clone(), k[1].clone()).encode(e, p, s) }
                Un::Triple => { let k = self.seqn(3)?; (k[0].clone(), k[1].clone(), k[2].clone()).encode(e, p, s) }
                Un::Interned => if let V::Handle(h) = &self.v {
                    let idx = sr_open(&SR_ENC);
                    occ_push::<Dyn>(p, 0, h);
                    let before = ENC_CALLS.with(|c| c.get());
                    let r = h.encode(e, p, s);
                    sr_close(&SR_ENC, idx, ENC_CALLS.with(|c| c.get()) != before);
                    r
                } else { Err(bad("Handle")) },
                Un::InternedSlice => if let V::HandleSlice(h) = &self.v {
                    let idx = sr_open(&SR_ENC);
                    occ_push::<[Dyn]>(p, 1, h);
                    let at = io_wlen();
                    let r = h.encode(e, p, s);
                    sr_leaf(&SR_ENC, idx, at);
                    r
                } else { Err(bad("HandleSlice")) },
                Un::Gs => { let k = self.seqn(2)?; GS { a: k[0].clone(), skipped: 0xDEAD, b: k[1].clone() }.encode(e, p, s) }
                Un::Ge => if let V::Variant(i, f) = &self.v {
                    match i {
                        0 => GE::<Dyn>::U.encode(e, p, s),
                        1 => GE::T1(f[0].clone()).encode(e, p, s),
                        2 => GE::N { x: f[0].clone(), s: JUNK8, y: f[1].clone() }.encode(e, p, s),
                        _ => GE::T2(JUNK8, f[0].clone()).encode(e, p, s),
                    }
                } else { Err(bad("Ge")) },
                Un::GSkip => {
                    // the skipped field carries a non-default value of the parameter type (it would fail to
                    // encode if the derive wrote it); only `n` is written
                    let junk = Dyn { ty: self.ty.clone(), v: V::Bad("skipped field must not be encoded".into()) };
                    GSkipS { t: junk, n: 0x5A }.encode(e, p, s)
                }
                #[cfg(feature = "extras")]
                Un::SmallVec2 => self.seq()?.iter().cloned().collect::<smallvec::SmallVec<[Dyn; 2]>>().encode(e, p, s),
                #[cfg(not(feature = "extras"))]
                Un::SmallVec2 => Err(bad("built without feature extras")),
            },
            Ty::Bin(b, _, _) => match b {
                Bin::Result => if let V::Variant(i, f) = &self.v {
                    if *i == 0 { Ok::<Dyn, Dyn>(f[0].clone()).encode(e, p, s) } else { Err::<Dyn, Dyn>(f[0].clone()).encode(e, p, s) }
                } else { Err(bad("Result")) },
                Bin::BTreeMap => self.map()?.iter().cloned().collect::<BTreeMap<Dyn, Dyn>>().encode(e, p, s),
                Bin::HashMap => lay_hashmap::<std::collections::hash_map::RandomState>(self.map()?).encode(e, p, s),
                Bin::HashMapFx => lay_hashmap::<FxBuildHasher>(self.map()?).encode(e, p, s),
                Bin::DashMap => self.map()?.iter().cloned().collect::<DashMap<Dyn, Dyn>>().encode(e, p, s),
                Bin::Gs2 => { let k = self.seqn(2)?; GS2 { t: k[0].clone(), u: k[1].clone(), z: "junk".into() }.encode(e, p, s) }
                Bin::Ge2 => if let V::Variant(i, f) = &self.v {
                    match i {
                        0 => GE2::<Dyn, Dyn>::L(f[0].clone()).encode(e, p, s),
                        1 => GE2::<Dyn, Dyn>::R(f[0].clone()).encode(e, p, s),
                        2 => GE2::<Dyn, Dyn>::B { t: f[0].clone(), u: f[1].clone() }.encode(e, p, s),
                        _ => GE2::<Dyn, Dyn>::Z.encode(e, p, s),
                    }
                } else { Err(bad("Ge2")) },
            },
            Ty::Tup(ts) => {
                let k = self.seqn(ts.len())?;
                macro_rules! tup { ($($i:tt),+) => { ($(k[$i].clone(),)+).encode(e, p, s) }; }
                match ts.len() {
                    1 => tup!(0),
                    2 => tup!(0, 1),
                    3 => tup!(0, 1, 2),
                    4 => tup!(0, 1, 2, 3),
                    5 => tup!(0, 1, 2, 3, 4),
                    6 => tup!(0, 1, 2, 3, 4, 5),
                    7 => tup!(0, 1, 2, 3, 4, 5, 6),
                    8 => tup!(0, 1, 2, 3, 4, 5, 6, 7),
                    9 => tup!(0, 1, 2, 3, 4, 5, 6, 7, 8),
                    10 => tup!(0, 1, 2, 3, 4, 5, 6, 7, 8, 9),
                    11 => tup!(0, 1, 2, 3, 4, 5, 6, 7, 8, 9, 10),
                    12 => tup!(0, 1, 2, 3, 4, 5, 6, 7, 8, 9, 10, 11),
                    n => Err(bad(format!("tuple arity {}", n))),
                }
            }
        }
    }
}

// ---------------------------------------------------------------------------
// Decode: the expected term comes from the frame stack
// ---------------------------------------------------------------------------

fn sorted(mut v: Vec<Dyn>) -> Vec<Dyn> { v.sort(); v }
fn sorted_map(mut v: Vec<(Dyn, Dyn)>) -> Vec<(Dyn, Dyn)> { v.sort(); v }

macro_rules! dec_atomic {
    ($d:expr, $p:expr, $s:expr, $at:ty, $wrap:expr) => {{
        let a = <$at>::decode($d, $p, $s)?;
        $wrap(a.load(std::sync::atomic::Ordering::Relaxed))
    }};
}

impl Decode for Dyn {
    fn decode<D: Decoder + ?Sized>(d: &mut D, p: &Plugin, s: &mut Session) -> io::Result<Self> {
        DEC_CALLS.with(|c| c.set(c.get() + 1));
        use std::num::*;
        use std::sync::atomic::*;
        let ty = next_ty()?;
        let one = |t: &Arc<Ty>| vec![t.clone()];
        let u = |x: u128| V::U(x);
        let i = |x: i128| V::I(x);
        let v = match &*ty {
            Ty::Leaf(l) => match l {
                Leaf::U8 => u(u8::decode(d, p, s)? as u128),
                Leaf::U16 => u(u16::decode(d, p, s)? as u128),
                Leaf::U32 => u(u32::decode(d, p, s)? as u128),
                Leaf::U64 => u(u64::decode(d, p, s)? as u128),
                Leaf::U128 => u(u128::decode(d, p, s)?),
                Leaf::Usize => u(usize::decode(d, p, s)? as u128),
                Leaf::I8 => i(i8::decode(d, p, s)? as i128),
                Leaf::I16 => i(i16::decode(d, p, s)? as i128),
                Leaf::I32 => i(i32::decode(d, p, s)? as i128),
                Leaf::I64 => i(i64::decode(d, p, s)? as i128),
                Leaf::I128 => i(i128::decode(d, p, s)?),
                Leaf::Isize => i(isize::decode(d, p, s)? as i128),
                Leaf::Bool => V::Bool(bool::decode(d, p, s)?),
                Leaf::Char => V::Char(char::decode(d, p, s)?),
                Leaf::F32 => V::F32(f32::decode(d, p, s)?.to_bits()),
                Leaf::F64 => V::F64(f64::decode(d, p, s)?.to_bits()),
                Leaf::Unit => { <()>::decode(d, p, s)?; V::Unit }
                Leaf::String | Leaf::RefStr => V::Str(String::decode(d, p, s)?),
                Leaf::BoxStr => V::Str(Box::<str>::decode(d, p, s)?.to_string()),
                Leaf::RcStr => V::Str(Rc::<str>::decode(d, p, s)?.to_string()),
                Leaf::ArcStr => V::Str(Arc::<str>::decode(d, p, s)?.to_string()),
                Leaf::CowStr => V::Str(Cow::<'static, str>::decode(d, p, s)?.into_owned()),
                Leaf::PathBuf => V::Str(PathBuf::decode(d, p, s)?.to_str().ok_or_else(|| bad("path utf8"))?.to_string()),
                Leaf::BoxPath => V::Str(Box::<Path>::decode(d, p, s)?.to_str().ok_or_else(|| bad("path utf8"))?.to_string()),
                Leaf::RcPath => V::Str(Rc::<Path>::decode(d, p, s)?.to_str().ok_or_else(|| bad("path utf8"))?.to_string()),
                Leaf::ArcPath => V::Str(Arc::<Path>::decode(d, p, s)?.to_str().ok_or_else(|| bad("path utf8"))?.to_string()),
                Leaf::Duration => { let x = std::time::Duration::decode(d, p, s)?; V::Dur(x.as_secs(), x.subsec_nanos()) }
                Leaf::RangeFull => { std::ops::RangeFull::decode(d, p, s)?; V::Unit }
                Leaf::NzU8 => u(NonZeroU8::decode(d, p, s)?.get() as u128),
                Leaf::NzU16 => u(NonZeroU16::decode(d, p, s)?.get() as u128),
                Leaf::NzU32 => u(NonZeroU32::decode(d, p, s)?.get() as u128),
                Leaf::NzU64 => u(NonZeroU64::decode(d, p, s)?.get() as u128),
                Leaf::NzU128 => u(NonZeroU128::decode(d, p, s)?.get()),
                Leaf::NzUsize => u(NonZeroUsize::decode(d, p, s)?.get() as u128),
                Leaf::NzI8 => i(NonZeroI8::decode(d, p, s)?.get() as i128),
                Leaf::NzI16 => i(NonZeroI16::decode(d, p, s)?.get() as i128),
                Leaf::NzI32 => i(NonZeroI32::decode(d, p, s)?.get() as i128),
                Leaf::NzI64 => i(NonZeroI64::decode(d, p, s)?.get() as i128),
                Leaf::NzI128 => i(NonZeroI128::decode(d, p, s)?.get()),
                Leaf::NzIsize => i(NonZeroIsize::decode(d, p, s)?.get() as i128),
                Leaf::AtBool => dec_atomic!(d, p, s, AtomicBool, V::Bool),
                Leaf::AtI8 => dec_atomic!(d, p, s, AtomicI8, |x| V::I(x as i128)),
                Leaf::AtI16 => dec_atomic!(d, p, s, AtomicI16, |x| V::I(x as i128)),
                Leaf::AtI32 => dec_atomic!(d, p, s, AtomicI32, |x| V::I(x as i128)),
                Leaf::AtI64 => dec_atomic!(d, p, s, AtomicI64, |x| V::I(x as i128)),
                Leaf::AtIsize => dec_atomic!(d, p, s, AtomicIsize, |x| V::I(x as i128)),
                Leaf::AtU8 => dec_atomic!(d, p, s, AtomicU8, |x| V::U(x as u128)),
                Leaf::AtU16 => dec_atomic!(d, p, s, AtomicU16, |x| V::U(x as u128)),
                Leaf::AtU32 => dec_atomic!(d, p, s, AtomicU32, |x| V::U(x as u128)),
                Leaf::AtU64 => dec_atomic!(d, p, s, AtomicU64, |x| V::U(x as u128)),
                Leaf::AtUsize => dec_atomic!(d, p, s, AtomicUsize, |x| V::U(x as u128)),
                Leaf::CellU32 => u(Cell::<u32>::decode(d, p, s)?.get() as u128),
                Leaf::CellI64 => i(Cell::<i64>::decode(d, p, s)?.get() as i128),
                Leaf::CellBool => V::Bool(Cell::<bool>::decode(d, p, s)?.get()),
                Leaf::CellPair => { let (a, b) = Cell::<(u8, i16)>::decode(d, p, s)?.get(); V::Raw(vec![V::U(a as u128), V::I(b as i128)]) }
                Leaf::UnitStruct => { UnitS::decode(d, p, s)?; V::Unit }
                Leaf::Named => from_named(NamedS::decode(d, p, s)?),
                Leaf::TupleStruct => from_tuples(TupleS::decode(d, p, s)?),
                Leaf::Enum => from_en(En::decode(d, p, s)?),
                Leaf::BigEnum => from_big(Big::decode(d, p, s)?),
                Leaf::IStr | Leaf::IPath | Leaf::IString | Leaf::IW => {
                    let idx = sr_open(&SR_DEC);
                    let at = io_rpos();
                    let r = match l {
                        Leaf::IStr => Interned::<str>::decode(d, p, s).map(V::HandleStr),
                        Leaf::IPath => Interned::<Path>::decode(d, p, s).map(V::HandlePath),
                        Leaf::IString => Interned::<String>::decode(d, p, s).map(V::HandleString),
                        _ => Interned::<W>::decode(d, p, s).map(V::HandleW),
                    };
                    sr_leaf(&SR_DEC, idx, at);
                    r?
                }
                #[cfg(feature = "extras")]
                Leaf::BvUsizeLsb0 => from_bv(bitvec::vec::BitVec::<usize, bitvec::order::Lsb0>::decode(d, p, s)?),
                #[cfg(feature = "extras")]
                Leaf::BvU8Lsb0 => from_bv(bitvec::vec::BitVec::<u8, bitvec::order::Lsb0>::decode(d, p, s)?),
                #[cfg(feature = "extras")]
                Leaf::BvU8Msb0 => from_bv(bitvec::vec::BitVec::<u8, bitvec::order::Msb0>::decode(d, p, s)?),
                #[cfg(feature = "extras")]
                Leaf::BvU16Lsb0 => from_bv(bitvec::vec::BitVec::<u16, bitvec::order::Lsb0>::decode(d, p, s)?),
                #[cfg(feature = "extras")]
                Leaf::BvU32Msb0 => from_bv(bitvec::vec::BitVec::<u32, bitvec::order::Msb0>::decode(d, p, s)?),
                #[cfg(feature = "extras")]
                Leaf::BvU64Lsb0 => from_bv(bitvec::vec::BitVec::<u64, bitvec::order::Lsb0>::decode(d, p, s)?),
                #[cfg(not(feature = "extras"))]
                _ => return Err(bad("built without feature extras")),
            },
            Ty::Un(un, t) => match un {
                Un::Option => V::Opt(with_frame(one(t), || Option::<Dyn>::decode(d, p, s))?.map(Box::new)),
                Un::Vec | Un::Slice => V::Seq(with_frame(one(t), || Vec::<Dyn>::decode(d, p, s))?),
                Un::VecDeque => V::Seq(with_frame(one(t), || VecDeque::<Dyn>::decode(d, p, s))?.into_iter().collect()),
                Un::LinkedList => V::Seq(with_frame(one(t), || LinkedList::<Dyn>::decode(d, p, s))?.into_iter().collect()),
                Un::BoxSlice => V::Seq(with_frame(one(t), || Box::<[Dyn]>::decode(d, p, s))?.into_vec()),
                Un::RcSlice => V::Seq(with_frame(one(t), || Rc::<[Dyn]>::decode(d, p, s))?.to_vec()),
                Un::ArcSlice => V::Seq(with_frame(one(t), || Arc::<[Dyn]>::decode(d, p, s))?.to_vec()),
                Un::BTreeSet => V::Set(with_frame(one(t), || BTreeSet::<Dyn>::decode(d, p, s))?.into_iter().collect()),
                Un::HashSet => V::Set(sorted(with_frame(one(t), || HashSet::<Dyn>::decode(d, p, s))?.into_iter().collect())),
                Un::HashSetFx => V::Set(sorted(with_frame(one(t), || HashSet::<Dyn, FxBuildHasher>::decode(d, p, s))?.into_iter().collect())),
                Un::DashSet => V::Set(sorted(with_frame(one(t), || DashSet::<Dyn>::decode(d, p, s))?.into_iter().collect())),
                Un::Box => V::Seq(vec![*with_frame(one(t), || Box::<Dyn>::decode(d, p, s))?]),
                Un::Rc => V::Seq(vec![(*with_frame(one(t), || Rc::<Dyn>::decode(d, p, s))?).clone()]),
                Un::Arc => V::Seq(vec![(*with_frame(one(t), || Arc::<Dyn>::decode(d, p, s))?).clone()]),
                Un::Cow => V::Seq(vec![with_frame(one(t), || Cow::<'static, Dyn>::decode(d, p, s))?.into_owned()]),
                Un::CowSlice => V::Seq(with_frame(one(t), || Cow::<'static, [Dyn]>::decode(d, p, s))?.into_owned()),
                Un::Ref | Un::RefMut => V::Seq(vec![with_frame(one(t), || Dyn::decode(d, p, s))?]),
                Un::RefCell => V::Seq(vec![with_frame(one(t), || RefCell::<Dyn>::decode(d, p, s))?.into_inner()]),
                Un::Wrapping => V::Seq(vec![with_frame(one(t), || std::num::Wrapping::<Dyn>::decode(d, p, s))?.0]),
                Un::Reverse => V::Seq(vec![with_frame(one(t), || std::cmp::Reverse::<Dyn>::decode(d, p, s))?.0]),
                Un::Phantom => { with_frame(one(t), || std::marker::PhantomData::<Dyn>::decode(d, p, s))?; V::Unit }
                Un::Range => { let r = with_frame(one(t), || std::ops::Range::<Dyn>::decode(d, p, s))?; V::Seq(vec![r.start, r.end]) }
                Un::RangeInclusive => { let r = with_frame(one(t), || std::ops::RangeInclusive::<Dyn>::decode(d, p, s))?; let (a, b) = r.into_inner(); V::Seq(vec![a, b]) }
                Un::RangeFrom => V::Seq(vec![with_frame(one(t), || std::ops::RangeFrom::<Dyn>::decode(d, p, s))?.start]),
                Un::RangeTo => V::Seq(vec![with_frame(one(t), || std::ops::RangeTo::<Dyn>::decode(d, p, s))?.end]),
                Un::RangeToInclusive => V::Seq(vec![with_frame(one(t), || std::ops::RangeToInclusive::<Dyn>::decode(d, p, s))?.end]),
                Un::Bound => match with_frame(one(t), || std::ops::Bound::<Dyn>::decode(d, p, s))? {
                    std::ops::Bound::Unbounded => V::Variant(0, vec![]),
                    std::ops::Bound::Included(x) => V::Variant(1, vec![x]),
                    std::ops::Bound::Excluded(x) => V::Variant(2, vec![x]),
                },
                Un::Array0 => V::Seq(with_frame(one(t), || <[Dyn; 0]>::decode(d, p, s))?.to_vec()),
                Un::Array1 => V::Seq(with_frame(one(t), || <[Dyn; 1]>::decode(d, p, s))?.to_vec()),
                Un::Array2 => V::Seq(with_frame(one(t), || <[Dyn; 2]>::decode(d, p, s))?.to_vec()),
                Un::Array3 => V::Seq(with_frame(one(t), || <[Dyn; 3]>::decode(d, p, s))?.to_vec()),
                Un::Array4 => V::Seq(with_frame(one(t), || <[Dyn; 4]>::decode(d, p, s))?.to_vec()),
                Un::Array33 => V::Seq(with_frame(one(t), || <[Dyn; 33]>::decode(d, p, s))?.to_vec()),
                Un::Pair => { let (a, b) = with_frame(one(t), || <(Dyn, Dyn)>::decode(d, p, s))?; V::Seq(vec![a, b]) }
                Un::Triple => { let (a, b, c) = with_frame(one(t), || <(Dyn, Dyn, Dyn)>::decode(d, p, s))?; V::Seq(vec![a, b, c]) }
                Un::Interned => {
                    let idx = sr_open(&SR_DEC);
                    let before = DEC_CALLS.with(|c| c.get());
                    let r = with_frame(one(t), || Interned::<Dyn>::decode(d, p, s));
                    sr_close(&SR_DEC, idx, DEC_CALLS.with(|c| c.get()) != before);
                    V::Handle(r?)
                }
                Un::InternedSlice => {
                    let idx = sr_open(&SR_DEC);
                    let at = io_rpos();
                    let r = with_frame(one(t), || Interned::<[Dyn]>::decode(d, p, s));
                    sr_leaf(&SR_DEC, idx, at);
                    V::HandleSlice(r?)
                }
                Un::Gs => {
                    let g = with_frame(one(t), || GS::<Dyn>::decode(d, p, s))?;
                    if g.skipped != 0 { V::Bad("GS: skipped field not Default".into()) } else { V::Seq(vec![g.a, g.b]) }
                }
                Un::Ge => match with_frame(one(t), || GE::<Dyn>::decode(d, p, s))? {
                    GE::U => V::Variant(0, vec![]),
                    GE::T1(x) => V::Variant(1, vec![x]),
                    GE::N { x, s: k, y } => if k == 0 { V::Variant(2, vec![x, y]) } else { V::Bad("GE::N skip".into()) },
                    GE::T2(k, x) => if k == 0 { V::Variant(3, vec![x]) } else { V::Bad("GE::T2 skip".into()) },
                },
                Un::GSkip => {
                    let g = with_frame(one(t), || GSkipS::<Dyn>::decode(d, p, s))?;
                    if g.t != Dyn::default() { V::Bad("GSkip: skipped generic field not Default".into()) }
                    else if g.n != 0x5A { V::Bad(format!("GSkip: n = {}", g.n)) }
                    else { V::Unit }
                }
                #[cfg(feature = "extras")]
                Un::SmallVec2 => V::Seq(with_frame(one(t), || smallvec::SmallVec::<[Dyn; 2]>::decode(d, p, s))?.into_vec()),
                #[cfg(not(feature = "extras"))]
                Un::SmallVec2 => return Err(bad("built without feature extras")),
            },
            Ty::Bin(b, x, y) => {
                let two = vec![x.clone(), y.clone()];
                match b {
                    Bin::Result => {
                        // Ok arm decodes T, Err arm decodes E: peeking is impossible, so the frame
                        // holds both and the arm taken is only known afterwards.  Use two frames.
                        // (the real impl calls exactly one of T::decode / E::decode)
                        let r = decode_result(d, p, s, x, y)?;
                        match r { Ok(v) => V::Variant(0, vec![v]), Err(v) => V::Variant(1, vec![v]) }
                    }
                    Bin::BTreeMap => V::Map(with_frame(two, || BTreeMap::<Dyn, Dyn>::decode(d, p, s))?.into_iter().collect()),
                    Bin::HashMap => V::Map(sorted_map(with_frame(two, || HashMap::<Dyn, Dyn>::decode(d, p, s))?.into_iter().collect())),
                    Bin::HashMapFx => V::Map(sorted_map(with_frame(two, || HashMap::<Dyn, Dyn, FxBuildHasher>::decode(d, p, s))?.into_iter().collect())),
                    Bin::DashMap => V::Map(sorted_map(with_frame(two, || DashMap::<Dyn, Dyn>::decode(d, p, s))?.into_iter().collect())),
                    Bin::Gs2 => {
                        let g = with_frame(two, || GS2::<Dyn, Dyn>::decode(d, p, s))?;
                        if !g.z.is_empty() { V::Bad("GS2 skip".into()) } else { V::Seq(vec![g.t, g.u]) }
                    }
                    Bin::Ge2 => match decode_ge2(d, p, s, x, y)? {
                        GE2::L(a) => V::Variant(0, vec![a]),
                        GE2::R(a) => V::Variant(1, vec![a]),
                        GE2::B { t, u } => V::Variant(2, vec![t, u]),
                        GE2::Z => V::Variant(3, vec![]),
                    },
                }
            }
            Ty::Tup(ts) => {
                let f = ts.clone();
                macro_rules! tup { ($($n:ident),+) => {{ let ($($n,)+) = with_frame(f, || <($(tup!(@d $n),)+)>::decode(d, p, s))?; V::Seq(vec![$($n),+]) }}; (@d $n:ident) => { Dyn }; }
                match ts.len() {
                    1 => tup!(a),
                    2 => tup!(a, b),
                    3 => tup!(a, b, c),
                    4 => tup!(a, b, c, e),
                    5 => tup!(a, b, c, e, f5),
                    6 => tup!(a, b, c, e, f5, g),
                    7 => tup!(a, b, c, e, f5, g, h),
                    8 => tup!(a, b, c, e, f5, g, h, i8_),
                    9 => tup!(a, b, c, e, f5, g, h, i8_, j),
                    10 => tup!(a, b, c, e, f5, g, h, i8_, j, k),
                    11 => tup!(a, b, c, e, f5, g, h, i8_, j, k, l),
                    12 => tup!(a, b, c, e, f5, g, h, i8_, j, k, l, m),
                    n => return Err(bad(format!("tuple arity {}", n))),
                }
            }
        };
        Ok(Dyn { ty, v })
    }
}

/// `Result<T, E>`: the real impl reads the tag and then decodes exactly one
/// `Dyn`; which type that `Dyn` must have depends on the tag.  A wrapper type
/// per side records which side was asked for.
#[derive(Debug, Clone, PartialEq, Eq, Hash, PartialOrd, Ord)]
struct Side<const K: usize>(Dyn);
impl<const K: usize> Decode for Side<K> {
    fn decode<D: Decoder + ?Sized>(d: &mut D, p: &Plugin, s: &mut Session) -> io::Result<Self> {
        // frame = [x, y]; pick by side, not by call order
        let t = CTX.with(|c| c.borrow().last().map(|f| f.tys[K].clone())).ok_or_else(|| bad("Side without frame"))?;
        Ok(Side(with_frame(vec![t], || Dyn::decode(d, p, s))?))
    }
}
fn decode_result<D: Decoder + ?Sized>(d: &mut D, p: &Plugin, s: &mut Session, x: &Arc<Ty>, y: &Arc<Ty>) -> io::Result<Result<Dyn, Dyn>> {
    let r = with_frame(vec![x.clone(), y.clone()], || Result::<Side<0>, Side<1>>::decode(d, p, s))?;
    Ok(match r { Ok(a) => Ok(a.0), Err(b) => Err(b.0) })
}
fn decode_ge2<D: Decoder + ?Sized>(d: &mut D, p: &Plugin, s: &mut Session, x: &Arc<Ty>, y: &Arc<Ty>) -> io::Result<GE2<Dyn, Dyn>> {
    let r = with_frame(vec![x.clone(), y.clone()], || GE2::<Side<0>, Side<1>>::decode(d, p, s))?;
    Ok(match r { GE2::L(a) => GE2::L(a.0), GE2::R(b) => GE2::R(b.0), GE2::B { t, u } => GE2::B { t: t.0, u: u.0 }, GE2::Z => GE2::Z })
}

// ---------------------------------------------------------------------------
// Terms from TLC: [ctor, class, kid...]; classes; concretisation
// ---------------------------------------------------------------------------

#[derive(Clone, Debug)]
pub struct Term {
    pub ctor: String,
    pub class: String,
    pub kids: Vec<Term>,
}

pub fn class_string(j: &J) -> String {
    match j {
        J::String(s) => s.clone(),
        // <<"b", k, d>> from TLA+  ->  b{k}, b{k}m1, b{k}p1
        J::Array(a) => a.iter().map(|x| match x { J::String(s) => s.clone(), J::Number(n) => {
            let n = n.as_i64().unwrap_or(0);
            if a.len() == 3 && std::ptr::eq(x, &a[2]) { match n { -1 => "m1".into(), 1 => "p1".into(), _ => String::new() } } else { n.to_string() }
        } _ => "?".into() }).collect::<Vec<_>>().join(""),
        _ => "?".into(),
    }
}

pub fn parse_term(j: &J) -> Result<Term, String> {
    let a = j.as_array().ok_or("term not an array")?;
    if a.len() < 2 { return Err("term too short".into()); }
    let ctor = a[0].as_str().ok_or("ctor not a string")?.to_string();
    let class = class_string(&a[1]);
    let kids = a[2..].iter().map(parse_term).collect::<Result<Vec<_>, _>>()?;
    Ok(Term { ctor, class, kids })
}

pub fn ty_of(t: &Term) -> Result<Arc<Ty>, String> {
    if t.ctor == "Tuple" {
        if t.kids.is_empty() || t.kids.len() > 12 { return Err("tuple arity".into()); }
        return Ok(Arc::new(Ty::Tup(t.kids.iter().map(ty_of).collect::<Result<_, _>>()?)));
    }
    if let Some(l) = Leaf::parse(&t.ctor) {
        if !t.kids.is_empty() { return Err(format!("leaf {} with kids", t.ctor)); }
        return Ok(Arc::new(Ty::Leaf(l)));
    }
    if let Some(u) = Un::parse(&t.ctor) {
        if t.kids.len() != 1 { return Err(format!("{} needs 1 kid", t.ctor)); }
        return Ok(Arc::new(Ty::Un(u, ty_of(&t.kids[0])?)));
    }
    if let Some(b) = Bin::parse(&t.ctor) {
        if t.kids.len() != 2 { return Err(format!("{} needs 2 kids", t.ctor)); }
        return Ok(Arc::new(Ty::Bin(b, ty_of(&t.kids[0])?, ty_of(&t.kids[1])?)));
    }
    Err(format!("unknown constructor {}", t.ctor))
}

fn int_bits(l: Leaf) -> Option<(u32, bool)> {
    use Leaf::*;
    Some(match l {
        U8 | NzU8 | AtU8 => (8, false), U16 | NzU16 | AtU16 => (16, false), U32 | NzU32 | AtU32 | CellU32 => (32, false),
        U64 | NzU64 | AtU64 | Usize | NzUsize | AtUsize => (64, false), U128 | NzU128 => (128, false),
        I8 | NzI8 | AtI8 => (8, true), I16 | NzI16 | AtI16 => (16, true), I32 | NzI32 | AtI32 => (32, true),
        I64 | NzI64 | AtI64 | Isize | NzIsize | AtIsize | CellI64 => (64, true), I128 | NzI128 => (128, true),
        _ => return None,
    })
}
fn is_nonzero(l: Leaf) -> bool { l.name().starts_with("Nz") }

fn mask(w: u32) -> u128 { if w == 128 { u128::MAX } else { (1u128 << w) - 1 } }

/// classes of an integer of width w (names; unsigned wire value = zigzag for signed)
fn int_classes(w: u32, nonzero: bool) -> Vec<String> {
    let mut v = vec![];
    if !nonzero { v.push("zero".to_string()); }
    v.push("one".into());
    let mut k = 1;
    while 7 * k < w {
        v.push(format!("b{}m1", k));
        v.push(format!("b{}", k));
        v.push(format!("b{}p1", k));
        k += 1;
    }
    v.push("maxm1".into());
    v.push("max".into());
    v
}
fn int_class_wire(w: u32, class: &str) -> Option<u128> {
    Some(match class {
        "zero" => 0, "one" => 1, "max" => mask(w), "maxm1" => mask(w) - 1,
        c if c.starts_with('b') => {
            let (k, d) = if let Some(x) = c.strip_suffix("m1") { (x[1..].parse::<u32>().ok()?, -1i32) }
                else if let Some(x) = c.strip_suffix("p1") { (x[1..].parse::<u32>().ok()?, 1) }
                else { (c[1..].parse::<u32>().ok()?, 0) };
            if 7 * k >= w { return None; }
            let b = 1u128 << (7 * k);
            match d { -1 => b - 1, 1 => b + 1, _ => b }
        }
        _ => return None,
    })
}
const STR_CLASSES: &[&str] = &["empty", "ascii", "nul", "multibyte", "len127", "len128", "len16383", "len16384"];
const STR_SHORT: &[&str] = &["empty", "ascii", "multibyte"];
const PATH_CLASSES: &[&str] = &["empty", "ascii", "multibyte", "dots"];
const FLOAT_CLASSES: &[&str] = &["zero", "negzero", "one", "negone", "minpos", "max", "min", "inf", "neginf", "nan", "nanpayload", "nanneg"];
const CHAR_CLASSES: &[&str] = &["nul", "a", "x7f", "x80", "x7ff", "x800", "x3fff", "x4000", "xd7ff", "xe000", "xffff", "x10000", "x10ffff"];
const BV_CLASSES: &[&str] = &["empty", "one1", "seven", "eightones", "eighthi", "nine", "b63", "b64", "b65", "alt130", "ones200"];
const SEQ_CLASSES: &[&str] = &["empty", "one", "two", "rep", "big"];
const SET_CLASSES: &[&str] = &["empty", "one", "two", "big"];

pub fn leaf_classes(l: Leaf) -> (Vec<std::string::String>, Vec<std::string::String>, std::string::String) {
    let sv = |x: &[&str]| x.iter().map(|s| s.to_string()).collect::<Vec<_>>();
    use Leaf::*;
    if let Some((w, _)) = int_bits(l) {
        let nz = is_nonzero(l);
        let all = int_classes(w, nz);
        let short = if nz { sv(&["one", "b1", "max"]) } else { sv(&["zero", "b1", "max"]) };
        return (all, short, "b1".into());
    }
    match l {
        Bool | AtBool | CellBool => (sv(&["false", "true"]), sv(&["false", "true"]), "true".into()),
        Char => (sv(CHAR_CLASSES), sv(&["a", "x4000", "x10ffff"]), "a".into()),
        F32 | F64 => (sv(FLOAT_CLASSES), sv(&["one", "negzero", "nanpayload"]), "one".into()),
        Unit | RangeFull | UnitStruct => (sv(&["-"]), sv(&["-"]), "-".into()),
        String | BoxStr | RcStr | ArcStr | CowStr | RefStr => (sv(STR_CLASSES), sv(STR_SHORT), "ascii".into()),
        PathBuf | BoxPath | RcPath | ArcPath => (sv(PATH_CLASSES), sv(&["empty", "ascii"]), "ascii".into()),
        Duration => (sv(&["zero", "onens", "small", "b", "max"]), sv(&["zero", "max"]), "small".into()),
        CellPair => (sv(&["a", "b"]), sv(&["a"]), "a".into()),
        Named | TupleStruct => (sv(&["zero", "mixed", "max"]), sv(&["zero", "mixed"]), "mixed".into()),
        Enum => (sv(&["a", "b", "c", "d", "e"]), sv(&["a", "c"]), "b".into()),
        BigEnum => (sv(&["v0", "v1", "v126", "v127", "v128", "v129", "v130", "v131"]), sv(&["v0", "v127", "v129"]), "v128".into()),
        IStr | IPath | IString | IW => (sv(&["dupempty", "dup", "intern", "internmb"]), sv(&["dup", "intern"]), "intern".into()),
        BvUsizeLsb0 | BvU8Lsb0 | BvU8Msb0 | BvU16Lsb0 | BvU32Msb0 | BvU64Lsb0 => (sv(BV_CLASSES), sv(&["empty", "nine", "alt130"]), "nine".into()),
        _ => unreachable!(),
    }
}

pub fn un_classes(u: Un) -> (std::vec::Vec<String>, String) {
    let sv = |x: &[&str]| x.iter().map(|s| s.to_string()).collect::<std::vec::Vec<_>>();
    use Un::*;
    match u {
        Option => (sv(&["none", "some"]), "some".into()),
        Vec | VecDeque | LinkedList | BoxSlice | RcSlice | ArcSlice | Slice | CowSlice | SmallVec2 => (sv(SEQ_CLASSES), "two".into()),
        // "dup": two elements, made with Interned::new_duplicating_unsized (not registered in the interner)
        InternedSlice => (sv(&["empty", "one", "two", "rep", "big", "dup"]), "two".into()),
        BTreeSet | HashSet | HashSetFx | DashSet => (sv(SET_CLASSES), "two".into()),
        Bound => (sv(&["unbounded", "included", "excluded"]), "included".into()),
        Pair => (sv(&["diff", "same"]), "diff".into()),
        Triple | Array3 | Array4 | Array33 => (sv(&["diff", "rep"]), "diff".into()),
        Interned => (sv(&["intern", "dup"]), "intern".into()),
        Ge => (sv(&["u", "t1", "n", "t2"]), "n".into()),
        _ => (sv(&["-"]), "-".into()),
    }
}
pub fn bin_classes(b: Bin) -> (Vec<String>, String) {
    let sv = |x: &[&str]| x.iter().map(|s| s.to_string()).collect::<Vec<_>>();
    match b {
        Bin::Result => (sv(&["ok", "err"]), "ok".into()),
        Bin::BTreeMap | Bin::HashMap | Bin::HashMapFx | Bin::DashMap => (sv(SET_CLASSES), "two".into()),
        Bin::Gs2 => (sv(&["-"]), "-".into()),
        Bin::Ge2 => (sv(&["l", "r", "b", "z"]), "b".into()),
    }
}

/// The universe handed to TLC (single source of truth for names and classes)
/// and the list of covered impls for the evidence.
pub fn universe() -> J {
    let mut leaves = vec![];
    for &l in Leaf::ALL {
        if l.is_extra() && !EXTRAS { continue; }
        let (all, short, def) = leaf_classes(l);
        leaves.push(json!({"n": l.name(), "classes": all, "short": short, "def": def, "extra": l.is_extra()}));
    }
    let mut uns = vec![];
    for &u in Un::ALL {
        if u.is_extra() && !EXTRAS { continue; }
        let (all, def) = un_classes(u);
        uns.push(json!({"n": u.name(), "classes": all, "def": def, "extra": u.is_extra()}));
    }
    let mut bins = vec![];
    for &b in Bin::ALL {
        let (all, def) = bin_classes(b);
        bins.push(json!({"n": b.name(), "classes": all, "def": def}));
    }
    json!({"extras": EXTRAS, "leaves": leaves, "un": uns, "bin": bins, "tuple_arities": (1..=12).collect::<Vec<u32>>()})
}

pub struct Gen<'a> {
    pub interner: &'a Interner,
    pub seed: u64,
}

fn mix(seed: u64, salt: u32) -> u64 {
    let mut x = seed ^ ((salt as u64).wrapping_mul(0x9E37_79B9_7F4A_7C15));
    x ^= x >> 33; x = x.wrapping_mul(0xff51_afd7_ed55_8ccd); x ^= x >> 33;
    x
}

impl<'a> Gen<'a> {
    /// perturbation applied for salt > 0 (neighbouring values; seeded)
    fn delta(&self, salt: u32) -> u128 { if salt == 0 { 0 } else { salt as u128 + (mix(self.seed, salt) % 3) as u128 } }

    fn string_for(&self, class: &str, salt: u32) -> Result<String, String> {
        let mut s = match class {
            "empty" => String::new(),
            "ascii" => "hello".to_string(),
            "nul" => "a\0b".to_string(),
            "multibyte" => "h\u{e9}llo \u{2713} \u{1D11E} \u{10FFFF}".to_string(),
            "len127" => "x".repeat(127),
            "len128" => "y".repeat(128),
            "len16383" => "z".repeat(16383),
            "len16384" => "\u{e9}".repeat(8192),
            "dots" => "a/./b/../c//d/".to_string(),
            c => return Err(format!("string class {}", c)),
        };
        if salt > 0 {
            if class.starts_with("len") {
                // keep the byte length: vary the first byte
                let c = (b'a' + (self.delta(salt) % 26) as u8) as char;
                let n = s.chars().next().map(|c| c.len_utf8()).unwrap_or(0);
                if n == 1 { s.replace_range(0..1, &c.to_string()); } else if n == 2 { s.replace_range(0..2, &format!("{}{}", c, c)); }
            } else {
                s.push_str(&format!("#{}", self.delta(salt)));
            }
        }
        Ok(s)
    }

    fn leaf(&self, l: Leaf, ty: &Arc<Ty>, class: &str, salt: u32) -> Result<Dyn, String> {
        use Leaf::*;
        let d = self.delta(salt);
        if let Some((w, signed)) = int_bits(l) {
            let base = int_class_wire(w, class).ok_or_else(|| format!("int class {} for {}", class, l.name()))?;
            let mut wire = base.wrapping_add(d) & mask(w);
            if is_nonzero(l) && wire == 0 { wire = 1; }
            let v = if signed {
                // wire value = zig-zag image; reference inverse
                let half = (wire >> 1) as i128;
                V::I(if wire & 1 == 1 { -half - 1 } else { half })
            } else { V::U(wire) };
            return Ok(Dyn::new(ty, v));
        }
        let v = match l {
            Bool | AtBool | CellBool => V::Bool((class == "true") ^ (salt & 1 == 1)),
            Char => {
                let base: u32 = match class {
                    "nul" => 0, "a" => 'a' as u32, "x7f" => 0x7f, "x80" => 0x80, "x7ff" => 0x7ff, "x800" => 0x800, "x3fff" => 0x3fff,
                    "x4000" => 0x4000, "xd7ff" => 0xd7ff, "xe000" => 0xe000, "xffff" => 0xffff, "x10000" => 0x10000, "x10ffff" => 0x10ffff,
                    c => return Err(format!("char class {}", c)),
                };
                let c = char::from_u32(base.wrapping_add(d as u32)).or_else(|| char::from_u32(base.wrapping_sub(d as u32))).unwrap_or('a');
                V::Char(c)
            }
            F32 => {
                let b: u32 = match class {
                    "zero" => 0, "negzero" => 0x8000_0000, "one" => 1f32.to_bits(), "negone" => (-1f32).to_bits(), "minpos" => 1,
                    "max" => f32::MAX.to_bits(), "min" => f32::MIN.to_bits(), "inf" => f32::INFINITY.to_bits(), "neginf" => f32::NEG_INFINITY.to_bits(),
                    "nan" => 0x7fc0_0000, "nanpayload" => 0x7f80_0001, "nanneg" => 0xffc1_2345,
                    c => return Err(format!("float class {}", c)),
                };
                V::F32(b.wrapping_add(d as u32))
            }
            F64 => {
                let b: u64 = match class {
                    "zero" => 0, "negzero" => 1 << 63, "one" => 1f64.to_bits(), "negone" => (-1f64).to_bits(), "minpos" => 1,
                    "max" => f64::MAX.to_bits(), "min" => f64::MIN.to_bits(), "inf" => f64::INFINITY.to_bits(), "neginf" => f64::NEG_INFINITY.to_bits(),
                    "nan" => 0x7ff8_0000_0000_0000, "nanpayload" => 0x7ff0_0000_0000_0001, "nanneg" => 0xfff8_1234_5678_9abc,
                    c => return Err(format!("float class {}", c)),
                };
                V::F64(b.wrapping_add(d as u64))
            }
            Unit | RangeFull | UnitStruct => V::Unit,
            String | BoxStr | RcStr | ArcStr | CowStr | RefStr | PathBuf | BoxPath | RcPath | ArcPath => V::Str(self.string_for(class, salt)?),
            Duration => match class {
                "zero" => V::Dur(d as u64, 0),
                "onens" => V::Dur(d as u64, 1),
                "small" => V::Dur(1 + d as u64, 500_000_000),
                "b" => V::Dur((1u64 << 35) + d as u64, 1 << 14),
                "max" => V::Dur(u64::MAX - d as u64, 999_999_999),
                c => return Err(format!("duration class {}", c)),
            },
            CellPair => if class == "a" { V::Raw(vec![V::U(200 ^ (d & 0xff)), V::I(-300 - (d % 1000) as i128)]) } else { V::Raw(vec![V::U(d & 0xff), V::I(i16::MIN as i128)]) },
            Named => match class {
                "zero" => V::Raw(vec![V::I(0 - d as i128), V::U(d), V::Str(std::string::String::new())]),
                "mixed" => V::Raw(vec![V::I(-64 - d as i128), V::U(16384 + d), V::Str(self.string_for("multibyte", salt)?)]),
                "max" => V::Raw(vec![V::I(i32::MIN as i128 + d as i128), V::U(u64::MAX as u128 - d), V::Str(self.string_for("len128", salt)?)]),
                c => return Err(format!("Named class {}", c)),
            },
            TupleStruct => match class {
                "zero" => V::Raw(vec![V::U(d & 0xffff), V::Str(std::string::String::new()), V::I(0)]),
                "mixed" => V::Raw(vec![V::U((128 + d) & 0xffff), V::Str(self.string_for("ascii", salt)?), V::I(-1)]),
                "max" => V::Raw(vec![V::U(0xffff - (d & 0xff)), V::Str(self.string_for("multibyte", salt)?), V::I(-128)]),
                c => return Err(format!("TupleStruct class {}", c)),
            },
            Enum => match class {
                "a" => V::RawVariant(0, vec![]),
                "b" => V::RawVariant(1, vec![V::U((16383 + d) & 0xffff_ffff), V::Str(self.string_for("ascii", salt)?)]),
                "c" => V::RawVariant(2, vec![V::I(i64::MIN as i128 + d as i128), V::Bool(salt & 1 == 0)]),
                "d" => V::RawVariant(3, vec![V::I(-8192 - (d % 1000) as i128)]),
                "e" => V::RawVariant(4, vec![]),
                c => return Err(format!("Enum class {}", c)),
            },
            BigEnum => {
                let i: u32 = class[1..].parse().map_err(|_| format!("BigEnum class {}", class))?;
                match i {
                    128 => V::RawVariant(128, vec![V::U((2097152 + d) & 0xffff_ffff)]),
                    129 => V::RawVariant(129, vec![V::Str(self.string_for("multibyte", salt)?)]),
                    131 => V::RawVariant(131, vec![V::U(255 - (d & 0x7f)), V::I(-1 - d as i128)]),
                    i => V::RawVariant(i, vec![]),
                }
            }
            IStr | IPath | IString | IW => {
                let s = match class { "dupempty" => std::string::String::new(), "internmb" => self.string_for("multibyte", salt)?, _ => self.string_for(if l == IPath { "dots" } else { "ascii" }, salt)? };
                let dup = class.starts_with("dup");
                match l {
                    IStr => V::HandleStr(if dup { Interned::new_duplicating_unsized(s) } else { self.interner.intern_unsized::<str, std::string::String>(s) }),
                    IPath => V::HandlePath(if dup { Interned::new_duplicating_unsized(std::path::PathBuf::from(s)) } else { self.interner.intern_unsized::<Path, std::path::PathBuf>(std::path::PathBuf::from(s)) }),
                    IW => V::HandleW(if dup { Interned::new_duplicating(W(s)) } else { self.interner.intern(W(s)) }),
                    _ => V::HandleString(if dup { Interned::new_duplicating(s) } else { self.interner.intern(s) }),
                }
            }
            BvUsizeLsb0 | BvU8Lsb0 | BvU8Msb0 | BvU16Lsb0 | BvU32Msb0 | BvU64Lsb0 => {
                let mut bits: Vec<bool> = match class {
                    "empty" => vec![],
                    "one1" => vec![true],
                    "seven" => vec![true, false, true, true, false, false, true],
                    "eightones" => vec![true; 8],
                    "eighthi" => { let mut v = vec![false; 8]; v[7] = true; v }
                    "nine" => vec![true, false, false, false, false, false, false, true, true],
                    "b63" => (0..63).map(|i| i % 3 == 0).collect(),
                    "b64" => (0..64).map(|i| i % 5 != 0).collect(),
                    "b65" => (0..65).map(|i| i % 2 == 0 || i == 63).collect(),
                    "alt130" => (0..130).map(|i| i % 2 == 1).collect(),
                    "ones200" => vec![true; 200],
                    c => return Err(format!("bitvec class {}", c)),
                };
                if salt > 0 && !bits.is_empty() { let n = bits.len(); let k = (mix(self.seed, salt) as usize) % n; bits[k] = !bits[k]; }
                V::Bits(bits)
            }
            _ => unreachable!(),
        };
        Ok(Dyn::new(ty, v))
    }

    fn seq_elems(&self, class: &str, kid: &Term, salt: u32) -> Result<Vec<Dyn>, String> {
        let salts: Vec<u32> = match class {
            "empty" => vec![],
            "one" => vec![salt],
            "two" | "diff" => vec![salt, salt * 7 + 1],
            "rep" => vec![salt, salt * 7 + 1, salt],
            "same" => vec![salt, salt],
            "big" => (0..130).map(|i| if i == 0 { salt } else { salt * 7 + i }).collect(),
            c => return Err(format!("sequence class {}", c)),
        };
        salts.into_iter().map(|s| self.make(kid, s)).collect()
    }

    pub fn make(&self, t: &Term, salt: u32) -> Result<Dyn, String> {
        let ty = ty_of(t)?;
        let c = t.class.as_str();
        match &*ty {
            Ty::Leaf(l) => self.leaf(*l, &ty, c, salt),
            Ty::Tup(_) => {
                // class "eq": every position from the same perturbation (equal classes => equal content across leaf types)
                let kids = t.kids.iter().enumerate().map(|(i, k)| self.make(k, if i == 0 || c == "eq" { salt } else { salt * 5 + i as u32 })).collect::<Result<Vec<_>, _>>()?;
                Ok(Dyn::new(&ty, V::Seq(kids)))
            }
            Ty::Un(u, _) => {
                let k = &t.kids[0];
                use Un::*;
                let v = match u {
                    Option => if c == "none" { V::Opt(None) } else { V::Opt(Some(std::boxed::Box::new(self.make(k, salt)?))) },
                    Vec | VecDeque | LinkedList | BoxSlice | RcSlice | ArcSlice | Slice | CowSlice | SmallVec2 => V::Seq(self.seq_elems(c, k, salt)?),
                    BTreeSet | HashSet | HashSetFx | DashSet => { let mut e = self.seq_elems(c, k, salt)?; e.sort(); e.dedup(); V::Set(e) }
                    Box | Rc | Arc | Cow | Ref | RefMut | RefCell | Wrapping | Reverse | RangeFrom | RangeTo | RangeToInclusive => V::Seq(vec![self.make(k, salt)?]),
                    GSkip => V::Unit,
                    Phantom => V::Unit,
                    Range | RangeInclusive | Gs => V::Seq(vec![self.make(k, salt)?, self.make(k, salt * 7 + 1)?]),
                    Bound => match c { "unbounded" => V::Variant(0, vec![]), "included" => V::Variant(1, vec![self.make(k, salt)?]), _ => V::Variant(2, vec![self.make(k, salt)?]) },
                    Array0 => V::Seq(vec![]),
                    Array1 => V::Seq(vec![self.make(k, salt)?]),
                    Array2 => V::Seq(vec![self.make(k, salt)?, self.make(k, salt * 7 + 1)?]),
                    Pair => V::Seq(self.seq_elems(c, k, salt)?),
                    Triple | Array3 | Array4 | Array33 => {
                        let n = match u { Array4 => 4, Array33 => 33, _ => 3 };
                        let mut e = vec![];
                        for i in 0..n {
                            let s = if c == "rep" { if i % 2 == 0 { salt } else { salt * 7 + 1 } } else if i == 0 { salt } else { salt * 7 + i as u32 };
                            e.push(self.make(k, s)?);
                        }
                        V::Seq(e)
                    }
                    Interned => {
                        let inner = self.make(k, salt)?;
                        V::Handle(if c == "dup" { qbice::storage::intern::Interned::new_duplicating(inner) } else { self.interner.intern(inner) })
                    }
                    InternedSlice => {
                        let e = self.seq_elems(if c == "dup" { "two" } else { c }, k, salt)?;
                        V::HandleSlice(if c == "dup" { qbice::storage::intern::Interned::new_duplicating_unsized(e) } else { self.interner.intern_unsized::<[Dyn], std::vec::Vec<Dyn>>(e) })
                    }
                    Ge => match c {
                        "u" => V::Variant(0, vec![]),
                        "t1" => V::Variant(1, vec![self.make(k, salt)?]),
                        "n" => V::Variant(2, vec![self.make(k, salt)?, self.make(k, salt * 7 + 1)?]),
                        _ => V::Variant(3, vec![self.make(k, salt)?]),
                    },
                };
                Ok(Dyn::new(&ty, v))
            }
            Ty::Bin(b, _, _) => {
                let (x, y) = (&t.kids[0], &t.kids[1]);
                let v = match b {
                    Bin::Result => if c == "ok" { V::Variant(0, vec![self.make(x, salt)?]) } else { V::Variant(1, vec![self.make(y, salt)?]) },
                    Bin::BTreeMap | Bin::HashMap | Bin::HashMapFx | Bin::DashMap => {
                        let ks = self.seq_elems(c, x, salt)?;
                        let mut m: BTreeMap<Dyn, Dyn> = BTreeMap::new();
                        for (i, k) in ks.into_iter().enumerate() { m.entry(k).or_insert(self.make(y, salt * 3 + i as u32)?); }
                        V::Map(m.into_iter().collect())
                    }
                    Bin::Gs2 => V::Seq(vec![self.make(x, salt)?, self.make(y, salt)?]),
                    Bin::Ge2 => match c {
                        "l" => V::Variant(0, vec![self.make(x, salt)?]),
                        "r" => V::Variant(1, vec![self.make(y, salt)?]),
                        "b" => V::Variant(2, vec![self.make(x, salt)?, self.make(y, salt)?]),
                        _ => V::Variant(3, vec![]),
                    },
                };
                Ok(Dyn::new(&ty, v))
            }
        }
    }
}

pub fn new_interner() -> Interner { Interner::new(4, BuildStableHasherDefault::<Sip128Hasher>::default()) }

// ---------------------------------------------------------------------------
// World: ONE long-lived encoder and ONE long-lived decoder over ONE buffer
// ---------------------------------------------------------------------------

pub struct SharedW(Rc<RefCell<Vec<u8>>>);
impl io::Write for SharedW {
    fn write(&mut self, b: &[u8]) -> io::Result<usize> { self.0.borrow_mut().extend_from_slice(b); Ok(b.len()) }
    fn flush(&mut self) -> io::Result<()> { Ok(()) }
}
pub struct SharedR { buf: Rc<RefCell<Vec<u8>>>, pos: Rc<Cell<usize>> }
impl io::Read for SharedR {
    fn read(&mut self, out: &mut [u8]) -> io::Result<usize> {
        let b = self.buf.borrow();
        let p = self.pos.get();
        let n = out.len().min(b.len().saturating_sub(p));
        out[..n].copy_from_slice(&b[p..p + n]);
        self.pos.set(p + n);
        Ok(n)
    }
}

pub struct World {
    pub interner: Interner,
    pub plugin: Plugin,
    pub buf: Rc<RefCell<Vec<u8>>>,
    pub rpos: Rc<Cell<usize>>,
    enc: PostcardEncoder<SharedW>,
    dec: PostcardDecoder<SharedR>,
    /// end offset of every encoded top-level value
    pub ends: Vec<usize>,
    /// handle occurrences (type tag, content hash) of every encoded top-level value, in wire order
    pub occ: Vec<Vec<(u8, Compact128)>>,
    /// top-level decodes started so far (= index into `ends` / `occ` of the next decode)
    pub ndec: usize,
    /// set by a decode that panicked inside a handle: which occurrence, and whether an earlier occurrence
    /// of the same (type, hash) exists in the same top-level value (= the wire is self-contained there)
    pub last_ref: Option<J>,
}

fn panic_msg(e: Box<dyn std::any::Any + Send>) -> String {
    if let Some(s) = e.downcast_ref::<&str>() { s.to_string() } else if let Some(s) = e.downcast_ref::<String>() { s.clone() } else { "panic".into() }
}

#[derive(Debug)]
pub enum Outcome<T> { Ok(T), Err(String), Panic(String) }

impl World {
    pub fn new() -> World {
        let interner = new_interner();
        let mut plugin = Plugin::new();
        plugin.insert(interner.clone());
        let buf = Rc::new(RefCell::new(Vec::new()));
        let rpos = Rc::new(Cell::new(0));
        World {
            interner, plugin,
            enc: PostcardEncoder::new(SharedW(buf.clone())),
            dec: PostcardDecoder::new(SharedR { buf: buf.clone(), pos: rpos.clone() }),
            buf, rpos, ends: vec![], occ: vec![], ndec: 0, last_ref: None,
        }
    }
    /// a fresh interner on the decode/encode plugin (process restart / other interner)
    pub fn restart(&mut self) {
        self.interner = new_interner();
        self.plugin.insert(self.interner.clone());
    }
    pub fn len(&self) -> usize { self.buf.borrow().len() }
    fn bind_io(&self) { IO.with(|c| *c.borrow_mut() = Some((self.buf.clone(), self.rpos.clone()))); }
    pub fn encode(&mut self, v: &Dyn) -> (Outcome<()>, usize, String) {
        reset_tls();
        self.bind_io();
        let (enc, plugin) = (&mut self.enc, &self.plugin);
        let r = std::panic::catch_unwind(std::panic::AssertUnwindSafe(|| enc.encode(v, plugin)));
        let end = self.len();
        let sr = take_sr_enc();
        let occ = take_enc_occ();
        let o = match r { Ok(Ok(())) => { self.ends.push(end); self.occ.push(occ); Outcome::Ok(()) } Ok(Err(e)) => Outcome::Err(e.to_string()), Err(p) => Outcome::Panic(panic_msg(p)) };
        (o, end, sr)
    }
    pub fn decode(&mut self, ty: &Arc<Ty>) -> (Outcome<Dyn>, usize, String) {
        reset_tls();
        self.bind_io();
        let (dec, plugin) = (&mut self.dec, &self.plugin);
        let r = std::panic::catch_unwind(std::panic::AssertUnwindSafe(|| with_frame(vec![ty.clone()], || dec.decode::<Dyn>(plugin))));
        let sr = take_sr_dec();
        reset_tls();
        let o = match r { Ok(Ok(v)) => Outcome::Ok(v), Ok(Err(e)) => Outcome::Err(e.to_string()), Err(p) => Outcome::Panic(panic_msg(p)) };
        self.last_ref = None;
        if let (Outcome::Panic(_), Some(occ)) = (&o, self.occ.get(self.ndec)) {
            // the handle being decoded when the panic struck is the one opened last (decode visits the handle
            // occurrences in the order encode wrote them)
            if let Some(k) = sr.len().checked_sub(1) {
                if let Some(&(tag, h)) = occ.get(k) {
                    let inline_before = occ[..k].iter().any(|&(t2, h2)| t2 == tag && h2 == h);
                    let other_type_before = occ[..k].iter().any(|&(t2, h2)| t2 != tag && h2 == h);
                    self.last_ref = Some(json!({"occurrence": k + 1, "of": occ.len(), "type": OCC_TYPES[tag as usize],
                        "inline_before": inline_before, "same_hash_other_type_before": other_type_before}));
                }
            }
        }
        self.ndec += 1;
        (o, self.rpos.get(), sr)
    }
}

// ---------------------------------------------------------------------------
// Behaviours (from Codec.tla / composed from CodecGen cases and op shapes)
// ---------------------------------------------------------------------------

/// interned pool value: a tuple of handles; handle id -> kids; id -> how the
/// ORIGINAL was created (intern: registered in the world's interner, dup: not);
/// optionally id -> Rust type of the handle ("D" = `Interned<Dyn>` (default), "S" =
/// `Interned<str>`, "T" = `Interned<String>`, "W" = `Interned<W>`) and id -> content
/// hash class: handles with the same class have the SAME text, hence (for S/T/W)
/// the same 128-bit content hash under different types.
pub fn build_handles(w: &World, spec: &J) -> Result<Dyn, String> {
    let top: Vec<u64> = spec["top"].as_array().ok_or("h.top")?.iter().filter_map(|x| x.as_u64()).collect();
    fn handle(w: &World, spec: &J, id: u64, memo: &mut HashMap<u64, Dyn>) -> Result<Dyn, String> {
        if let Some(d) = memo.get(&id) { return Ok(d.clone()); }
        let kids: Vec<u64> = spec["kids"][id.to_string()].as_array().map(|a| a.iter().filter_map(|x| x.as_u64()).collect()).unwrap_or_default();
        let how = spec["reg"][id.to_string()].as_str().unwrap_or("intern");
        let hty = spec["ty"][id.to_string()].as_str().unwrap_or("D");
        let text = match &spec["hash"][id.to_string()] { J::String(x) => format!("h{}", x), J::Number(n) => format!("h{}", n), _ => format!("h{}", id) };
        if hty != "D" {
            if !kids.is_empty() { return Err(format!("handle {} of leaf type {} with kids", id, hty)); }
            let dup = how == "dup";
            let (leaf, v) = match hty {
                "S" => (Leaf::IStr, V::HandleStr(if dup { Interned::new_duplicating_unsized(text) } else { w.interner.intern_unsized::<str, String>(text) })),
                "T" => (Leaf::IString, V::HandleString(if dup { Interned::new_duplicating(text) } else { w.interner.intern(text) })),
                "W" => (Leaf::IW, V::HandleW(if dup { Interned::new_duplicating(W(text)) } else { w.interner.intern(W(text)) })),
                t => return Err(format!("unknown handle type {}", t)),
            };
            let d = Dyn { ty: Arc::new(Ty::Leaf(leaf)), v };
            if !dup { memo.insert(id, d.clone()); }
            return Ok(d);
        }
        let mut fields = vec![Dyn { ty: Arc::new(Ty::Leaf(Leaf::String)), v: V::Str(text) }];
        for k in kids { fields.push(handle(w, spec, k, memo)?); }
        let cty = Arc::new(Ty::Tup(fields.iter().map(|f| f.ty.clone()).collect()));
        let content = Dyn { ty: cty.clone(), v: V::Seq(fields) };
        let h = if how == "dup" { Interned::new_duplicating(content) } else { w.interner.intern(content) };
        let d = Dyn { ty: Arc::new(Ty::Un(Un::Interned, cty)), v: V::Handle(h) };
        // a `dup` handle is a fresh allocation at every occurrence; an interned one is shared anyway
        if how != "dup" { memo.insert(id, d.clone()); }
        Ok(d)
    }
    let mut memo = HashMap::new();
    let hs = top.iter().map(|id| handle(w, spec, *id, &mut memo)).collect::<Result<Vec<_>, _>>()?;
    if hs.is_empty() || hs.len() > 12 { return Err("h.top arity".into()); }
    Ok(Dyn { ty: Arc::new(Ty::Tup(hs.iter().map(|h| h.ty.clone()).collect())), v: V::Seq(hs) })
}

/// Sharing per type inside ONE value: every interned handle, keyed by (Rust type, content),
/// with the address of its allocation.  (mechanism level: `intern` returns the canonical
/// allocation of a (type, hash) slot and a reference resolves to it)
fn handles_of(d: &Dyn, out: &mut BTreeMap<(&'static str, String), BTreeSet<usize>>) {
    fn addr<T: ?Sized>(h: &Interned<T>) -> usize { (&**h) as *const T as *const u8 as usize }
    match &d.v {
        V::Seq(x) | V::Set(x) | V::Variant(_, x) => for k in x { handles_of(k, out); },
        V::Map(m) => for (k, v) in m { handles_of(k, out); handles_of(v, out); },
        V::Opt(Some(b)) => handles_of(b, out),
        V::Handle(h) => { out.entry(("Dyn", format!("{:?}", &**h))).or_default().insert(addr(h)); handles_of(&**h, out); }
        V::HandleSlice(h) => { out.entry(("[Dyn]", format!("{:?}", &**h))).or_default().insert(addr(h)); for k in h.iter() { handles_of(k, out); } }
        V::HandleStr(h) => { out.entry(("str", h.to_string())).or_default().insert(addr(h)); }
        V::HandlePath(h) => { out.entry(("Path", format!("{:?}", &**h))).or_default().insert(addr(h)); }
        V::HandleString(h) => { out.entry(("String", (**h).clone())).or_default().insert(addr(h)); }
        V::HandleW(h) => { out.entry(("W", h.0.clone())).or_default().insert(addr(h)); }
        _ => {}
    }
}
/// (type, content) classes of `d` whose handles do not all share one allocation
fn unshared(d: &Dyn) -> Vec<String> {
    let mut m = BTreeMap::new();
    handles_of(d, &mut m);
    m.into_iter().filter(|(_, a)| a.len() > 1).map(|((t, c), a)| format!("Interned<{}> {:.40}: {} allocations", t, c, a.len())).collect()
}

/// The content hashes of equal text under the three leaf handle types, computed by the REAL hasher
/// of the interner (`Interner::hash_128`), and the `STABLE_TYPE_ID`s: the premise of the cross-type cases.
pub fn hash_collisions() -> J {
    let i = new_interner();
    let mut rows = vec![];
    let mut all = true;
    for text in ["ha", "hello", "", "h\u{e9}llo \u{2713}"] {
        let (hs, ht, hw) = (i.hash_128::<str>(text), i.hash_128(&text.to_string()), i.hash_128(&W(text.to_string())));
        let hp = i.hash_128::<Path>(Path::new(text));
        let eq = hs == ht && ht == hw;
        all &= eq;
        rows.push(json!({"text": text, "str": format!("{:?}", hs), "String": format!("{:?}", ht), "W": format!("{:?}", hw), "Path": format!("{:?}", hp),
            "str_eq_String_eq_W": eq, "Path_eq_str": hp == hs}));
    }
    let ids = [format!("{:?}", <str as Identifiable>::STABLE_TYPE_ID), format!("{:?}", <String as Identifiable>::STABLE_TYPE_ID), format!("{:?}", <W as Identifiable>::STABLE_TYPE_ID)];
    let distinct_ids = ids[0] != ids[1] && ids[1] != ids[2] && ids[0] != ids[2];
    json!({"equal_hash_str_String_W": all, "distinct_type_ids": distinct_ids, "type_ids": ids, "rows": rows})
}

fn leaves_of(t: &Ty, out: &mut BTreeSet<String>) {
    match t {
        Ty::Leaf(l) => { out.insert(l.name().into()); }
        Ty::Un(u, a) => { out.insert(u.name().into()); leaves_of(a, out); }
        Ty::Bin(b, x, y) => { out.insert(b.name().into()); leaves_of(x, out); leaves_of(y, out); }
        Ty::Tup(v) => { out.insert("Tuple".into()); for x in v { leaves_of(x, out); } }
    }
}

fn short_dbg<T: std::fmt::Debug>(x: &T) -> String {
    let s = format!("{:?}", x);
    if s.len() > 1500 { format!("{}…({} chars)", &s[..s.char_indices().nth(1500).map(|x| x.0).unwrap_or(s.len())], s.len()) } else { s }
}

/// Runs one behaviour; returns (ok, steps json, first failure json).
/// `ops`: {"op":"enc","v":i,"x":{"len":n,"sr":"SR.."}} | {"op":"dec","x":{"v":i,"pos":n,"fail":b,"sr":".."}}
///        | {"op":"restart"} | {"op":"droporig"} | {"op":"dropdec"}     (indices 1-based, as in TLA+)
pub fn run_behaviour(pool_spec: &[J], ops: &[J], seed: u64) -> J {
    let mut w = World::new();
    let mut pool: Vec<Option<Dyn>> = vec![];
    let mut pool_txt: Vec<String> = vec![];
    let mut tys: Vec<Arc<Ty>> = vec![];
    for p in pool_spec {
        let r = if !p["t"].is_null() {
            parse_term(&p["t"]).and_then(|t| Gen { interner: &w.interner, seed }.make(&t, 0))
        } else { build_handles(&w, &p["h"]) };
        match r {
            Ok(d) => { tys.push(d.ty.clone()); pool_txt.push(format!("{:?}", d)); pool.push(Some(d)); }
            Err(e) => return json!({"ok": false, "tool_error": format!("cannot build pool value: {}", e)}),
        }
    }
    // Sharing is only promised among handles that came from `Interner::intern*`: an original made with
    // new_duplicating lives on inside registered originals (and in decoded values `intern` resolved to them).
    fn has_dup(p: &J) -> bool {
        fn term(t: &J) -> bool { t.as_array().map(|a| a.get(1).map(|c| class_string(c).starts_with("dup")).unwrap_or(false) || a.iter().skip(2).any(term)).unwrap_or(false) }
        if !p["t"].is_null() { term(&p["t"]) } else { p["h"]["reg"].as_object().map(|m| m.values().any(|v| v == "dup")).unwrap_or(false) }
    }
    let all_registered = !pool_spec.iter().any(has_dup);
    let mut steps = vec![];
    let mut fail: Option<J> = None;
    let mut drift: Vec<J> = vec![];
    let mut queue: VecDeque<usize> = VecDeque::new(); // harness-side record of what was written (pool idx)
    let mut kept: Vec<Dyn> = vec![];
    let mut ndec = 0usize;
    for (si, op) in ops.iter().enumerate() {
        let name = op["op"].as_str().unwrap_or("");
        let x = &op["x"];
        match name {
            "enc" => {
                let i = op["v"].as_u64().unwrap_or(0) as usize;
                let Some(Some(v)) = pool.get(i.wrapping_sub(1)) else { return json!({"ok": false, "tool_error": format!("enc of unavailable pool value {}", i)}); };
                // the representation the value is encoded from (see "Layouts"); ops without the field: op index
                let lay = (op["lay"].as_u64().unwrap_or(si as u64) + seed) % 3;
                set_layout(lay);
                let (o, end, sr) = w.encode(v);
                set_layout(0);
                let ok = matches!(o, Outcome::Ok(()));
                steps.push(json!({"op": "enc", "v": i, "end": end, "sr": sr, "ok": ok, "lay": lay}));
                if !ok {
                    fail = Some(json!({"step": si + 1, "kind": match o { Outcome::Panic(_) => "encode_panic", _ => "encode_error" }, "msg": format!("{:?}", o), "v": i, "ty": tys[i - 1].show(), "value": short_dbg(v)}));
                    break;
                }
                queue.push_back(i);
                if let Some(n) = x["len"].as_u64() { if n as usize != w.ends.len() { drift.push(json!({"step": si + 1, "what": "stream length", "model": n, "impl": w.ends.len()})); } }
                if let Some(m) = x["sr"].as_str() { if m != sr { drift.push(json!({"step": si + 1, "what": "inline/reference pattern at encode", "model": m, "impl": sr})); } }
            }
            "dec" => {
                // the EXPECTATION comes from the model's FIFO state
                let want_i = x["v"].as_u64().unwrap_or(0) as usize;
                let want_pos = x["pos"].as_u64().unwrap_or(0) as usize;
                let model_fail = x["fail"].as_bool().unwrap_or(false);
                if want_i == 0 || want_i > tys.len() || want_pos == 0 || want_pos > w.ends.len() {
                    return json!({"ok": false, "tool_error": format!("dec expectation out of range at step {}", si + 1)});
                }
                let hq = queue.pop_front();
                let (o, pos, sr) = w.decode(&tys[want_i - 1]);
                ndec += 1;
                let want_end = w.ends[want_pos - 1];
                let (ok, kind, got) = match &o {
                    Outcome::Ok(d) => {
                        // originals may have been dropped: then compare with the Debug text taken when they were built
                        let eq = match pool[want_i - 1].as_ref() { Some(o) => o == d, None => pool_txt[want_i - 1] == format!("{:?}", d) };
                        match eq {
                            false => (false, "value_mismatch", short_dbg(d)),
                            _ if pos != want_end => (false, "pos_mismatch", short_dbg(d)),
                            _ => (true, "", String::new()),
                        }
                    }
                    Outcome::Err(e) => (false, "decode_error", e.clone()),
                    Outcome::Panic(e) => (false, "decode_panic", e.clone()),
                };
                steps.push(json!({"op": "dec", "want": want_i, "pos": pos, "want_end": want_end, "sr": sr, "ok": ok, "kind": kind, "model_fail": model_fail}));
                if hq != Some(want_i) { drift.push(json!({"step": si + 1, "what": "FIFO head", "model": want_i, "harness_queue": hq})); }
                if ok { if let Some(m) = x["sr"].as_str() { if m != sr { drift.push(json!({"step": si + 1, "what": "inline/reference pattern at decode", "model": m, "impl": sr})); } } }
                if ok && model_fail { drift.push(json!({"step": si + 1, "what": "model predicted a decode failure, implementation succeeded"})); }
                if let (Outcome::Ok(d), true) = (&o, all_registered) {
                    let u = unshared(d);
                    if ok && !u.is_empty() { drift.push(json!({"step": si + 1, "what": "sharing per type: equal (type, content) handles of one decoded value are different allocations", "impl": u})); }
                }
                if let Outcome::Ok(d) = o { kept.push(d); }
                if !ok {
                    let mut ls = BTreeSet::new();
                    leaves_of(&tys[want_i - 1], &mut ls);
                    fail = Some(json!({"step": si + 1, "kind": kind, "v": want_i, "ty": tys[want_i - 1].show(), "ctors": ls,
                        "value": short_dbg(&pool_txt[want_i - 1]), "got": got, "pos": pos, "want_end": want_end,
                        "bytes": w.buf.borrow()[(if want_pos >= 2 { w.ends[want_pos - 2] } else { 0 })..want_end].iter().take(64).map(|b| format!("{:02x}", b)).collect::<String>(),
                        "model_fail": model_fail, "ref": w.last_ref}));
                    break;
                }
            }
            "restart" => { w.restart(); steps.push(json!({"op": "restart"})); }
            "droporig" => { for p in pool.iter_mut() { *p = None; } steps.push(json!({"op": "droporig"})); }
            "dropdec" => { kept.clear(); steps.push(json!({"op": "dropdec"})); }
            "vacuum" => { w.interner.vacuum(); steps.push(json!({"op": "vacuum"})); }
            o => return json!({"ok": false, "tool_error": format!("unknown op {}", o)}),
        }
    }
    // at the end: everything decoded <=> position = length
    if fail.is_none() && ndec == w.ends.len() && w.rpos.get() != w.len() {
        fail = Some(json!({"step": ops.len(), "kind": "final_pos", "pos": w.rpos.get(), "len": w.len()}));
    }
    json!({"ok": fail.is_none(), "steps": steps, "fail": fail, "drift": drift, "bytes": w.len()})
}


// ---------------------------------------------------------------------------
// Layouts.  The abstract value of a container (V::Seq / V::Set / V::Map) does
// not say how the concrete Rust value was built, and the round trip must not
// depend on it: a VecDeque whose ring buffer has wrapped, a HashMap filled in
// another order into a larger table, a Vec with spare capacity are all the
// same value.  Every "enc" op of a behaviour carries a layout index (field
// `lay` of the op, chosen in Codec.tla; shifted by the seed); the concrete
// containers of that encode are built accordingly:
//   0  collect() from the elements in order (contiguous, exact capacity)
//   1  built by a history: ring buffer filled from both ends (front half by
//      push_front), hash tables over-sized and filled in reverse order,
//      linked lists grown at the head
//   2  ring buffer whose head was moved by queue traffic before the elements
//      were pushed (wraps at the end of the allocation), hash tables filled
//      in order and then shrunk
// ---------------------------------------------------------------------------
thread_local! {
    static LAYOUT: std::cell::Cell<u64> = const { std::cell::Cell::new(0) };
}
/// number of VecDeque values handed to the encoder whose ring buffer was wrapped (anti-vacuity, evidence)
pub static WRAPPED_DEQUES: std::sync::atomic::AtomicU64 = std::sync::atomic::AtomicU64::new(0);
pub fn set_layout(l: u64) { LAYOUT.with(|c| c.set(l % 3)); }
pub fn layout() -> u64 { LAYOUT.with(|c| c.get()) }

pub fn deque_with_layout<T: Clone>(items: &[T], lay: u64) -> VecDeque<T> {
    let n = items.len();
    let d = match lay % 3 {
        0 => items.iter().cloned().collect::<VecDeque<T>>(),
        1 => {
            let mut d = VecDeque::with_capacity(n);
            let h = n / 2;
            for x in items[h..].iter() { d.push_back(x.clone()); }
            for x in items[..h].iter().rev() { d.push_front(x.clone()); }
            d
        }
        _ => {
            let mut d = VecDeque::with_capacity(n);
            if n > 0 {
                // queue traffic: move the head into the middle of the allocation
                let k = d.capacity() - (n / 2).max(1).min(d.capacity());
                for _ in 0..k { d.push_back(items[0].clone()); }
                for _ in 0..k { d.pop_front(); }
                for x in items { d.push_back(x.clone()); }
            }
            d
        }
    };
    debug_assert!(d.iter().count() == n);
    if !d.as_slices().1.is_empty() { WRAPPED_DEQUES.fetch_add(1, std::sync::atomic::Ordering::Relaxed); }
    d
}
fn lay_deque(items: &[Dyn]) -> VecDeque<Dyn> { deque_with_layout(items, layout()) }
fn lay_list(items: &[Dyn]) -> LinkedList<Dyn> {
    if layout() == 0 { items.iter().cloned().collect() } else { let mut l = LinkedList::new(); for x in items.iter().rev() { l.push_front(x.clone()); } l }
}
fn lay_vec(items: &[Dyn]) -> Vec<Dyn> {
    if layout() == 0 { items.to_vec() } else { let mut v = Vec::with_capacity(2 * items.len() + 8); v.extend(items.iter().cloned()); v }
}
/// insertion order of ordered sets (the tree is built by another history, the value is the same)
fn lay_order(items: &[Dyn]) -> Vec<Dyn> {
    let mut v = items.to_vec();
    if layout() == 1 { v.reverse(); }
    v
}
fn lay_hashset<S: std::hash::BuildHasher + Default>(items: &[Dyn]) -> HashSet<Dyn, S> {
    match layout() {
        0 => items.iter().cloned().collect(),
        1 => { let mut h = HashSet::with_capacity_and_hasher(4 * items.len() + 16, S::default()); for x in items.iter().rev() { h.insert(x.clone()); } h }
        _ => { let mut h = HashSet::with_capacity_and_hasher(8 * items.len() + 64, S::default()); for x in items { h.insert(x.clone()); } h.shrink_to_fit(); h }
    }
}
fn lay_hashmap<S: std::hash::BuildHasher + Default>(items: &[(Dyn, Dyn)]) -> HashMap<Dyn, Dyn, S> {
    match layout() {
        0 => items.iter().cloned().collect(),
        1 => { let mut h = HashMap::with_capacity_and_hasher(4 * items.len() + 16, S::default()); for (k, v) in items.iter().rev() { h.insert(k.clone(), v.clone()); } h }
        _ => { let mut h = HashMap::with_capacity_and_hasher(8 * items.len() + 64, S::default()); for (k, v) in items { h.insert(k.clone(), v.clone()); } h.shrink_to_fit(); h }
    }
}

// ---------------------------------------------------------------------------
// Sweeps over statically typed values (no Dyn in the path): exhaustive 8/16
// bit domains, all chars, every varint boundary of the wider types, seeded
// random values; and a list of ordinary static container types.
// All values of one sweep are written back to back into ONE buffer.
// ---------------------------------------------------------------------------

pub struct Rng(pub u64);
impl Rng {
    pub fn next(&mut self) -> u64 { self.0 ^= self.0 << 13; self.0 ^= self.0 >> 7; self.0 ^= self.0 << 17; self.0.wrapping_mul(0x2545_F491_4F6C_DD1D) }
    pub fn below(&mut self, n: u64) -> u64 { self.next() % n.max(1) }
    pub fn u128(&mut self) -> u128 { ((self.next() as u128) << 64) | self.next() as u128 }
    /// integers biased to varint boundaries and short lengths
    pub fn wire(&mut self, w: u32) -> u128 {
        let r = self.u128();
        match self.below(4) {
            0 => r & mask(w),
            1 => { let k = 1 + self.below(((w - 1) / 7) as u64) as u32; ((1u128 << (7 * k)).wrapping_add((r % 5).wrapping_sub(2))) & mask(w) }
            2 => { let bits = 1 + self.below(w as u64) as u32; r & mask(bits) }
            _ => mask(w).wrapping_sub(r % 3),
        }
    }
}

pub fn sweep_back_to_back<T: Encode + Decode>(name: &str, vals: &[T], same: impl Fn(&T, &T) -> bool, show: impl Fn(&T) -> String, plugin: &Plugin) -> J {
    let mut enc = PostcardEncoder::new(Vec::<u8>::new());
    let mut ends = Vec::with_capacity(vals.len());
    for v in vals {
        if let Err(e) = enc.encode(v, plugin) { return json!({"type": name, "n": vals.len(), "failures": [{"kind": "encode_error", "value": show(v), "msg": e.to_string()}]}); }
        ends.push(enc.get_ref().len());
    }
    let buf = enc.into_inner();
    let mut dec = PostcardDecoder::new(&buf[..]);
    let mut failures = vec![];
    let mut nfail = 0u64;
    for (i, v) in vals.iter().enumerate() {
        let r = std::panic::catch_unwind(std::panic::AssertUnwindSafe(|| dec.decode::<T>(plugin)));
        let pos = buf.len() - dec.get_ref().len();
        let (ok, kind, got) = match r {
            Ok(Ok(d)) => if !same(v, &d) { (false, "value_mismatch", show(&d)) } else if pos != ends[i] { (false, "pos_mismatch", show(&d)) } else { (true, "", String::new()) },
            Ok(Err(e)) => (false, "decode_error", e.to_string()),
            Err(p) => (false, "decode_panic", panic_msg(p)),
        };
        if !ok {
            nfail += 1;
            if failures.len() < 5 { failures.push(json!({"kind": kind, "index": i, "value": show(v), "got": got, "pos": pos, "want_end": ends[i]})); }
            // the stream is out of step after a failure: resynchronise at the recorded end
            dec = PostcardDecoder::new(&buf[ends[i]..]);
        }
    }
    let fin = buf.len() - dec.get_ref().len();
    json!({"type": name, "n": vals.len(), "bytes": buf.len(), "nfail": nfail, "failures": failures, "final_pos_ok": fin == buf.len()})
}

macro_rules! sweep_int {
    ($out:expr, $plugin:expr, $rng:expr, $n:expr, $t:ty, $w:expr, $signed:expr) => {{
        let w: u32 = $w;
        let mut wires: Vec<u128> = vec![];
        if w <= 16 { for x in 0..=mask(w) { wires.push(x); } } else {
            let mut k = 0; while 7 * k < w { let b = 1u128 << (7 * k); for d in [-2i32, -1, 0, 1, 2] { wires.push(b.wrapping_add(d as u128) & mask(w)); } k += 1; }
            for d in 0..3u128 { wires.push(d); wires.push(mask(w) - d); wires.push((mask(w) >> 1).wrapping_add(d) & mask(w)); wires.push((mask(w) >> 1).wrapping_sub(d)); }
            for _ in 0..$n { wires.push($rng.wire(w)); }
        }
        // signed: the wire value is the zig-zag image, so both signs of every boundary are covered;
        // plus the plain two's-complement reading of the same bit patterns
        let vals: Vec<$t> = if $signed {
            let mut v: Vec<$t> = wires.iter().map(|&u| { let h = (u >> 1) as i128; (if u & 1 == 1 { -h - 1 } else { h }) as $t }).collect();
            if w > 16 { v.extend(wires.iter().map(|&u| u as $t)); }
            v
        } else { wires.iter().map(|&u| u as $t).collect() };
        $out.push(sweep_back_to_back::<$t>(stringify!($t), &vals, |a, b| a == b, |a| format!("{:?}", a), $plugin));
    }};
}

pub trait Arb: Sized { fn arb(r: &mut Rng, depth: u32) -> Self; }
macro_rules! arb_int { ($($t:ty : $w:expr),*) => { $(impl Arb for $t { fn arb(r: &mut Rng, _d: u32) -> Self { r.wire($w) as $t } })* } }
arb_int!(u8: 8, u16: 16, u32: 32, u64: 64, u128: 128, usize: 64, i8: 8, i16: 16, i32: 32, i64: 64, i128: 128, isize: 64);
impl Arb for bool { fn arb(r: &mut Rng, _d: u32) -> Self { r.below(2) == 1 } }
impl Arb for () { fn arb(_r: &mut Rng, _d: u32) -> Self {} }
impl Arb for char { fn arb(r: &mut Rng, _d: u32) -> Self { char::from_u32(r.wire(21) as u32).unwrap_or('\u{fffd}') } }
impl Arb for f64 { fn arb(r: &mut Rng, _d: u32) -> Self { let f = f64::from_bits(r.next()); if f.is_nan() { -0.0 } else { f } } }
impl Arb for String { fn arb(r: &mut Rng, d: u32) -> Self { let n = [0, 1, 3, 127, 128, 200][r.below(6) as usize]; (0..n).map(|_| char::arb(r, d)).collect() } }
impl Arb for Box<str> { fn arb(r: &mut Rng, d: u32) -> Self { String::arb(r, d).into_boxed_str() } }
impl Arb for UnitS { fn arb(_r: &mut Rng, _d: u32) -> Self { UnitS } }
fn arb_len(r: &mut Rng, d: u32) -> usize { if d == 0 { [0usize, 1, 2, 127, 128, 129][r.below(6) as usize] } else { r.below(4) as usize } }
impl<T: Arb> Arb for Vec<T> { fn arb(r: &mut Rng, d: u32) -> Self { (0..arb_len(r, d)).map(|_| T::arb(r, d + 1)).collect() } }
impl<T: Arb + Clone> Arb for VecDeque<T> { fn arb(r: &mut Rng, d: u32) -> Self { let v = Vec::<T>::arb(r, d); let l = r.below(3); deque_with_layout(&v, l) } }
impl<T: Arb> Arb for LinkedList<T> { fn arb(r: &mut Rng, d: u32) -> Self { Vec::<T>::arb(r, d).into_iter().collect() } }
impl<T: Arb> Arb for Box<[T]> { fn arb(r: &mut Rng, d: u32) -> Self { Vec::<T>::arb(r, d).into_boxed_slice() } }
impl<T: Arb + Ord> Arb for BTreeSet<T> { fn arb(r: &mut Rng, d: u32) -> Self { Vec::<T>::arb(r, d).into_iter().collect() } }
impl<T: Arb + Eq + std::hash::Hash> Arb for HashSet<T> { fn arb(r: &mut Rng, d: u32) -> Self { Vec::<T>::arb(r, d).into_iter().collect() } }
impl<K: Arb + Ord, U: Arb> Arb for BTreeMap<K, U> { fn arb(r: &mut Rng, d: u32) -> Self { Vec::<(K, U)>::arb(r, d).into_iter().collect() } }
impl<K: Arb + Eq + std::hash::Hash, U: Arb> Arb for HashMap<K, U> { fn arb(r: &mut Rng, d: u32) -> Self { Vec::<(K, U)>::arb(r, d).into_iter().collect() } }
impl<T: Arb> Arb for Option<T> { fn arb(r: &mut Rng, d: u32) -> Self { if r.below(3) == 0 { None } else { Some(T::arb(r, d + 1)) } } }
impl<T: Arb, E: Arb> Arb for Result<T, E> { fn arb(r: &mut Rng, d: u32) -> Self { if r.below(2) == 0 { Ok(T::arb(r, d + 1)) } else { Err(E::arb(r, d + 1)) } } }
impl<T: Arb> Arb for Box<T> { fn arb(r: &mut Rng, d: u32) -> Self { Box::new(T::arb(r, d)) } }
impl<T: Arb> Arb for Rc<T> { fn arb(r: &mut Rng, d: u32) -> Self { Rc::new(T::arb(r, d)) } }
impl<T: Arb> Arb for Arc<T> { fn arb(r: &mut Rng, d: u32) -> Self { Arc::new(T::arb(r, d)) } }
impl<T: Arb, const N: usize> Arb for [T; N] { fn arb(r: &mut Rng, d: u32) -> Self { std::array::from_fn(|_| T::arb(r, d + 1)) } }
impl<T: Arb> Arb for std::ops::Range<T> { fn arb(r: &mut Rng, d: u32) -> Self { T::arb(r, d)..T::arb(r, d) } }
impl<T: Arb> Arb for std::ops::RangeInclusive<T> { fn arb(r: &mut Rng, d: u32) -> Self { T::arb(r, d)..=T::arb(r, d) } }
impl<T: Arb> Arb for std::ops::Bound<T> { fn arb(r: &mut Rng, d: u32) -> Self { match r.below(3) { 0 => std::ops::Bound::Unbounded, 1 => std::ops::Bound::Included(T::arb(r, d)), _ => std::ops::Bound::Excluded(T::arb(r, d)) } } }
impl<T: Arb + Clone> Arb for Cow<'static, [T]> { fn arb(r: &mut Rng, d: u32) -> Self { Cow::Owned(Vec::<T>::arb(r, d)) } }
impl<T: Arb> Arb for GS<T> { fn arb(r: &mut Rng, d: u32) -> Self { GS { a: T::arb(r, d + 1), skipped: 0, b: T::arb(r, d + 1) } } }
impl<T: Arb> Arb for GE<T> { fn arb(r: &mut Rng, d: u32) -> Self { match r.below(4) { 0 => GE::U, 1 => GE::T1(T::arb(r, d + 1)), 2 => GE::N { x: T::arb(r, d + 1), s: 0, y: T::arb(r, d + 1) }, _ => GE::T2(0, T::arb(r, d + 1)) } } }
impl<T: Arb, U: Arb> Arb for GS2<T, U> { fn arb(r: &mut Rng, d: u32) -> Self { GS2 { t: T::arb(r, d + 1), u: U::arb(r, d + 1), z: String::new() } } }
impl<T: Arb, U: Arb> Arb for GE2<T, U> { fn arb(r: &mut Rng, d: u32) -> Self { match r.below(4) { 0 => GE2::L(T::arb(r, d + 1)), 1 => GE2::R(U::arb(r, d + 1)), 2 => GE2::B { t: T::arb(r, d + 1), u: U::arb(r, d + 1) }, _ => GE2::Z } } }
macro_rules! arb_tuple { ($($n:ident),+) => { impl<$($n: Arb),+> Arb for ($($n,)+) { fn arb(r: &mut Rng, d: u32) -> Self { ($($n::arb(r, d + 1),)+) } } } }
arb_tuple!(A);
arb_tuple!(A, B);
arb_tuple!(A, B, C);
arb_tuple!(A, B, C, D);
arb_tuple!(A, B, C, D, E, F, G, H, I, J, K, L);

macro_rules! sweep_static {
    ($out:expr, $plugin:expr, $rng:expr, $n:expr, $($t:ty),+ $(,)?) => { $( {
        let vals: Vec<$t> = (0..$n).map(|_| <$t as Arb>::arb($rng, 0)).collect();
        $out.push(sweep_back_to_back::<$t>(stringify!($t), &vals, |a, b| a == b, |a| short_dbg(a), $plugin));
    } )+ };
}

pub fn sweeps(seed: u64, n: usize) -> Vec<J> {
    let plugin = Plugin::new();
    let mut rng = Rng(seed.wrapping_mul(0x9E37_79B9_7F4A_7C15) | 1);
    let mut out = vec![];
    sweep_int!(out, &plugin, rng, n, u8, 8, false);
    sweep_int!(out, &plugin, rng, n, i8, 8, true);
    sweep_int!(out, &plugin, rng, n, u16, 16, false);
    sweep_int!(out, &plugin, rng, n, i16, 16, true);
    sweep_int!(out, &plugin, rng, n, u32, 32, false);
    sweep_int!(out, &plugin, rng, n, i32, 32, true);
    sweep_int!(out, &plugin, rng, n, u64, 64, false);
    sweep_int!(out, &plugin, rng, n, i64, 64, true);
    sweep_int!(out, &plugin, rng, n, u128, 128, false);
    sweep_int!(out, &plugin, rng, n, i128, 128, true);
    sweep_int!(out, &plugin, rng, n, usize, 64, false);
    sweep_int!(out, &plugin, rng, n, isize, 64, true);
    out.push(sweep_back_to_back::<bool>("bool", &[false, true, true, false], |a, b| a == b, |a| format!("{:?}", a), &plugin));
    let chars: Vec<char> = (0..=0x10FFFFu32).filter_map(char::from_u32).collect();
    out.push(sweep_back_to_back::<char>("char(all scalar values)", &chars, |a, b| a == b, |a| format!("{:?}", a), &plugin));
    let mut f32s: Vec<f32> = [0u32, 0x8000_0000, 1, 0x7f7f_ffff, 0xff7f_ffff, 0x7f80_0000, 0xff80_0000, 0x7fc0_0000, 0x7f80_0001, 0xffc1_2345, 0x3f80_0000].iter().map(|b| f32::from_bits(*b)).collect();
    for _ in 0..n { f32s.push(f32::from_bits(rng.next() as u32)); }
    out.push(sweep_back_to_back::<f32>("f32(bits)", &f32s, |a, b| a.to_bits() == b.to_bits(), |a| format!("{:#x}", a.to_bits()), &plugin));
    let mut f64s: Vec<f64> = [0u64, 1 << 63, 1, 0x7fef_ffff_ffff_ffff, 0x7ff0_0000_0000_0000, 0xfff0_0000_0000_0000, 0x7ff8_0000_0000_0000, 0x7ff0_0000_0000_0001, 0xfff8_1234_5678_9abc].iter().map(|b| f64::from_bits(*b)).collect();
    for _ in 0..n { f64s.push(f64::from_bits(rng.next())); }
    out.push(sweep_back_to_back::<f64>("f64(bits)", &f64s, |a, b| a.to_bits() == b.to_bits(), |a| format!("{:#x}", a.to_bits()), &plugin));
    let m = (n / 50).max(20);
    sweep_static!(out, &plugin, &mut rng, m,
        String, Box<str>, Vec<u8>, Vec<()>, Vec<UnitS>, Option<()>, Option<Option<bool>>,
        Vec<Option<(u8, String)>>, HashMap<String, Vec<i64>>, BTreeMap<u16, Box<str>>,
        (u8, u16, u32, u64, u128, usize, i8, i16, i32, i64, i128, isize),
        [u16; 5], [String; 2], [u8; 0], Result<Vec<u8>, String>, VecDeque<char>, LinkedList<i32>,
        Arc<Vec<Rc<Box<u32>>>>, Cow<'static, [u8]>, std::ops::Range<i64>, std::ops::RangeInclusive<u8>,
        std::ops::Bound<String>, BTreeSet<i128>, HashSet<u64>, Box<[u16]>, Vec<f64>,
        GS<u32>, GE<String>, GS2<u8, Vec<u8>>, GE2<(), String>, GS<GE<Vec<GS2<i16, bool>>>>,
        Vec<Vec<Vec<u8>>>, BTreeMap<String, BTreeMap<u8, Vec<Option<i8>>>>, Option<Box<(char, bool, ())>>);
    out
}
