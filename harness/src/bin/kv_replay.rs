//! C11 - replay of TLC-generated behaviours of `specs/KvStore.tla` on the real
//! store backends (RocksDB, Fjall) and on the harness' MemKv (control).
//!
//! Input: ndjson, one behaviour per line as printed by `KvStoreGen.tla`
//! (events with the reference's expectation for every read and the complete
//! committed content after every commit / drop / reopen).  Abstract keys
//! K1..K4, value types V1/V2, values 1/2 and elements E1..E3 are mapped to
//! concrete Rust values by a *family* (see `families` below); each family has
//! its own four column types W1 (Prefixed), W2 (Suffixed), S1, S2.
//!
//! For every mismatch the harness also evaluates an AS-IS model of the
//! backend's byte-level key scheme (plain concatenation of encoded
//! discriminant and encoded key; fjall's "empty key -> [0]" substitution).
//! A wrong read that the as-is model predicts exactly, and for which a second
//! logical cell with the same physical key exists, is reported with kind
//! `alias` and the colliding pair (that is the known-finding signature);
//! every other wrong read is reported with kind `violation`.
//!
//! Events `commit` / `drop` / `reopen` are followed by a comparison of the
//! complete content unless they carry `"q": true` (quiet); `sweep` is that
//! comparison as an event of its own.  The "first touch after open" family
//! of `KvStoreGen.tla` (FTSpec) uses quiet reopens so that the operation
//! after the open is the first one that resolves its column family.
//!
//! `--mode atomic`: a writer commits batches {put A=i, many fillers, put B=i}
//! while a reader repeatedly reads A and then B; `B < A` means the reader saw
//! a part of a batch.

use std::{
    collections::{BTreeMap, BTreeSet},
    fmt::Debug,
    hash::Hash,
    io::{BufRead, Write},
    panic::{AssertUnwindSafe, catch_unwind},
    path::{Path, PathBuf},
    sync::{
        Arc, Mutex,
        atomic::{AtomicBool, AtomicU64, AtomicUsize, Ordering},
    },
};

use qbice_serialize::{
    Decode, Decoder, Encode, Encoder, Plugin, PostcardDecoder,
    session::Session,
};
use qbice_stable_type_id::Identifiable;
use qbice_storage::kv_database::{
    DiscriminantEncoding, KeyOfSetColumn, KvDatabase, SerializationBuffer,
    WideColumn, WideColumnValue, WriteBatch, fjall::Fjall, rocksdb::RocksDB,
};
use serde_json::{Value, json};
use vh::{
    memkv::{self, Grouping, MemKv, Store},
    util,
};

// ---------------------------------------------------------------------------
// abstract <-> concrete values
// ---------------------------------------------------------------------------

/// A concrete value type standing for abstract values 1 and 2.
trait AbsVal: Sized {
    fn mk(v: u8) -> Self;
    /// abstract value of a decoded concrete value (99 = none of ours)
    fn abs(&self) -> u8;
    /// value types with a single inhabitant map both abstract values to 1
    fn canon(v: u8) -> u8 { v }
}

#[derive(Debug, Clone, PartialEq, Eq, Encode, Decode)]
#[serialize_crate(qbice_serialize)]
pub struct ValA(u64);
impl AbsVal for ValA {
    fn mk(v: u8) -> Self { Self(if v == 1 { 0 } else { u64::MAX }) }
    fn abs(&self) -> u8 {
        match self.0 {
            0 => 1,
            u64::MAX => 2,
            _ => 99,
        }
    }
}

/// byte payload; value 1 is the empty vector (same bytes as `ValA(0)`),
/// value 2 is three kilobytes of 0xFF.
#[derive(Debug, Clone, PartialEq, Eq, Encode, Decode)]
#[serialize_crate(qbice_serialize)]
pub struct ValB(Vec<u8>);
impl AbsVal for ValB {
    fn mk(v: u8) -> Self { Self(if v == 1 { vec![] } else { vec![0xFF; 3000] }) }
    fn abs(&self) -> u8 {
        if self.0.is_empty() {
            1
        } else if self.0.len() == 3000 && self.0.iter().all(|b| *b == 0xFF) {
            2
        } else {
            99
        }
    }
}

#[derive(Debug, Clone, PartialEq, Eq, Encode, Decode)]
#[serialize_crate(qbice_serialize)]
pub struct ValS(String);
impl AbsVal for ValS {
    fn mk(v: u8) -> Self { Self(if v == 1 { "\u{0}".into() } else { "\u{10FFFF}\u{7f}".into() }) }
    fn abs(&self) -> u8 {
        match self.0.as_str() {
            "\u{0}" => 1,
            "\u{10FFFF}\u{7f}" => 2,
            _ => 99,
        }
    }
}

/// value with an EMPTY encoding (like qbice's `Unit` in the dirty-set column)
#[derive(Debug, Clone, PartialEq, Eq, Encode, Decode)]
#[serialize_crate(qbice_serialize)]
pub struct ValU;
impl AbsVal for ValU {
    fn mk(_: u8) -> Self { Self }
    fn abs(&self) -> u8 { 1 }
    fn canon(v: u8) -> u8 { u8::from(v != 0) }
}

/// Key / element whose encoding is the raw bytes, without any framing:
/// encodings of different values can be prefixes / extensions of one another
/// and the empty vector has the empty encoding.  `KeyOfSetColumn::Key` only
/// requires `Encode`; `Decode` (needed for wide-column keys and for
/// elements) reads to the end of the input, which round-trips every value.
#[derive(Debug, Clone, PartialEq, Eq, Hash)]
pub struct Raw(Vec<u8>);
impl Encode for Raw {
    fn encode<E: Encoder + ?Sized>(
        &self,
        encoder: &mut E,
        _plugin: &Plugin,
        _session: &mut Session,
    ) -> std::io::Result<()> {
        encoder.emit_raw_bytes(&self.0)
    }
}
impl Decode for Raw {
    fn decode<D: Decoder + ?Sized>(
        decoder: &mut D,
        _plugin: &Plugin,
        _session: &mut Session,
    ) -> std::io::Result<Self> {
        let mut v = Vec::new();
        while let Ok(b) = decoder.read_u8() {
            v.push(b);
        }
        Ok(Self(v))
    }
}

// ---------------------------------------------------------------------------
// families
// ---------------------------------------------------------------------------

trait Fam: 'static {
    const NAME: &'static str;
    const NK: usize;
    const NV: usize;
    const NE: usize;
    type KW1: Encode + Decode + Debug + Hash + Eq + Clone + Send + Sync + 'static;
    type KW2: Encode + Decode + Debug + Hash + Eq + Clone + Send + Sync + 'static;
    type KS1: Encode + Debug + Hash + Eq + Clone + Send + Sync + 'static;
    type KS2: Encode + Debug + Hash + Eq + Clone + Send + Sync + 'static;
    type E1: Encode + Decode + Debug + Hash + Eq + Clone + Send + Sync + 'static;
    type E2: Encode + Decode + Debug + Hash + Eq + Clone + Send + Sync + 'static;
    type W1: WideColumn<Key = Self::KW1>;
    type W2: WideColumn<Key = Self::KW2>;
    type S1: KeyOfSetColumn<Key = Self::KS1, Element = Self::E1>;
    type S2: KeyOfSetColumn<Key = Self::KS2, Element = Self::E2>;
    type A1: WideColumnValue<Self::W1> + AbsVal;
    type B1: WideColumnValue<Self::W1> + AbsVal;
    type A2: WideColumnValue<Self::W2> + AbsVal;
    type B2: WideColumnValue<Self::W2> + AbsVal;
    fn kw1(i: usize) -> Self::KW1;
    fn kw2(i: usize) -> Self::KW2;
    fn ks1(i: usize) -> Self::KS1;
    fn ks2(i: usize) -> Self::KS2;
    fn e1(i: usize) -> Self::E1;
    fn e2(i: usize) -> Self::E2;
}

macro_rules! column_types {
    ($w1:ident, $w2:ident, $s1:ident, $s2:ident) => {
        #[derive(Debug, Clone, Copy, PartialEq, Eq, Hash, Identifiable)]
        #[stable_type_id_crate(qbice_stable_type_id)]
        pub struct $w1;
        #[derive(Debug, Clone, Copy, PartialEq, Eq, Hash, Identifiable)]
        #[stable_type_id_crate(qbice_stable_type_id)]
        pub struct $w2;
        #[derive(Debug, Clone, Copy, PartialEq, Eq, Hash, Identifiable)]
        #[stable_type_id_crate(qbice_stable_type_id)]
        pub struct $s1;
        #[derive(Debug, Clone, Copy, PartialEq, Eq, Hash, Identifiable)]
        #[stable_type_id_crate(qbice_stable_type_id)]
        pub struct $s2;
    };
}

/// A family whose four columns share one key type and one element type.
macro_rules! family {
    (
        $fam:ident, $name:literal, [$nk:expr, $nv:expr, $ne:expr],
        cols = ($w1:ident, $w2:ident, $s1:ident, $s2:ident),
        key = $kt:ty, $keyfn:expr,
        elem = $et:ty, $elemfn:expr,
        disc1 = $d1t:ty, ($d1a:expr, $d1b:expr),
        disc2 = $d2t:ty, ($d2a:expr, $d2b:expr),
        vals1 = ($a1:ty, $b1:ty),
        vals2 = ($a2:ty, $b2:ty)
    ) => {
        column_types!($w1, $w2, $s1, $s2);
        impl WideColumn for $w1 {
            type Discriminant = $d1t;
            type Key = $kt;
            fn discriminant_encoding() -> DiscriminantEncoding { DiscriminantEncoding::Prefixed }
        }
        impl WideColumn for $w2 {
            type Discriminant = $d2t;
            type Key = $kt;
            fn discriminant_encoding() -> DiscriminantEncoding { DiscriminantEncoding::Suffixed }
        }
        impl KeyOfSetColumn for $s1 {
            type Key = $kt;
            type Element = $et;
        }
        impl KeyOfSetColumn for $s2 {
            type Key = $kt;
            type Element = $et;
        }
        impl WideColumnValue<$w1> for $a1 {
            fn discriminant() -> $d1t { $d1a }
        }
        impl WideColumnValue<$w1> for $b1 {
            fn discriminant() -> $d1t { $d1b }
        }
        impl WideColumnValue<$w2> for $a2 {
            fn discriminant() -> $d2t { $d2a }
        }
        impl WideColumnValue<$w2> for $b2 {
            fn discriminant() -> $d2t { $d2b }
        }
        struct $fam;
        impl Fam for $fam {
            const NAME: &'static str = $name;
            const NK: usize = $nk;
            const NV: usize = $nv;
            const NE: usize = $ne;
            type KW1 = $kt;
            type KW2 = $kt;
            type KS1 = $kt;
            type KS2 = $kt;
            type E1 = $et;
            type E2 = $et;
            type W1 = $w1;
            type W2 = $w2;
            type S1 = $s1;
            type S2 = $s2;
            type A1 = $a1;
            type B1 = $b1;
            type A2 = $a2;
            type B2 = $b2;
            fn kw1(i: usize) -> $kt { ($keyfn)(i) }
            fn kw2(i: usize) -> $kt { ($keyfn)(i) }
            fn ks1(i: usize) -> $kt { ($keyfn)(i) }
            fn ks2(i: usize) -> $kt { ($keyfn)(i) }
            fn e1(i: usize) -> $et { ($elemfn)(i) }
            fn e2(i: usize) -> $et { ($elemfn)(i) }
        }
    };
}

// varint boundaries: 127 = [7F], 128 = [80 01]; u64::MAX = FF x9, 01
family!(FInt, "int", [4, 2, 3],
    cols = (IntW1, IntW2, IntS1, IntS2),
    key = u64, |i: usize| [0u64, 127, 128, u64::MAX][i],
    elem = u32, |i: usize| [0u32, 0x80, u32::MAX][i],
    disc1 = u8, (0, 1),
    disc2 = u8, (0, 1),
    vals1 = (ValA, ValB),
    vals2 = (ValS, ValB));

// length-prefixed byte vectors whose payloads are prefixes / extensions of
// one another; discriminants 0x00 and 0xFF
family!(FBytes, "bytes", [4, 2, 3],
    cols = (BytesW1, BytesW2, BytesS1, BytesS2),
    key = Vec<u8>, |i: usize| [vec![], vec![0u8], vec![0u8, 0], vec![0xFFu8, 0xFF, 0xFF]][i].clone(),
    elem = Vec<u8>, |i: usize| [vec![], vec![0u8], vec![0xFFu8]][i].clone(),
    disc1 = u8, (0, 0xFF),
    disc2 = u8, (0xFF, 0),
    vals1 = (ValB, ValA),
    vals2 = (ValA, ValB));

// fixed-width, 0xFF-heavy: no length byte in front of the key, so the scan
// prefix ends in a run of 0xFF and the upper bound carries into the length
family!(FFf, "ff", [4, 2, 3],
    cols = (FfW1, FfW2, FfS1, FfS2),
    key = [u8; 16], |i: usize| {
        let mut k = [0xFFu8; 16];
        match i { 1 => k[15] = 0xFE, 2 => k[0] = 0xFE, 3 => k[0] = 0, _ => {} }
        k
    },
    elem = [u8; 4], |i: usize| [[0xFFu8; 4], [0xFF, 0xFF, 0xFF, 0xFE], [0u8; 4]][i],
    disc1 = u8, (0xFF, 0xFE),
    disc2 = u8, (0xFF, 0xFE),
    vals1 = (ValA, ValB),
    vals2 = (ValB, ValS));

// (u64::MAX, u128::MAX)-style varints: 0xFF runs of different lengths
family!(FVarFf, "varff", [4, 2, 3],
    cols = (VarFfW1, VarFfW2, VarFfS1, VarFfS2),
    key = (u64, u128), |i: usize| [(u64::MAX, u128::MAX), (u64::MAX, 0), (u64::MAX >> 7, u128::MAX), (0, u128::MAX >> 1)][i],
    elem = u128, |i: usize| [u128::MAX, u128::MAX >> 7, 0x7F][i],
    disc1 = u64, (u64::MAX, u64::MAX >> 7),
    disc2 = u64, (u64::MAX, u64::MAX >> 7),
    vals1 = (ValA, ValS),
    vals2 = (ValB, ValA));

fn big(n: usize, fill: u8, last: Option<u8>) -> Vec<u8> {
    let mut v = vec![fill; n];
    if let Some(l) = last {
        *v.last_mut().unwrap() = l;
    }
    v
}

// multi-kilobyte keys and elements with long common prefixes
family!(FBig, "big", [4, 2, 3],
    cols = (BigW1, BigW2, BigS1, BigS2),
    key = Vec<u8>, |i: usize| match i {
        0 => big(5000, 0xAB, None),
        1 => big(5001, 0xAB, None),
        2 => big(5000, 0xAB, Some(0xAC)),
        _ => big(8000, 0xFF, None),
    },
    elem = Vec<u8>, |i: usize| match i {
        0 => big(3000, 0x11, None),
        1 => big(3001, 0x11, None),
        _ => big(3000, 0x11, Some(0x12)),
    },
    disc1 = u16, (300, 301),
    disc2 = u16, (300, 301),
    vals1 = (ValB, ValA),
    vals2 = (ValA, ValB));

type NestedKey = ((u8, Vec<u8>), Option<(u16, String)>, ());
// nested tuples whose flattened encodings share prefixes:
//   K1 = 00 00 00, K2 = 00 01 00 00, K3 = 00 00 01 00 00, K4 = 01 02 00 00 01 AC 02 02 C3 A9
family!(FNested, "nested", [4, 2, 3],
    cols = (NestedW1, NestedW2, NestedS1, NestedS2),
    key = NestedKey, |i: usize| -> NestedKey { match i {
        0 => ((0, vec![]), None, ()),
        1 => ((0, vec![0]), None, ()),
        2 => ((0, vec![]), Some((0, String::new())), ()),
        _ => ((1, vec![0, 0]), Some((300, "\u{e9}".into())), ()),
    }},
    elem = (Option<u8>, Vec<String>), |i: usize| -> (Option<u8>, Vec<String>) { match i {
        0 => (None, vec![]),
        1 => (Some(0), vec![]),
        _ => (None, vec![String::new()]),
    }},
    disc1 = (u8, bool), ((0, false), (0, true)),
    disc2 = ((), Option<u8>), (((), None), ((), Some(0))),
    vals1 = (ValS, ValB),
    vals2 = (ValA, ValU));

// the unit key: EMPTY key encoding (qbice's timestamp column has Key = ())
family!(FUnit, "unit", [1, 2, 3],
    cols = (UnitW1, UnitW2, UnitS1, UnitS2),
    key = (), |_i: usize| (),
    elem = u8, |i: usize| [0u8, 1, 0xFF][i],
    disc1 = u8, (0, 1),
    disc2 = u8, (0, 1),
    vals1 = (ValA, ValU),
    vals2 = (ValU, ValB));

// everything empty: key (), discriminant (), element (), value ValU - the
// composite keys are the empty string (wide) and eight zero bytes (set)
family!(FUnit0, "unit0", [1, 1, 1],
    cols = (Unit0W1, Unit0W2, Unit0S1, Unit0S2),
    key = (), |_i: usize| (),
    elem = (), |_i: usize| (),
    disc1 = (), ((), ()),
    disc2 = (), ((), ()),
    vals1 = (ValU, ValA),
    vals2 = (ValU, ValA));

// raw (unframed) keys with one-byte discriminants: the empty encoding, its
// fjall substitute [00], an extension of that, and 0xFF
family!(FRaw, "raw", [4, 2, 3],
    cols = (RawW1, RawW2, RawS1, RawS2),
    key = Raw, |i: usize| Raw([vec![], vec![0u8], vec![0u8, 0], vec![0xFFu8]][i].clone()),
    elem = Raw, |i: usize| Raw([vec![], vec![0u8], vec![0xFFu8, 0xFF]][i].clone()),
    disc1 = u8, (0, 1),
    disc2 = u8, (0, 1),
    vals1 = (ValA, ValB),
    vals2 = (ValA, ValB));

// raw keys with variable-length (varint) discriminants 1 = [01] and
// 129 = [81 01]: key [05] + [81 01] == key [05 81] + [01]
family!(FRawVar, "rawvar", [4, 2, 3],
    cols = (RawVarW1, RawVarW2, RawVarS1, RawVarS2),
    key = Raw, |i: usize| Raw([vec![5u8], vec![5u8, 0x81], vec![7u8], vec![0x81u8, 7]][i].clone()),
    elem = Raw, |i: usize| Raw([vec![0x81u8], vec![0x81u8, 1], vec![1u8]][i].clone()),
    disc1 = u32, (1, 129),
    disc2 = u32, (1, 129),
    vals1 = (ValA, ValB),
    vals2 = (ValA, ValB));

// strings vs byte vectors with identical encodings, in different columns
column_types!(SbW1, SbW2, SbS1, SbS2);
impl WideColumn for SbW1 {
    type Discriminant = String;
    type Key = String;
    fn discriminant_encoding() -> DiscriminantEncoding { DiscriminantEncoding::Prefixed }
}
impl WideColumn for SbW2 {
    type Discriminant = Vec<u8>;
    type Key = Vec<u8>;
    fn discriminant_encoding() -> DiscriminantEncoding { DiscriminantEncoding::Suffixed }
}
impl KeyOfSetColumn for SbS1 {
    type Key = String;
    type Element = Vec<u8>;
}
impl KeyOfSetColumn for SbS2 {
    type Key = Vec<u8>;
    type Element = String;
}
impl WideColumnValue<SbW1> for ValS {
    fn discriminant() -> String { "a".into() }
}
impl WideColumnValue<SbW1> for ValB {
    fn discriminant() -> String { "ab".into() }
}
impl WideColumnValue<SbW2> for ValS {
    fn discriminant() -> Vec<u8> { b"a".to_vec() }
}
impl WideColumnValue<SbW2> for ValB {
    fn discriminant() -> Vec<u8> { b"ab".to_vec() }
}
const SB: [&str; 4] = ["", "a", "ab", "a\u{1}b"];
struct FStrBytes;
impl Fam for FStrBytes {
    const NAME: &'static str = "strbytes";
    const NK: usize = 4;
    const NV: usize = 2;
    const NE: usize = 3;
    type KW1 = String;
    type KW2 = Vec<u8>;
    type KS1 = String;
    type KS2 = Vec<u8>;
    type E1 = Vec<u8>;
    type E2 = String;
    type W1 = SbW1;
    type W2 = SbW2;
    type S1 = SbS1;
    type S2 = SbS2;
    type A1 = ValS;
    type B1 = ValB;
    type A2 = ValS;
    type B2 = ValB;
    fn kw1(i: usize) -> String { SB[i].into() }
    fn kw2(i: usize) -> Vec<u8> { SB[i].as_bytes().to_vec() }
    fn ks1(i: usize) -> String { SB[i].into() }
    fn ks2(i: usize) -> Vec<u8> { SB[i].as_bytes().to_vec() }
    fn e1(i: usize) -> Vec<u8> { SB[i].as_bytes().to_vec() }
    fn e2(i: usize) -> String { SB[i].into() }
}

// ---------------------------------------------------------------------------
// backends
// ---------------------------------------------------------------------------

#[derive(Debug, Clone, Copy, PartialEq, Eq)]
enum Backend {
    Rocks,
    Fjall,
    Mem,
}

impl Backend {
    fn name(self) -> &'static str {
        match self {
            Self::Rocks => "rocksdb",
            Self::Fjall => "fjall",
            Self::Mem => "mem",
        }
    }
    fn parse(s: &str) -> Self {
        match s {
            "rocksdb" => Self::Rocks,
            "fjall" => Self::Fjall,
            "mem" => Self::Mem,
            _ => panic!("unknown backend {s}"),
        }
    }
}

/// AS-IS model of the physical wide-column key (rocksdb.rs / fjall.rs
/// `encode_wide_column_key`).
fn composite(be: Backend, mode: DiscriminantEncoding, disc: &[u8], key: &[u8]) -> Vec<u8> {
    let mut out = Vec::new();
    match be {
        Backend::Mem => {
            // MemKv keeps discriminant and key apart
            out.extend_from_slice(&(disc.len() as u64).to_le_bytes());
            out.extend_from_slice(disc);
            out.extend_from_slice(key);
        }
        Backend::Rocks | Backend::Fjall => {
            if mode == DiscriminantEncoding::Prefixed {
                out.extend_from_slice(disc);
            }
            out.extend_from_slice(key);
            if be == Backend::Fjall && key.is_empty() {
                out.push(0);
            }
            if mode == DiscriminantEncoding::Suffixed {
                out.extend_from_slice(disc);
            }
        }
    }
    out
}

fn hex(b: &[u8]) -> String {
    if b.len() > 40 {
        let h: String = b[..16].iter().map(|x| format!("{x:02x}")).collect();
        let t: String = b[b.len() - 8..].iter().map(|x| format!("{x:02x}")).collect();
        format!("{h}..({} bytes)..{t}", b.len())
    } else {
        b.iter().map(|x| format!("{x:02x}")).collect()
    }
}

// ---------------------------------------------------------------------------
// replay of one behaviour
// ---------------------------------------------------------------------------

trait OpSink {
    fn put<W: WideColumn, C: WideColumnValue<W>>(&mut self, key: &W::Key, value: &C);
    fn delete<W: WideColumn, C: WideColumnValue<W>>(&mut self, key: &W::Key);
    fn insert_member<C: KeyOfSetColumn>(&mut self, key: &C::Key, value: &C::Element);
    fn delete_member<C: KeyOfSetColumn>(&mut self, key: &C::Key, value: &C::Element);
}
struct Wb<'a, B: WriteBatch>(&'a mut B);
impl<B: WriteBatch> OpSink for Wb<'_, B> {
    fn put<W: WideColumn, C: WideColumnValue<W>>(&mut self, key: &W::Key, value: &C) {
        self.0.put::<W, C>(key, value);
    }
    fn delete<W: WideColumn, C: WideColumnValue<W>>(&mut self, key: &W::Key) {
        self.0.delete::<W, C>(key);
    }
    fn insert_member<C: KeyOfSetColumn>(&mut self, key: &C::Key, value: &C::Element) {
        self.0.insert_member::<C>(key, value);
    }
    fn delete_member<C: KeyOfSetColumn>(&mut self, key: &C::Key, value: &C::Element) {
        self.0.delete_member::<C>(key, value);
    }
}
struct Sb<'a, S: SerializationBuffer>(&'a mut S);
impl<S: SerializationBuffer> OpSink for Sb<'_, S> {
    fn put<W: WideColumn, C: WideColumnValue<W>>(&mut self, key: &W::Key, value: &C) {
        self.0.put::<W, C>(key, value);
    }
    fn delete<W: WideColumn, C: WideColumnValue<W>>(&mut self, key: &W::Key) {
        self.0.delete::<W, C>(key);
    }
    fn insert_member<C: KeyOfSetColumn>(&mut self, key: &C::Key, value: &C::Element) {
        self.0.insert_member::<C>(key, value);
    }
    fn delete_member<C: KeyOfSetColumn>(&mut self, key: &C::Key, value: &C::Element) {
        self.0.delete_member::<C>(key, value);
    }
}

fn idx(s: &str) -> usize { s[1..].parse::<usize>().expect("index") - 1 }

/// Abstract op as printed by TLC.
#[derive(Debug, Clone)]
struct AOp {
    k: String,
    c: String,
    key: usize,
    x: usize,
    val: u8,
}

impl AOp {
    fn parse(v: &Value) -> Self {
        Self {
            k: v["k"].as_str().unwrap().into(),
            c: v["c"].as_str().unwrap().into(),
            key: idx(v["key"].as_str().unwrap()),
            x: idx(v["x"].as_str().unwrap()),
            val: v["val"].as_u64().unwrap() as u8,
        }
    }
}

fn apply_real<F: Fam, S: OpSink>(s: &mut S, op: &AOp) {
    match (op.k.as_str(), op.c.as_str(), op.x) {
        ("put", "W1", 0) => s.put::<F::W1, F::A1>(&F::kw1(op.key), &F::A1::mk(op.val)),
        ("put", "W1", 1) => s.put::<F::W1, F::B1>(&F::kw1(op.key), &F::B1::mk(op.val)),
        ("put", "W2", 0) => s.put::<F::W2, F::A2>(&F::kw2(op.key), &F::A2::mk(op.val)),
        ("put", "W2", 1) => s.put::<F::W2, F::B2>(&F::kw2(op.key), &F::B2::mk(op.val)),
        ("del", "W1", 0) => s.delete::<F::W1, F::A1>(&F::kw1(op.key)),
        ("del", "W1", 1) => s.delete::<F::W1, F::B1>(&F::kw1(op.key)),
        ("del", "W2", 0) => s.delete::<F::W2, F::A2>(&F::kw2(op.key)),
        ("del", "W2", 1) => s.delete::<F::W2, F::B2>(&F::kw2(op.key)),
        ("ins", "S1", e) => s.insert_member::<F::S1>(&F::ks1(op.key), &F::e1(e)),
        ("ins", "S2", e) => s.insert_member::<F::S2>(&F::ks2(op.key), &F::e2(e)),
        ("rem", "S1", e) => s.delete_member::<F::S1>(&F::ks1(op.key), &F::e1(e)),
        ("rem", "S2", e) => s.delete_member::<F::S2>(&F::ks2(op.key), &F::e2(e)),
        other => panic!("harness: unknown op {other:?}"),
    }
}

/// encoded discriminant and key of a logical wide cell
fn cell_bytes<F: Fam>(p: &Plugin, col: usize, key: usize, vt: usize) -> (DiscriminantEncoding, Vec<u8>, Vec<u8>) {
    match (col, vt) {
        (0, 0) => (
            F::W1::discriminant_encoding(),
            memkv::enc(p, &<F::A1 as WideColumnValue<F::W1>>::discriminant()),
            memkv::enc(p, &F::kw1(key)),
        ),
        (0, _) => (
            F::W1::discriminant_encoding(),
            memkv::enc(p, &<F::B1 as WideColumnValue<F::W1>>::discriminant()),
            memkv::enc(p, &F::kw1(key)),
        ),
        (_, 0) => (
            F::W2::discriminant_encoding(),
            memkv::enc(p, &<F::A2 as WideColumnValue<F::W2>>::discriminant()),
            memkv::enc(p, &F::kw2(key)),
        ),
        (_, _) => (
            F::W2::discriminant_encoding(),
            memkv::enc(p, &<F::B2 as WideColumnValue<F::W2>>::discriminant()),
            memkv::enc(p, &F::kw2(key)),
        ),
    }
}

fn value_bytes<F: Fam>(p: &Plugin, col: usize, vt: usize, val: u8) -> Vec<u8> {
    match (col, vt) {
        (0, 0) => memkv::enc(p, &F::A1::mk(val)),
        (0, _) => memkv::enc(p, &F::B1::mk(val)),
        (_, 0) => memkv::enc(p, &F::A2::mk(val)),
        (_, _) => memkv::enc(p, &F::B2::mk(val)),
    }
}

/// Result of a point read in abstract terms.
#[derive(Debug, Clone, PartialEq, Eq)]
enum Got {
    /// 0 = absent, 1/2 = abstract value, 99 = some other value
    Val(u8),
    Panic(String),
}

impl Got {
    fn json(&self) -> Value {
        match self {
            Self::Val(v) => json!(v),
            Self::Panic(m) => json!({"panic": m}),
        }
    }
}

fn decode_abs<C: Decode + AbsVal>(p: &Plugin, bytes: &[u8]) -> Got {
    // the backends `expect` the decode result; decoding foreign bytes can
    // also panic inside the decoder (length prefix -> Vec::with_capacity)
    let r = catch_unwind(AssertUnwindSafe(|| {
        let mut d = PostcardDecoder::new(std::io::Cursor::new(bytes));
        d.decode::<C>(p)
    }));
    match r {
        Ok(Ok(v)) => Got::Val(v.abs()),
        Ok(Err(e)) => Got::Panic(format!("decoding should not fail: {e}")),
        Err(e) => Got::Panic(panic_msg(e)),
    }
}

fn asis_decode<F: Fam>(p: &Plugin, col: usize, vt: usize, bytes: &[u8]) -> Got {
    match (col, vt) {
        (0, 0) => decode_abs::<F::A1>(p, bytes),
        (0, _) => decode_abs::<F::B1>(p, bytes),
        (_, 0) => decode_abs::<F::A2>(p, bytes),
        (_, _) => decode_abs::<F::B2>(p, bytes),
    }
}

fn canon<F: Fam>(col: usize, vt: usize, v: u8) -> u8 {
    match (col, vt) {
        (0, 0) => F::A1::canon(v),
        (0, _) => F::B1::canon(v),
        (_, 0) => F::A2::canon(v),
        (_, _) => F::B2::canon(v),
    }
}

fn panic_msg(e: Box<dyn std::any::Any + Send>) -> String {
    if let Some(s) = e.downcast_ref::<String>() {
        s.clone()
    } else if let Some(s) = e.downcast_ref::<&str>() {
        (*s).to_string()
    } else {
        "non-string panic".into()
    }
}

fn real_get<D: KvDatabase, F: Fam>(db: &D, col: usize, key: usize, vt: usize) -> Got {
    fn one<D: KvDatabase, W: WideColumn, C: WideColumnValue<W> + AbsVal>(db: &D, k: &W::Key) -> Got {
        match catch_unwind(AssertUnwindSafe(|| db.get_wide_column::<W, C>(k))) {
            Ok(None) => Got::Val(0),
            Ok(Some(v)) => Got::Val(v.abs()),
            Err(e) => Got::Panic(panic_msg(e)),
        }
    }
    match (col, vt) {
        (0, 0) => one::<D, F::W1, F::A1>(db, &F::kw1(key)),
        (0, _) => one::<D, F::W1, F::B1>(db, &F::kw1(key)),
        (_, 0) => one::<D, F::W2, F::A2>(db, &F::kw2(key)),
        (_, _) => one::<D, F::W2, F::B2>(db, &F::kw2(key)),
    }
}

type AbsIter = Box<dyn Iterator<Item = u8> + Send>;

fn real_scan<D: KvDatabase, F: Fam>(db: &D, col: usize, key: usize) -> Result<AbsIter, String> {
    catch_unwind(AssertUnwindSafe(|| -> AbsIter {
        if col == 0 {
            let it = db.scan_members::<F::S1>(&F::ks1(key));
            Box::new(it.map(|e| (0..3).find(|i| *i < F::NE && F::e1(*i) == e).map_or(99, |i| i as u8)))
        } else {
            let it = db.scan_members::<F::S2>(&F::ks2(key));
            Box::new(it.map(|e| (0..3).find(|i| *i < F::NE && F::e2(*i) == e).map_or(99, |i| i as u8)))
        }
    }))
    .map_err(panic_msg)
}

fn drain(it: AbsIter) -> Result<Vec<u8>, String> {
    catch_unwind(AssertUnwindSafe(move || it.collect::<Vec<u8>>())).map_err(panic_msg)
}

fn elset(v: &Value) -> BTreeSet<u8> {
    v.as_array().unwrap().iter().map(|e| idx(e.as_str().unwrap()) as u8).collect()
}

struct Shadow {
    /// as-is physical wide content: (column, physical key) -> value bytes
    wide: BTreeMap<(usize, Vec<u8>), Vec<u8>>,
}

#[derive(Clone)]
enum ShadowOp {
    Put(usize, Vec<u8>, Vec<u8>),
    Del(usize, Vec<u8>),
    None,
}

struct Runner<'a, D: KvDatabase, F: Fam> {
    be: Backend,
    plugin: Plugin,
    db: Option<D>,
    open: &'a dyn Fn() -> D,
    batches: Vec<Option<(D::WriteBatch, Vec<ShadowOp>)>>,
    bufs: Vec<Option<(D::SerializationBuffer, Vec<ShadowOp>)>>,
    iters: Vec<Option<(AbsIter, usize, usize)>>,
    shadow: Shadow,
    nk: usize,
    nv: usize,
    ne: usize,
    checks: u64,
    findings: Vec<Value>,
    drift: Vec<Value>,
    /// padding: this many writes to two columns outside the model are put into a serialization buffer
    /// in front of every buffered operation (long buffers with interleaved columns; the model's
    /// operations keep their relative order)
    pad: usize,
    pad_seq: u64,
    /// where the padding goes: "before" every buffered model operation (default), "after" the last one
    /// (when the buffer is consumed), or "both"
    pad_pos: String,
    _f: std::marker::PhantomData<F>,
}

impl<D: KvDatabase, F: Fam> Runner<'_, D, F> {
    fn db(&self) -> &D { self.db.as_ref().expect("db open") }

    fn shadow_op(&self, op: &AOp) -> ShadowOp {
        let col = match op.c.as_str() {
            "W1" => 0,
            "W2" => 1,
            _ => return ShadowOp::None,
        };
        let (mode, d, k) = cell_bytes::<F>(&self.plugin, col, op.key, op.x);
        let phys = composite(self.be, mode, &d, &k);
        if op.k == "put" {
            ShadowOp::Put(col, phys, value_bytes::<F>(&self.plugin, col, op.x, op.val))
        } else {
            ShadowOp::Del(col, phys)
        }
    }

    /// other logical cells of the column with the same physical key
    fn aliases(&self, col: usize, key: usize, vt: usize) -> Vec<Value> {
        let (mode, d, k) = cell_bytes::<F>(&self.plugin, col, key, vt);
        let phys = composite(self.be, mode, &d, &k);
        let plain = composite(Backend::Rocks, mode, &d, &k);
        let mut out = vec![];
        for k2 in 0..F::NK {
            for v2 in 0..F::NV {
                if (k2, v2) == (key, vt) {
                    continue;
                }
                let (_, d2, kb2) = cell_bytes::<F>(&self.plugin, col, k2, v2);
                if composite(self.be, mode, &d2, &kb2) == phys {
                    let plain2 = composite(Backend::Rocks, mode, &d2, &kb2);
                    let shape = if plain2 == plain {
                        if mode == DiscriminantEncoding::Suffixed { "suffix_concat" } else { "prefix_concat" }
                    } else {
                        "fjall_empty_key"
                    };
                    out.push(json!({
                        "shape": shape,
                        "column": if col == 0 { "W1/Prefixed" } else { "W2/Suffixed" },
                        "physical_key": hex(&phys),
                        "cell": {"key": format!("K{}", key + 1), "vt": format!("V{}", vt + 1),
                                 "key_bytes": hex(&k), "disc_bytes": hex(&d)},
                        "other": {"key": format!("K{}", k2 + 1), "vt": format!("V{}", v2 + 1),
                                  "key_bytes": hex(&kb2), "disc_bytes": hex(&d2)},
                    }));
                }
            }
        }
        out
    }

    fn check_get(&mut self, step: usize, what: &str, col: usize, key: usize, vt: usize, exp: u8) {
        self.checks += 1;
        let got = real_get::<D, F>(self.db(), col, key, vt);
        let want = Got::Val(canon::<F>(col, vt, exp));
        if got == want {
            return;
        }
        // the as-is model's prediction for this read
        let (mode, d, k) = cell_bytes::<F>(&self.plugin, col, key, vt);
        let phys = composite(self.be, mode, &d, &k);
        let pred = match self.shadow.wide.get(&(col, phys)) {
            None => Got::Val(0),
            Some(b) => asis_decode::<F>(&self.plugin, col, vt, b),
        };
        let aliases = self.aliases(col, key, vt);
        let predicted = match (&pred, &got) {
            (Got::Panic(_), Got::Panic(_)) => true,
            (a, b) => a == b,
        };
        let kind = if predicted && !aliases.is_empty() { "alias" } else { "violation" };
        self.findings.push(json!({
            "kind": kind, "step": step, "at": what, "read": "get",
            "cell": {"c": format!("W{}", col + 1), "key": format!("K{}", key + 1), "vt": format!("V{}", vt + 1)},
            "expected": want.json(), "got": got.json(), "asis_predicts": pred.json(),
            "aliases": aliases,
        }));
    }

    fn check_scan_now(&mut self, step: usize, what: &str, col: usize, key: usize, exp: &BTreeSet<u8>) {
        self.checks += 1;
        let got = real_scan::<D, F>(self.db(), col, key).and_then(drain);
        self.judge_scan(step, what, col, key, got, exp, exp, exp);
    }

    #[allow(clippy::too_many_arguments)]
    fn judge_scan(
        &mut self,
        step: usize,
        what: &str,
        col: usize,
        key: usize,
        got: Result<Vec<u8>, String>,
        snap: &BTreeSet<u8>,
        must: &BTreeSet<u8>,
        may: &BTreeSet<u8>,
    ) {
        let id = json!({"c": format!("S{}", col + 1), "key": format!("K{}", key + 1)});
        let names = |s: &BTreeSet<u8>| s.iter().map(|e| format!("E{}", e + 1)).collect::<Vec<_>>();
        match got {
            Err(m) => self.findings.push(json!({
                "kind": "violation", "step": step, "at": what, "read": "scan", "set": id,
                "expected": names(snap), "got": {"panic": m},
            })),
            Ok(v) => {
                let set: BTreeSet<u8> = v.iter().copied().collect();
                let dup = set.len() != v.len();
                if dup || !must.is_subset(&set) || !set.is_subset(may) {
                    self.findings.push(json!({
                        "kind": "violation", "step": step, "at": what, "read": "scan", "set": id,
                        "expected": names(snap), "must": names(must), "may": names(may),
                        "got": v.iter().map(|e| if *e == 99 { "alien".to_string() } else { format!("E{}", e + 1) }).collect::<Vec<_>>(),
                        "duplicates": dup,
                    }));
                } else if &set != snap {
                    self.drift.push(json!({
                        "kind": "iterator_not_pinned", "step": step, "set": id,
                        "snapshot_at_creation": names(snap), "got": names(&set),
                    }));
                }
            }
        }
    }

    /// compare the complete committed content, cell by cell
    fn sweep(&mut self, step: usize, what: &str, state: &Value) {
        let mut wide: BTreeMap<(usize, usize, usize), u8> = BTreeMap::new();
        for r in state["wide"].as_array().unwrap() {
            wide.insert(
                (idx(r["c"].as_str().unwrap()), idx(r["key"].as_str().unwrap()), idx(r["vt"].as_str().unwrap())),
                r["val"].as_u64().unwrap() as u8,
            );
        }
        let mut sets: BTreeMap<(usize, usize), BTreeSet<u8>> = BTreeMap::new();
        for r in state["sets"].as_array().unwrap() {
            sets.insert((idx(r["c"].as_str().unwrap()), idx(r["key"].as_str().unwrap())), elset(&r["els"]));
        }
        let empty = BTreeSet::new();
        for col in 0..2 {
            for key in 0..self.nk {
                for vt in 0..self.nv {
                    let exp = wide.get(&(col, key, vt)).copied().unwrap_or(0);
                    self.check_get(step, what, col, key, vt, exp);
                }
                let exp = sets.get(&(col, key)).unwrap_or(&empty).clone();
                self.check_scan_now(step, what, col, key, &exp);
            }
        }
        let _ = self.ne;
    }

    fn close(&mut self) {
        self.batches.iter_mut().for_each(|b| *b = None);
        self.bufs.iter_mut().for_each(|b| *b = None);
        self.iters.iter_mut().for_each(|b| *b = None);
        self.db = None;
    }

    fn event(&mut self, step: usize, ev: &Value) {
        let a = ev["a"].as_str().unwrap();
        phase(format!("step {step}: {a}"));
        let h = ev["h"].as_u64().map_or(0, |x| x as usize - 1);
        // `q` (quiet): the harness reads nothing after this event, so the next
        // event is the first one that touches its column (family) in the session
        let quiet = ev["q"].as_bool().unwrap_or(false);
        match a {
            "batch" => {
                self.batches[h] = Some((self.db().write_batch(), vec![]));
            }
            "buf" => {
                self.bufs[h] = Some((self.db().serialization_buffer(), vec![]));
            }
            "op" => {
                let op = AOp::parse(&ev["op"]);
                let sh = self.shadow_op(&op);
                if ev["via"] == "wb" {
                    let (b, s) = self.batches[h].as_mut().expect("open batch");
                    apply_real::<F, _>(&mut Wb(b), &op);
                    s.push(sh);
                } else {
                    let pad = if self.pad_pos == "after" { 0 } else { self.pad };
                    let (b, s) = self.bufs[h].as_mut().expect("open buffer");
                    pad_buffer(b, pad, &mut self.pad_seq);
                    apply_real::<F, _>(&mut Sb(b), &op);
                    s.push(sh);
                }
            }
            "consume" => {
                let s = ev["s"].as_u64().unwrap() as usize - 1;
                let (mut buf, bsh) = self.bufs[s].take().expect("open buffer");
                // padding behind the model's operations ("after" / "both")
                if self.pad_pos != "before" && !bsh.is_empty() {
                    pad_buffer(&mut buf, self.pad * bsh.len().min(2), &mut self.pad_seq);
                }
                let (b, sh) = self.batches[h].as_mut().expect("open batch");
                b.consume_serialization_buffer(buf);
                sh.extend(bsh);
            }
            "dropbuf" => {
                self.bufs[h] = None;
            }
            "commit" => {
                let (b, sh) = self.batches[h].take().expect("open batch");
                b.commit();
                for op in sh {
                    match op {
                        ShadowOp::Put(c, k, v) => {
                            self.shadow.wide.insert((c, k), v);
                        }
                        ShadowOp::Del(c, k) => {
                            self.shadow.wide.remove(&(c, k));
                        }
                        ShadowOp::None => {}
                    }
                }
                if !quiet {
                    self.sweep(step, "after commit", &ev["state"]);
                }
            }
            "drop" => {
                self.batches[h] = None;
                if !quiet {
                    self.sweep(step, "after drop without commit", &ev["state"]);
                }
            }
            "get" => {
                let (c, k, v) = (
                    idx(ev["c"].as_str().unwrap()),
                    idx(ev["key"].as_str().unwrap()),
                    idx(ev["vt"].as_str().unwrap()),
                );
                self.check_get(step, "get", c, k, v, ev["exp"].as_u64().unwrap() as u8);
            }
            "scan" => {
                let (c, k) = (idx(ev["c"].as_str().unwrap()), idx(ev["key"].as_str().unwrap()));
                self.check_scan_now(step, "scan", c, k, &elset(&ev["exp"]));
            }
            "iter" => {
                let (c, k) = (idx(ev["c"].as_str().unwrap()), idx(ev["key"].as_str().unwrap()));
                match real_scan::<D, F>(self.db(), c, k) {
                    Ok(it) => self.iters[h] = Some((it, c, k)),
                    Err(m) => self.findings.push(json!({
                        "kind": "violation", "step": step, "at": "scan_members", "read": "scan",
                        "got": {"panic": m}})),
                }
            }
            "drain" => {
                if let Some((it, c, k)) = self.iters[h].take() {
                    self.checks += 1;
                    let got = drain(it);
                    self.judge_scan(step, "drain of an iterator created earlier", c, k, got,
                        &elset(&ev["snap"]), &elset(&ev["must"]), &elset(&ev["may"]));
                }
            }
            "reopen" => {
                self.close();
                self.db = Some((self.open)());
                if !quiet {
                    self.sweep(step, "after close and reopen", &ev["state"]);
                }
            }
            // read everything: every cell and every set against the model
            "sweep" => {
                self.sweep(step, "read everything", &ev["state"]);
            }
            other => panic!("harness: unknown event {other}"),
        }
    }
}

/// `n` writes to two columns outside the model (interleaved: wide put, member insert, member delete)
fn pad_buffer<S: SerializationBuffer>(b: &mut S, n: usize, seq: &mut u64) {
    for i in 0..n {
        *seq += 1;
        match i % 3 {
            0 => b.put::<ProbeCol, ProbeVal>(&(*seq % 97), &ProbeVal(*seq, vec![])),
            1 => b.insert_member::<PadSet>(&(*seq % 89), &*seq),
            _ => b.delete_member::<PadSet>(&(*seq % 89), &(*seq - 1)),
        }
    }
}

thread_local! {
    /// what the current run is doing (read by the watchdog)
    static PHASE: std::cell::RefCell<Option<Arc<Mutex<String>>>> = const { std::cell::RefCell::new(None) };
}

fn phase(s: String) {
    PHASE.with(|p| {
        if let Some(p) = p.borrow().as_ref() {
            *p.lock().unwrap() = s;
        }
    });
}

fn run_case<D: KvDatabase, F: Fam>(be: Backend, open: &dyn Fn() -> D, case: &Value) -> Value {
    let mut r = Runner::<D, F> {
        be,
        plugin: Plugin::default(),
        db: None,
        open,
        batches: (0..3).map(|_| None).collect(),
        bufs: (0..2).map(|_| None).collect(),
        iters: (0..2).map(|_| None).collect(),
        shadow: Shadow { wide: BTreeMap::new() },
        nk: case["nk"].as_u64().unwrap() as usize,
        nv: case["nv"].as_u64().unwrap() as usize,
        ne: case["ne"].as_u64().unwrap() as usize,
        checks: 0,
        findings: vec![],
        drift: vec![],
        pad: case["pad"].as_u64().unwrap_or(0) as usize,
        pad_seq: 0,
        pad_pos: case["padpos"].as_str().unwrap_or("before").to_string(),
        _f: std::marker::PhantomData,
    };
    assert!(r.nk <= F::NK && r.nv <= F::NV && r.ne <= F::NE, "family {} too small for the case", F::NAME);
    let events = case["events"].as_array().unwrap();
    let res = catch_unwind(AssertUnwindSafe(|| {
        r.db = Some((r.open)());
        for (i, ev) in events.iter().enumerate() {
            r.event(i + 1, ev);
        }
        // epilogue: one more close / reopen and a full comparison (the
        // first-touch behaviours end with exactly that themselves)
        if case["ft"].as_bool() != Some(true) && case["bo"].as_bool() != Some(true) {
            phase("final close".into());
            r.close();
            r.db = Some((r.open)());
            r.sweep(events.len() + 1, "after final close and reopen", &case["final"]);
        }
        phase("last close".into());
        r.close();
    }));
    if let Err(e) = res {
        // a panic outside a read (open, op, commit, drop)
        r.findings.push(json!({"kind": "violation", "step": 0, "at": "write path / open", "got": {"panic": panic_msg(e)}}));
        let _ = catch_unwind(AssertUnwindSafe(|| r.close()));
    }
    json!({"fam": F::NAME, "backend": be.name(), "checks": r.checks, "findings": r.findings, "drift": r.drift})
}

fn run_on_backend<F: Fam>(be: Backend, dir: &Path, case: &Value) -> Value {
    match be {
        Backend::Rocks => run_case::<RocksDB, F>(be, &|| RocksDB::open(dir, Plugin::default()).expect("open rocksdb"), case),
        Backend::Fjall => run_case::<Fjall, F>(be, &|| Fjall::open(dir, Plugin::default()).expect("open fjall"), case),
        Backend::Mem => {
            let store = Store::new(Grouping::One);
            run_case::<MemKv, F>(be, &move || MemKv::new(store.clone(), Plugin::default()), case)
        }
    }
}

const FAMILIES: [&str; 11] =
    ["int", "bytes", "ff", "varff", "big", "nested", "strbytes", "unit", "unit0", "raw", "rawvar"];

fn fam_dims(name: &str) -> (usize, usize, usize) {
    fn d<F: Fam>() -> (usize, usize, usize) { (F::NK, F::NV, F::NE) }
    match name {
        "int" => d::<FInt>(),
        "bytes" => d::<FBytes>(),
        "ff" => d::<FFf>(),
        "varff" => d::<FVarFf>(),
        "big" => d::<FBig>(),
        "nested" => d::<FNested>(),
        "strbytes" => d::<FStrBytes>(),
        "unit" => d::<FUnit>(),
        "unit0" => d::<FUnit0>(),
        "raw" => d::<FRaw>(),
        "rawvar" => d::<FRawVar>(),
        _ => panic!("unknown family {name}"),
    }
}

fn run_family(name: &str, be: Backend, dir: &Path, case: &Value) -> Value {
    match name {
        "int" => run_on_backend::<FInt>(be, dir, case),
        "bytes" => run_on_backend::<FBytes>(be, dir, case),
        "ff" => run_on_backend::<FFf>(be, dir, case),
        "varff" => run_on_backend::<FVarFf>(be, dir, case),
        "big" => run_on_backend::<FBig>(be, dir, case),
        "nested" => run_on_backend::<FNested>(be, dir, case),
        "strbytes" => run_on_backend::<FStrBytes>(be, dir, case),
        "unit" => run_on_backend::<FUnit>(be, dir, case),
        "unit0" => run_on_backend::<FUnit0>(be, dir, case),
        "raw" => run_on_backend::<FRaw>(be, dir, case),
        "rawvar" => run_on_backend::<FRawVar>(be, dir, case),
        _ => panic!("unknown family {name}"),
    }
}

fn splitmix(mut x: u64) -> u64 {
    x = x.wrapping_add(0x9E37_79B9_7F4A_7C15);
    x = (x ^ (x >> 30)).wrapping_mul(0xBF58_476D_1CE4_E5B9);
    x = (x ^ (x >> 27)).wrapping_mul(0x94D0_49BB_1331_11EB);
    x ^ (x >> 31)
}

fn mode_replay(a: &std::collections::HashMap<String, String>) {
    let cases_path = util::arg_str(a, "cases", "");
    let out_path = util::arg_str(a, "out", "/dev/stdout");
    let seed = util::arg_u64(a, "seed", 1);
    let threads = util::arg_u64(a, "threads", 8) as usize;
    let per_case = util::arg_u64(a, "per-case", 0) as usize;
    let backends: Vec<Backend> = util::arg_str(a, "backends", "rocksdb,fjall,mem").split(',').map(Backend::parse).collect();
    let fams: Vec<String> = match util::arg_str(a, "fams", "all") {
        "all" => FAMILIES.iter().map(|s| (*s).to_string()).collect(),
        s => s.split(',').map(str::to_string).collect(),
    };
    let tmp_base = PathBuf::from(util::arg_str(a, "tmp", "/tmp"));
    let cases: Vec<Value> = std::io::BufReader::new(std::fs::File::open(cases_path).expect("cases file"))
        .lines()
        .map(|l| l.unwrap())
        .filter(|l| !l.trim().is_empty())
        .map(|l| serde_json::from_str(&l).expect("case json"))
        .collect();
    // job list: (case index, family, backend)
    let mut jobs: Vec<(usize, String, Backend)> = vec![];
    for (ci, c) in cases.iter().enumerate() {
        let (nk, nv, ne) = (c["nk"].as_u64().unwrap() as usize, c["nv"].as_u64().unwrap() as usize, c["ne"].as_u64().unwrap() as usize);
        let mut ok: Vec<&String> = fams
            .iter()
            .filter(|f| {
                let (k, v, e) = fam_dims(f);
                // the one-key (unit) families are used for one-key cases
                // only, the others for every larger domain they cover
                k >= nk && (k == 1) == (nk == 1) && v >= nv && e >= ne
            })
            .collect();
        if per_case > 0 && ok.len() > per_case {
            // seeded choice of `per_case` families, rotating so that every
            // family is used equally often
            let start = (splitmix(seed ^ (ci as u64).wrapping_mul(0x1234_5677)) as usize) % ok.len();
            ok.rotate_left(start);
            ok.truncate(per_case);
        }
        for f in ok {
            for b in &backends {
                jobs.push((ci, f.clone(), *b));
            }
        }
    }
    let watchdog = std::time::Duration::from_secs(util::arg_u64(a, "watchdog", 60));
    let patience = std::time::Duration::from_secs(5);
    let cases = Arc::new(cases);
    let next = AtomicUsize::new(0);
    let out = Mutex::new(std::io::BufWriter::new(std::fs::File::create(out_path).expect("out file")));
    let total_checks = AtomicU64::new(0);
    let ran = AtomicU64::new(0);
    let hangs = AtomicU64::new(0);
    type Slow = (std::sync::mpsc::Receiver<Value>, usize, String, Backend, Arc<Mutex<String>>, std::time::Instant);
    let slow: Mutex<Vec<Slow>> = Mutex::new(vec![]);
    let record = |mut res: Value, ci: usize| {
        total_checks.fetch_add(res["checks"].as_u64().unwrap(), Ordering::Relaxed);
        ran.fetch_add(1, Ordering::Relaxed);
        res["case"] = json!(ci);
        let interesting =
            !res["findings"].as_array().unwrap().is_empty() || !res["drift"].as_array().unwrap().is_empty();
        if interesting {
            let mut o = out.lock().unwrap();
            writeln!(o, "{res}").unwrap();
        }
    };
    std::thread::scope(|s| {
        for _ in 0..threads.max(1) {
            s.spawn(|| {
                loop {
                    let j = next.fetch_add(1, Ordering::SeqCst);
                    if j >= jobs.len() {
                        break;
                    }
                    let (ci, fam, be) = jobs[j].clone();
                    // every run in its own thread: a run that never returns
                    // (observed: fjall's Database::drop) is reported and left
                    // behind instead of stalling the check
                    let (tx, rx) = std::sync::mpsc::channel();
                    let (cases2, fam2, tmp2) = (cases.clone(), fam.clone(), tmp_base.clone());
                    let phase = Arc::new(Mutex::new(String::from("start")));
                    let phase2 = phase.clone();
                    let started = std::time::Instant::now();
                    std::thread::Builder::new()
                        .name(format!("job-{j}"))
                        .spawn(move || {
                            let dir = tempfile::Builder::new().prefix("vh-c11-").tempdir_in(&tmp2).expect("tempdir");
                            PHASE.with(|p| *p.borrow_mut() = Some(phase2));
                            let res = run_family(&fam2, be, dir.path(), &cases2[ci]);
                            drop(dir);
                            let _ = tx.send(res);
                        })
                        .expect("spawn");
                    match rx.recv_timeout(patience) {
                        Ok(r) => record(r, ci),
                        // keep going; the straggler is judged at the end
                        Err(_) => slow.lock().unwrap().push((rx, ci, fam, be, phase, started)),
                    }
                }
            });
        }
    });
    for (rx, ci, fam, be, phase, started) in slow.into_inner().unwrap() {
        let left = watchdog.saturating_sub(started.elapsed());
        match rx.recv_timeout(left) {
            Ok(r) => record(r, ci),
            Err(_) => {
                hangs.fetch_add(1, Ordering::Relaxed);
                record(
                    json!({"fam": fam, "backend": be.name(), "checks": 0, "drift": [],
                           "findings": [{"kind": "hang", "at": phase.lock().unwrap().clone(),
                                         "watchdog_s": watchdog.as_secs()}]}),
                    ci,
                );
            }
        }
    }
    let mut o = out.lock().unwrap();
    writeln!(
        o,
        "{}",
        json!({"summary": true, "cases": cases.len(), "runs": ran.load(Ordering::SeqCst), "hangs": hangs.load(Ordering::SeqCst),
               "checks": total_checks.load(Ordering::SeqCst), "jobs": jobs.len()})
    )
    .unwrap();
    o.flush().unwrap();
}

// ---------------------------------------------------------------------------
// concurrent reader vs. committing writer
// ---------------------------------------------------------------------------

#[derive(Debug, Clone, Copy, PartialEq, Eq, Hash, Identifiable)]
#[stable_type_id_crate(qbice_stable_type_id)]
pub struct ProbeCol;
impl WideColumn for ProbeCol {
    type Discriminant = u8;
    type Key = u64;
    fn discriminant_encoding() -> DiscriminantEncoding { DiscriminantEncoding::Prefixed }
}
/// set column outside the model (padding of serialization buffers)
#[derive(Debug, Clone, Copy, PartialEq, Eq, Hash, Identifiable)]
#[stable_type_id_crate(qbice_stable_type_id)]
pub struct PadSet;
impl KeyOfSetColumn for PadSet {
    type Key = u64;
    type Element = u64;
}

#[derive(Debug, Clone, PartialEq, Eq, Encode, Decode)]
#[serialize_crate(qbice_serialize)]
struct ProbeVal(u64, Vec<u8>);
impl WideColumnValue<ProbeCol> for ProbeVal {
    fn discriminant() -> u8 { 0 }
}

fn atomic_probe<D: KvDatabase>(db: D, batches: u64, fillers: u64) -> Value {
    const A: u64 = 0;
    const B: u64 = u64::MAX;
    const SET: u64 = 7;
    const GEN: u64 = 1_000_000;
    let members = (fillers / 2).max(1);
    let scans = AtomicU64::new(0);
    let nscan_torn = AtomicU64::new(0);
    let scan_torn: Mutex<Vec<Value>> = Mutex::new(vec![]);
    let stop = AtomicBool::new(false);
    let torn: Mutex<Vec<Value>> = Mutex::new(vec![]);
    let ntorn = AtomicU64::new(0);
    let reads = AtomicU64::new(0);
    std::thread::scope(|s| {
        let r = s.spawn(|| {
            while !stop.load(Ordering::SeqCst) {
                // A is the first op of batch i, B the last one: once A = i is
                // visible, B >= i must be visible too
                let a = db.get_wide_column::<ProbeCol, ProbeVal>(&A).map_or(0, |v| v.0);
                let b = db.get_wide_column::<ProbeCol, ProbeVal>(&B).map_or(0, |v| v.0);
                reads.fetch_add(1, Ordering::Relaxed);
                if b < a {
                    ntorn.fetch_add(1, Ordering::Relaxed);
                    let mut t = torn.lock().unwrap();
                    if t.len() < 5 {
                        t.push(json!({"read_A_first_op_of_batch": a, "then_read_B_last_op_of_batch": b}));
                    }
                }
            }
        });
        // second reader: member scans.  Batch i inserts generation i of the
        // set (members i * GEN + 0 .. members) and deletes generation i - 2:
        // a scan sees every generation either completely or not at all, and
        // at most two consecutive ones.
        let sc = s.spawn(|| {
            while !stop.load(Ordering::SeqCst) {
                let mut per: BTreeMap<u64, u64> = BTreeMap::new();
                for e in db.scan_members::<PadSet>(&SET) {
                    *per.entry(e / GEN).or_default() += 1;
                }
                scans.fetch_add(1, Ordering::Relaxed);
                let gens: Vec<u64> = per.keys().copied().collect();
                let whole = per.values().all(|c| *c == members);
                let consecutive = gens.len() <= 2 && gens.windows(2).all(|w| w[1] == w[0] + 1);
                if !(whole && consecutive) {
                    nscan_torn.fetch_add(1, Ordering::Relaxed);
                    let mut t = scan_torn.lock().unwrap();
                    if t.len() < 5 {
                        t.push(json!({"members_per_generation_in_one_scan": per.iter().map(|(g, c)| json!([g, c])).collect::<Vec<_>>(),
                                      "members_per_batch": members}));
                    }
                }
            }
        });
        for i in 1..=batches {
            let mut wb = db.write_batch();
            wb.put::<ProbeCol, ProbeVal>(&A, &ProbeVal(i, vec![]));
            for j in 0..members {
                wb.insert_member::<PadSet>(&SET, &(i * GEN + j));
            }
            for f in 0..fillers {
                wb.put::<ProbeCol, ProbeVal>(&(1000 + f), &ProbeVal(i, vec![0xAB; 64]));
            }
            if i > 2 {
                for j in 0..members {
                    wb.delete_member::<PadSet>(&SET, &((i - 2) * GEN + j));
                }
            }
            wb.put::<ProbeCol, ProbeVal>(&B, &ProbeVal(i, vec![]));
            wb.commit();
        }
        stop.store(true, Ordering::SeqCst);
        r.join().unwrap();
        sc.join().unwrap();
    });
    let t = torn.into_inner().unwrap();
    let st = scan_torn.into_inner().unwrap();
    json!({"batches": batches, "ops_per_batch": fillers + 2 + 2 * members, "reads": reads.load(Ordering::SeqCst),
           "torn": ntorn.load(Ordering::SeqCst), "samples": t,
           "scans": scans.load(Ordering::SeqCst), "members_per_batch": members,
           "scan_torn": nscan_torn.load(Ordering::SeqCst), "scan_samples": st})
}

fn mode_atomic(a: &std::collections::HashMap<String, String>) {
    let batches = util::arg_u64(a, "batches", 200);
    let fillers = util::arg_u64(a, "fillers", 2000);
    let tmp_base = PathBuf::from(util::arg_str(a, "tmp", "/tmp"));
    let mut out = vec![];
    for be in util::arg_str(a, "backends", "rocksdb,fjall,mem").split(',').map(Backend::parse) {
        let dir = tempfile::Builder::new().prefix("vh-c11-").tempdir_in(&tmp_base).expect("tempdir");
        let res = catch_unwind(AssertUnwindSafe(|| match be {
            Backend::Rocks => atomic_probe(RocksDB::open(dir.path(), Plugin::default()).unwrap(), batches, fillers),
            Backend::Fjall => atomic_probe(Fjall::open(dir.path(), Plugin::default()).unwrap(), batches, fillers),
            Backend::Mem => atomic_probe(MemKv::new(Store::new(Grouping::One), Plugin::default()), batches, fillers),
        }));
        let mut v = res.unwrap_or_else(|e| json!({"panic": panic_msg(e)}));
        v["backend"] = json!(be.name());
        out.push(v);
    }
    println!("{}", json!({"atomic": out}));
}

/// print the byte-level layout of every family (for reports / evidence)
fn mode_layout() {
    fn one<F: Fam>() -> Value {
        let p = Plugin::default();
        let mut cells = vec![];
        for col in 0..2 {
            for k in 0..F::NK {
                for v in 0..F::NV {
                    let (mode, d, kb) = cell_bytes::<F>(&p, col, k, v);
                    cells.push(json!({"c": format!("W{}", col + 1), "key": format!("K{}", k + 1), "vt": format!("V{}", v + 1),
                        "disc": hex(&d), "key_bytes": hex(&kb),
                        "rocksdb": hex(&composite(Backend::Rocks, mode, &d, &kb)),
                        "fjall": hex(&composite(Backend::Fjall, mode, &d, &kb))}));
                }
            }
        }
        json!({"fam": F::NAME, "cells": cells})
    }
    for v in [one::<FInt>(), one::<FBytes>(), one::<FFf>(), one::<FVarFf>(), one::<FBig>(), one::<FNested>(),
              one::<FStrBytes>(), one::<FUnit>(), one::<FUnit0>(), one::<FRaw>(), one::<FRawVar>()] {
        println!("{v}");
    }
}

fn main() {
    let a = util::args();
    // panics of the code under test are data; keep stderr readable
    let quiet = util::arg_u64(&a, "verbose", 0) == 0;
    let _count = util::count_panics(quiet);
    match util::arg_str(&a, "mode", "replay") {
        "replay" => mode_replay(&a),
        "atomic" => mode_atomic(&a),
        "layout" => mode_layout(),
        m => panic!("unknown mode {m}"),
    }
}
