//! C13 - replay of `specs/StableHashGen.tla` behaviours on the real
//! `qbice_stable_hash` code.
//!
//! Input (`--in`): ndjson, one TLC-generated history per line
//! `{"i":n,"ty":"set_u8","hist":[{"op":"ins","x":1},{"op":"rehash"}]}`.
//! For every line the operations are performed on real Rust values; the final
//! value is then observed through every storage form that applies (T, &T,
//! &mut T, Box, Rc, Arc, Cow, clone, encode->decode, slices, arrays, other
//! hasher states, DashMap ...).  An observation is
//!   * the write stream seen by a RECORDING `StableHasher` (bytes; every
//!     unordered collection shows up as the sorted multiset of the streams
//!     passed to `sub_hash`, the 16 bytes "sum of sub-hashes" that follow are
//!     folded into that token),
//!   * the real 128-bit hash under `SeededStableHasherBuilder` seed 0 and a
//!     second seed (the recorder wraps the real SipHasher, so it also yields
//!     the real hash; it is cross-checked with a plain `Sip128Hasher` and with
//!     a `dyn StableHasher` call as the interner does).
//! Output (`--out`): one record per line; the verdicts are decided by
//! checks/c13.py from these records.  Without `--child` the binary spawns
//! itself a second time (`--child`, output `<out>.child`): a fresh process
//! with other RandomState keys and addresses must print the same hashes.
//! After the TLC lines a seeded random universe (`--rand n`) of larger values
//! with near-miss mutants is generated and observed the same way.
//!
//! `--lens <file>` (length-encoding binding, specs/StableHashLenCode.tla /
//! StableHashLenTrace.tla): the file holds the boundary universe printed by
//! specs/StableHashLenGen.tla.  The bytes the tree under test writes for
//! `write_length_prefix(n)` are recorded with the recording hasher - which
//! deliberately does NOT override `write_length_prefix`, so the trait's
//! default method runs - as bare calls and as the stream of real
//! `Vec<u8>` / `String` / `Vec<u16>` values minus their payload; real
//! composite values cut around the boundaries are observed as above.  For
//! every recorded encoding that is a prefix of another one the colliding
//! composite values are constructed and hashed for real (`adv:` records).
#![allow(clippy::all)]

use std::{
    borrow::Cow,
    collections::{BTreeMap, BTreeSet, BinaryHeap, HashMap, HashSet, LinkedList, VecDeque, hash_map::DefaultHasher},
    fmt::Debug,
    hash::{BuildHasher, Hash, Hasher},
    io::{BufRead, Write},
    rc::Rc,
    sync::{Arc, Mutex, atomic::{AtomicU64, Ordering}},
};

use qbice_serialize::{Decode, Encode, Plugin};
use qbice_stable_hash::{BuildStableHasher, Compact128, SeededStableHasherBuilder, Sip128Hasher, StableHash, StableHasher};
use rand::{Rng, SeedableRng, rngs::StdRng, seq::SliceRandom};
use serde_json::{Value, json};

// ---------------------------------------------------------------- recorder

#[derive(Clone, Debug, PartialEq, Eq, PartialOrd, Ord)]
enum Tk {
    B(u8),
    Bag(Vec<Vec<Tk>>),
}

static ODD: AtomicU64 = AtomicU64::new(0); // sub-hashes not followed by their sum
static MISMATCH: AtomicU64 = AtomicU64::new(0); // recorder disagrees with plain hasher

struct Rec {
    sip: Sip128Hasher,
    toks: Vec<Tk>,
    pend: Mutex<Vec<(Vec<Tk>, u128)>>,
}

fn sip(seed: u64) -> Sip128Hasher { SeededStableHasherBuilder::<Sip128Hasher>::new(seed).build_stable_hasher() }

impl Rec {
    fn new(seed: u64) -> Self { Self { sip: sip(seed), toks: vec![], pend: Mutex::new(vec![]) } }

    /// Emit the pending multiset; returns true if `next` is exactly the
    /// wrapping sum of the pending sub-hashes (then it is part of the token).
    fn flush(&mut self, next: Option<&[u8]>) -> bool {
        let pend = std::mem::take(&mut *self.pend.lock().unwrap());
        if pend.is_empty() {
            return false;
        }
        let sum = pend.iter().fold(0u128, |a, p| a.wrapping_add(p.1));
        let mut subs: Vec<Vec<Tk>> = pend.into_iter().map(|p| p.0).collect();
        subs.sort();
        self.toks.push(Tk::Bag(subs));
        if next == Some(&sum.to_le_bytes()[..]) {
            true
        } else {
            ODD.fetch_add(1, Ordering::SeqCst);
            false
        }
    }

    fn into_stream(mut self) -> Vec<Tk> {
        self.flush(None);
        self.toks
    }
}

impl StableHasher for Rec {
    type Hash = u128;

    fn finish(&self) -> u128 { StableHasher::finish(&self.sip) }

    fn write(&mut self, bytes: &[u8]) {
        let folded = self.flush(Some(bytes));
        StableHasher::write(&mut self.sip, bytes);
        if !folded {
            self.toks.extend(bytes.iter().map(|b| Tk::B(*b)));
        }
    }

    fn sub_hash(&self, f: &mut dyn FnMut(&mut dyn StableHasher<Hash = u128>)) -> u128 {
        // exactly what `impl StableHasher for SipHasher` does: continue from a copy
        let mut sub = Rec { sip: self.sip, toks: vec![], pend: Mutex::new(vec![]) };
        f(&mut sub);
        let h = StableHasher::finish(&sub);
        let st = sub.into_stream();
        self.pend.lock().unwrap().push((st, h));
        h
    }
}

fn show(s: &[Tk], out: &mut String) {
    for t in s {
        match t {
            Tk::B(b) => out.push_str(&format!("{b:02x}")),
            Tk::Bag(subs) => {
                out.push('{');
                for (i, x) in subs.iter().enumerate() {
                    if i > 0 {
                        out.push('|');
                    }
                    show(x, out);
                }
                out.push('}');
            }
        }
    }
}

#[derive(Clone, PartialEq, Eq, Debug)]
struct Ob {
    s: String,
    h0: u128,
    h1: u128,
}

struct Out {
    seed1: u64,
    obs: Vec<(String, Option<String>, Ob, Vec<String>, BTreeSet<String>)>, // tyx, abs override, ob, forms, orders
    evals: u64,
}

impl Out {
    fn new(seed1: u64) -> Self { Self { seed1, obs: vec![], evals: 0 } }

    fn observe<T: StableHash + ?Sized>(&mut self, v: &T) -> Ob {
        let mut hs = [0u128; 2];
        let mut ss = [String::new(), String::new()];
        for (n, seed) in [0u64, self.seed1].into_iter().enumerate() {
            if MUTANT.load(Ordering::SeqCst) == 3 {
                // selftest only: a hasher whose length prefix is the off-by-one compact code
                let mut r = OffByOne(Rec::new(seed));
                v.stable_hash(&mut r);
                hs[n] = StableHasher::finish(&r);
                show(&r.0.into_stream(), &mut ss[n]);
                self.evals += 1;
                continue;
            }
            let mut r = Rec::new(seed);
            v.stable_hash(&mut r);
            hs[n] = StableHasher::finish(&r);
            show(&r.into_stream(), &mut ss[n]);
            let mut p = sip(seed);
            v.stable_hash(&mut p);
            let mut d = sip(seed);
            {
                let dd: &mut dyn StableHasher<Hash = u128> = &mut d;
                v.stable_hash(dd);
            }
            if StableHasher::finish(&p) != hs[n] || StableHasher::finish(&d) != hs[n] {
                MISMATCH.fetch_add(1, Ordering::SeqCst);
            }
            self.evals += 3;
        }
        if ss[0] != ss[1] {
            MISMATCH.fetch_add(1, Ordering::SeqCst);
        }
        Ob { s: std::mem::take(&mut ss[0]), h0: hs[0], h1: hs[1] }
    }

    fn add_x<T: StableHash + ?Sized>(&mut self, tyx: &str, form: &str, v: &T, abs: Option<String>, ord: Option<String>) {
        let ob = self.observe(v);
        for e in self.obs.iter_mut() {
            if e.0 == tyx && e.1 == abs && e.2 == ob {
                e.3.push(form.to_string());
                if let Some(o) = ord {
                    e.4.insert(o);
                }
                return;
            }
        }
        self.obs.push((tyx.to_string(), abs, ob, vec![form.to_string()], ord.into_iter().collect()));
    }

    fn add<T: StableHash + ?Sized>(&mut self, tyx: &str, form: &str, v: &T) { self.add_x(tyx, form, v, None, None) }

    /// every pointer / ownership wrapper around a sized value
    fn sized<T: StableHash + Clone>(&mut self, tyx: &str, abs: &Option<String>, v: &T) {
        self.add_x(tyx, "T", v, abs.clone(), None);
        self.add_x::<&T>(tyx, "&T", &v, abs.clone(), None);
        let mut c = v.clone();
        self.add_x::<&mut T>(tyx, "&mut T", &(&mut c), abs.clone(), None);
        self.add_x(tyx, "clone", &v.clone(), abs.clone(), None);
        self.add_x(tyx, "Box<T>", &Box::new(v.clone()), abs.clone(), None);
        self.add_x(tyx, "Rc<T>", &Rc::new(v.clone()), abs.clone(), None);
        self.add_x(tyx, "Arc<T>", &Arc::new(v.clone()), abs.clone(), None);
        self.add_x(tyx, "Cow::Borrowed", &Cow::Borrowed(v), abs.clone(), None);
        self.add_x(tyx, "Cow::Owned", &Cow::<T>::Owned(v.clone()), abs.clone(), None);
        self.add_x(tyx, "Box<Arc<&T>>", &Box::new(Arc::new(v)), abs.clone(), None);
    }

    fn to_json(&self) -> Value {
        Value::Array(
            self.obs
                .iter()
                .map(|(x, a, o, f, ord)| json!({"x": x, "abs": a, "s": o.s, "h0": format!("{:032x}", o.h0), "h1": format!("{:032x}", o.h1), "forms": f, "ord": ord}))
                .collect(),
        )
    }
}

fn codec_rt<T: Encode + Decode>(v: &T) -> T {
    let p = Plugin::new();
    let b = qbice_serialize::postcard::encode(v, &p).expect("encode");
    qbice_serialize::postcard::decode(&b, &p).expect("decode")
}

fn order_sig<I: Iterator>(it: I) -> String
where
    I::Item: Debug,
{
    let mut h = DefaultHasher::new();
    format!("{:?}", it.collect::<Vec<_>>()).hash(&mut h);
    format!("{:08x}", h.finish() as u32)
}

// ------------------------------------------------ hasher state of std maps

/// A deterministic, seedable `BuildHasher`: different seeds give different
/// bucket layouts, i.e. different iteration orders for the same content.
#[derive(Clone, Copy, Default, Debug)]
struct Sd(u64);

impl BuildHasher for Sd {
    type Hasher = DefaultHasher;

    fn build_hasher(&self) -> DefaultHasher {
        let mut h = DefaultHasher::new();
        h.write_u64(self.0);
        h
    }
}

struct Cx {
    rng: StdRng,
}

impl Cx {
    fn sd(&mut self) -> Sd { Sd(self.rng.r#gen()) }

    fn cap(&mut self) -> usize { if self.rng.gen_bool(0.3) { 0 } else { self.rng.gen_range(1..300) } }
}

// ------------------------------------------------------ model reps -> Rust

#[derive(Clone, Debug, PartialEq, Eq, Hash, StableHash, Encode, Decode)]
#[stable_hash_crate(qbice_stable_hash)]
#[serialize_crate(qbice_serialize)]
enum EnumE {
    A,
    B(u8),
    C { x: u8, y: Vec<u8> },
    D(Vec<u8>),
}

/// `HashSet<u8>` usable as an element of a `HashSet` (std's set is not `Hash`);
/// the derive makes the stream exactly the inner set's.
#[derive(Clone, Debug, StableHash, Encode, Decode)]
#[stable_hash_crate(qbice_stable_hash)]
#[serialize_crate(qbice_serialize)]
struct HSet(HashSet<u8, Sd>);

impl PartialEq for HSet {
    fn eq(&self, o: &Self) -> bool { self.0 == o.0 }
}
impl Eq for HSet {}
impl Hash for HSet {
    fn hash<H: Hasher>(&self, h: &mut H) {
        let mut v: Vec<u8> = self.0.iter().copied().collect();
        v.sort();
        v.hash(h);
    }
}

#[derive(Clone, Debug, StableHash)]
#[stable_hash_crate(qbice_stable_hash)]
struct PairStruct<'a> {
    a: &'a str,
    b: Arc<str>,
}

trait M: Sized + StableHash + Clone + Debug + Encode + Decode + 'static {
    fn from_rep(v: &Value, cx: &mut Cx) -> Self;
    fn rt(&self) -> Self { codec_rt(self) }
}

fn arr(v: &Value) -> &[Value] {
    match v {
        Value::Array(a) => a,
        Value::Object(o) if o.is_empty() => &[],
        _ => panic!("expected array, got {v}"),
    }
}

impl M for u8 {
    fn from_rep(v: &Value, _: &mut Cx) -> Self { v.as_u64().expect("u8") as u8 }
}
impl M for () {
    fn from_rep(_: &Value, _: &mut Cx) -> Self {}
}
impl M for String {
    fn from_rep(v: &Value, _: &mut Cx) -> Self { String::from_utf8(arr(v).iter().map(|b| b.as_u64().unwrap() as u8).collect()).unwrap() }
}
impl<T: M> M for Vec<T> {
    fn from_rep(v: &Value, cx: &mut Cx) -> Self { arr(v).iter().map(|e| T::from_rep(e, cx)).collect() }
}
impl<T: M> M for Option<T> {
    fn from_rep(v: &Value, cx: &mut Cx) -> Self { arr(v).first().map(|e| T::from_rep(e, cx)) }
}
impl<A: M, B: M> M for Result<A, B> {
    fn from_rep(v: &Value, cx: &mut Cx) -> Self {
        let a = arr(v);
        if a[0].as_u64() == Some(0) { Ok(A::from_rep(&a[1], cx)) } else { Err(B::from_rep(&a[1], cx)) }
    }
}
impl<A: M, B: M> M for (A, B) {
    fn from_rep(v: &Value, cx: &mut Cx) -> Self {
        let a = arr(v);
        (A::from_rep(&a[0], cx), B::from_rep(&a[1], cx))
    }
}
impl<T: M + Eq + Hash> M for HashSet<T, Sd> {
    fn from_rep(v: &Value, cx: &mut Cx) -> Self {
        let mut s = HashSet::with_capacity_and_hasher(cx.cap(), cx.sd());
        for e in arr(v) {
            s.insert(T::from_rep(e, cx));
        }
        s
    }
}
impl M for HSet {
    fn from_rep(v: &Value, cx: &mut Cx) -> Self { HSet(M::from_rep(v, cx)) }
}
impl<K: M + Eq + Hash, V: M> M for HashMap<K, V, Sd> {
    fn from_rep(v: &Value, cx: &mut Cx) -> Self {
        let mut s = HashMap::with_capacity_and_hasher(cx.cap(), cx.sd());
        for e in arr(v) {
            let (k, x) = <(K, V)>::from_rep(e, cx);
            s.insert(k, x);
        }
        s
    }
}
impl<K: M + Ord, V: M> M for BTreeMap<K, V> {
    fn from_rep(v: &Value, cx: &mut Cx) -> Self { arr(v).iter().map(|e| <(K, V)>::from_rep(e, cx)).collect() }
}
impl M for EnumE {
    fn from_rep(v: &Value, cx: &mut Cx) -> Self {
        let a = arr(v);
        let f = arr(&a[1]);
        match a[0].as_u64().unwrap() {
            0 => EnumE::A,
            1 => EnumE::B(u8::from_rep(&f[0], cx)),
            2 => EnumE::C { x: u8::from_rep(&f[0], cx), y: M::from_rep(&f[1], cx) },
            3 => EnumE::D(M::from_rep(&f[0], cx)),
            d => panic!("variant {d}"),
        }
    }
}

// --------------------------------------------------- selftest mutants only
// Deliberately wrong `StableHash` impls, used by `./check C13 --selftest`
// (`--mutant nolen|order`) to show that recorder + judge catch a framing
// without length prefixes and an order-dependent combination on real hashing.
static MUTANT: AtomicU64 = AtomicU64::new(0);

struct BadPair<'a>(&'a str, &'a str);
impl StableHash for BadPair<'_> {
    fn stable_hash<H: StableHasher + ?Sized>(&self, state: &mut H) {
        state.write(self.0.as_bytes());
        state.write(self.1.as_bytes());
    }
}
struct BadSet<'a, T>(&'a HashSet<T, Sd>);
impl<T: StableHash> StableHash for BadSet<'_, T> {
    fn stable_hash<H: StableHasher + ?Sized>(&self, state: &mut H) {
        state.write_length_prefix(self.0.len());
        for x in self.0 {
            x.stable_hash(state);
        }
    }
}

/// `--mutant lenoffbyone`: the recording hasher with `write_length_prefix`
/// replaced by the compact code with the off-by-one threshold (one byte for
/// `len <= 0xFF`, else `0xFF` + u64): the length 255 is written as the escape
/// byte.  Never used outside the selftest; the code under test is untouched.
struct OffByOne(Rec);
impl StableHasher for OffByOne {
    type Hash = u128;

    fn finish(&self) -> u128 { StableHasher::finish(&self.0) }

    fn write(&mut self, bytes: &[u8]) { StableHasher::write(&mut self.0, bytes) }

    fn sub_hash(&self, f: &mut dyn FnMut(&mut dyn StableHasher<Hash = u128>)) -> u128 { self.0.sub_hash(f) }

    fn write_length_prefix(&mut self, len: usize) {
        if len <= 0xFF {
            self.write_u8(len as u8);
        } else {
            self.write_u8(0xFF);
            self.write_u64(len as u64);
        }
    }
}

// ------------------------------------------------------ top-level histories

trait Top: M {
    fn empty(_cx: &mut Cx) -> Self { panic!("history of a product must start with `set`") }
    fn apply(&mut self, op: &str, x: &Value, cx: &mut Cx);
    fn forms(&self, o: &mut Out, cx: &mut Cx) {
        let _ = cx;
        o.sized("", &None, self);
        o.add("", "decode(encode)", &self.rt());
    }
}

fn common<T: Top>(t: &mut T, op: &str) -> bool {
    match op {
        "clone" => *t = t.clone(),
        "roundtrip" => *t = t.rt(),
        _ => return false,
    }
    true
}

macro_rules! product_top {
    ($($t:ty),* $(,)?) => {$(
        impl Top for $t {
            fn empty(cx: &mut Cx) -> Self { let _ = cx; product_empty::<$t>() }
            fn apply(&mut self, op: &str, x: &Value, cx: &mut Cx) {
                if common(self, op) { return; }
                match op { "set" => *self = M::from_rep(x, cx), _ => panic!("op {op} on product") }
            }
        }
    )*};
}
fn product_empty<T>() -> T { panic!("history of a product must start with `set`") }
product_top!(u8, Option<u8>, Option<Option<u8>>, (Option<u8>, Vec<u8>), Result<u8, String>, EnumE, (EnumE, u8));

impl Top for (HashSet<u8, Sd>, HashSet<u8, Sd>) {
    fn apply(&mut self, op: &str, x: &Value, cx: &mut Cx) {
        if common(self, op) {
            return;
        }
        assert_eq!(op, "set");
        *self = M::from_rep(x, cx);
    }
}

impl Top for (String, String) {
    fn apply(&mut self, op: &str, x: &Value, cx: &mut Cx) {
        if common(self, op) {
            return;
        }
        assert_eq!(op, "set");
        *self = M::from_rep(x, cx);
    }
    fn forms(&self, o: &mut Out, _: &mut Cx) {
        if MUTANT.load(Ordering::SeqCst) == 1 {
            return o.add("", "MUTANT(no length prefix)", &BadPair(&self.0, &self.1));
        }
        o.sized("", &None, self);
        o.add("", "decode(encode)", &self.rt());
        // owned vs shared storage of the same abstract pair
        let (a, b) = (self.0.as_str(), self.1.as_str());
        o.add("", "(&str,&str)", &(a, b));
        o.add("", "(Arc<str>,Box<str>)", &(Arc::<str>::from(a), Box::<str>::from(b)));
        o.add("", "(Rc<str>,Cow<String>)", &(Rc::<str>::from(a), Cow::Borrowed(&self.1)));
        o.add("", "(Box<str>,Arc<String>)", &(codec_rt(&Box::<str>::from(a)), Arc::new(self.1.clone())));
        o.add("#struct", "struct{a:&str,b:Arc<str>}", &PairStruct { a, b: Arc::from(b) });
    }
}

impl<T: M> Top for Vec<T> {
    fn empty(cx: &mut Cx) -> Self { Vec::with_capacity(cx.cap()) }
    fn apply(&mut self, op: &str, x: &Value, cx: &mut Cx) {
        if common(self, op) {
            return;
        }
        match op {
            "push" => self.push(T::from_rep(x, cx)),
            "pop" => {
                self.pop().expect("pop");
            }
            "reserve" => self.reserve(cx.cap()),
            "shrink" => self.shrink_to_fit(),
            _ => panic!("op {op} on Vec"),
        }
    }
    fn forms(&self, o: &mut Out, cx: &mut Cx) {
        o.sized("", &None, self);
        o.add("", "decode(encode)", &self.rt());
        o.add::<[T]>("", "[T]", &self[..]);
        o.add("", "Box<[T]>", &self.clone().into_boxed_slice());
        o.add("", "Arc<[T]>", &Arc::<[T]>::from(self.clone()));
        o.add("", "Rc<[T]>", &Rc::<[T]>::from(self.clone()));
        o.add("", "decode Arc<[T]>", &codec_rt(&Arc::<[T]>::from(self.clone())));
        match self.len() {
            0 => o.add::<[T; 0]>("", "[T;0]", &[]),
            1 => o.add("", "[T;1]", &[self[0].clone()]),
            2 => o.add("", "[T;2]", &[self[0].clone(), self[1].clone()]),
            3 => o.add("", "[T;3]", &[self[0].clone(), self[1].clone(), self[2].clone()]),
            _ => {}
        }
        // other sequence types: same framing rule, their own type group
        let k = if self.is_empty() { 0 } else { cx.rng.gen_range(0..=self.len()) };
        let mut d = VecDeque::with_capacity(cx.cap());
        for x in &self[k..] {
            d.push_back(x.clone());
        }
        for x in self[..k].iter().rev() {
            d.push_front(x.clone()); // wraps around the ring buffer
        }
        o.add("#VecDeque", "VecDeque(ring)", &d);
        o.add("#VecDeque", "VecDeque(from Vec)", &VecDeque::from(self.clone()));
        o.add("#VecDeque", "decode VecDeque", &codec_rt(&d));
        o.add("#LinkedList", "LinkedList", &self.iter().cloned().collect::<LinkedList<T>>());
    }
}

impl Top for String {
    fn empty(cx: &mut Cx) -> Self { String::with_capacity(cx.cap()) }
    fn apply(&mut self, op: &str, x: &Value, cx: &mut Cx) {
        if common(self, op) {
            return;
        }
        match op {
            "push" => self.push(x.as_u64().unwrap() as u8 as char),
            "pop" => {
                self.pop().expect("pop");
            }
            "reserve" => self.reserve(cx.cap()),
            "shrink" => self.shrink_to_fit(),
            _ => panic!("op {op} on String"),
        }
    }
    fn forms(&self, o: &mut Out, _: &mut Cx) { string_forms(o, "", &None, self) }
}

fn string_forms(o: &mut Out, tyx: &str, abs: &Option<String>, s: &String) {
    o.sized(tyx, abs, s);
    o.add_x(tyx, "decode(encode)", &codec_rt(s), abs.clone(), None);
    o.add_x::<str>(tyx, "str", s.as_str(), abs.clone(), None);
    o.add_x::<&str>(tyx, "&str", &s.as_str(), abs.clone(), None);
    o.add_x(tyx, "Box<str>", &Box::<str>::from(s.as_str()), abs.clone(), None);
    o.add_x(tyx, "Arc<str>", &Arc::<str>::from(s.as_str()), abs.clone(), None);
    o.add_x(tyx, "Rc<str>", &Rc::<str>::from(s.as_str()), abs.clone(), None);
    o.add_x(tyx, "decode Arc<str>", &codec_rt(&Arc::<str>::from(s.as_str())), abs.clone(), None);
    o.add_x(tyx, "decode Box<str>", &codec_rt(&Box::<str>::from(s.as_str())), abs.clone(), None);
}

impl<T: M + Eq + Hash> Top for HashSet<T, Sd> {
    fn empty(cx: &mut Cx) -> Self { HashSet::with_capacity_and_hasher(cx.cap(), cx.sd()) }
    fn apply(&mut self, op: &str, x: &Value, cx: &mut Cx) {
        if common(self, op) {
            return;
        }
        match op {
            "ins" => {
                self.insert(T::from_rep(x, cx));
            }
            "rem" => assert!(self.remove(&T::from_rep(x, cx)), "rem of absent element"),
            "reserve" => self.reserve(cx.cap()),
            "shrink" => self.shrink_to_fit(),
            "rehash" => {
                let mut n = HashSet::with_capacity_and_hasher(cx.cap(), cx.sd());
                n.extend(self.drain());
                *self = n;
            }
            _ => panic!("op {op} on HashSet"),
        }
    }
    fn forms(&self, o: &mut Out, cx: &mut Cx) {
        if MUTANT.load(Ordering::SeqCst) == 2 {
            return o.add_x("", "MUTANT(iteration order)", &BadSet(self), None, Some(order_sig(self.iter())));
        }
        o.sized("", &None, self);
        o.add_x("", "T(order)", self, None, Some(order_sig(self.iter())));
        let r = self.rt();
        o.add_x("", "decode(encode)", &r, None, Some(order_sig(r.iter())));
        let rs: HashSet<T> = self.iter().cloned().collect();
        o.add_x("", "HashSet<RandomState>", &rs, None, Some(order_sig(rs.iter())));
        let d = dashmap::DashSet::with_hasher(cx.sd());
        for x in self {
            d.insert(x.clone());
        }
        o.add("#DashSet", "DashSet<Sd>", &d);
        let d2: dashmap::DashSet<T> = self.iter().cloned().collect();
        o.add("#DashSet", "DashSet<RandomState>", &d2);
    }
}

impl<K: M + Eq + Hash, V: M> Top for HashMap<K, V, Sd> {
    fn empty(cx: &mut Cx) -> Self { HashMap::with_capacity_and_hasher(cx.cap(), cx.sd()) }
    fn apply(&mut self, op: &str, x: &Value, cx: &mut Cx) {
        if common(self, op) {
            return;
        }
        match op {
            "ins" => {
                let (k, v) = <(K, V)>::from_rep(x, cx);
                self.insert(k, v);
            }
            "rem" => assert!(self.remove(&K::from_rep(x, cx)).is_some(), "rem of absent key"),
            "reserve" => self.reserve(cx.cap()),
            "shrink" => self.shrink_to_fit(),
            "rehash" => {
                let mut n = HashMap::with_capacity_and_hasher(cx.cap(), cx.sd());
                n.extend(self.drain());
                *self = n;
            }
            _ => panic!("op {op} on HashMap"),
        }
    }
    fn forms(&self, o: &mut Out, cx: &mut Cx) {
        o.sized("", &None, self);
        o.add_x("", "T(order)", self, None, Some(order_sig(self.iter())));
        let r = self.rt();
        o.add_x("", "decode(encode)", &r, None, Some(order_sig(r.iter())));
        let rs: HashMap<K, V> = self.iter().map(|(k, v)| (k.clone(), v.clone())).collect();
        o.add_x("", "HashMap<RandomState>", &rs, None, Some(order_sig(rs.iter())));
        let shards = 1usize << cx.rng.gen_range(1..6);
        let d = dashmap::DashMap::with_hasher_and_shard_amount(cx.sd(), shards);
        for (k, v) in self {
            d.insert(k.clone(), v.clone());
        }
        o.add("#DashMap", "DashMap<Sd,shards>", &d);
        let d2: dashmap::DashMap<K, V> = self.iter().map(|(k, v)| (k.clone(), v.clone())).collect();
        o.add("#DashMap", "DashMap<RandomState>", &d2);
        o.add("#DashMap", "ReadOnlyView", &d.into_read_only());
    }
}

impl<V: M> Top for BTreeMap<u8, V> {
    fn empty(_: &mut Cx) -> Self { BTreeMap::new() }
    fn apply(&mut self, op: &str, x: &Value, cx: &mut Cx) {
        if common(self, op) {
            return;
        }
        match op {
            "ins" => {
                let (k, v) = <(u8, V)>::from_rep(x, cx);
                self.insert(k, v);
            }
            "rem" => assert!(self.remove(&u8::from_rep(x, cx)).is_some(), "rem of absent key"),
            _ => panic!("op {op} on BTreeMap"),
        }
    }
    fn forms(&self, o: &mut Out, _: &mut Cx) {
        o.sized("", &None, self);
        o.add("", "decode(encode)", &self.rt());
        let keys: BTreeSet<u8> = self.keys().copied().collect();
        let abs = Some(format!("{keys:?}"));
        o.sized("#BTreeSet(keys)", &abs, &keys);
        o.add_x("#BTreeSet(keys)", "decode(encode)", &codec_rt(&keys), abs, None);
    }
}

fn run<T: Top>(hist: &[Value], cx: &mut Cx, o: &mut Out) {
    let mut cur: Option<T> = None;
    for op in hist {
        let name = op["op"].as_str().unwrap();
        if name == "set" {
            cur = Some(T::from_rep(&op["x"], cx));
            continue;
        }
        if cur.is_none() {
            cur = Some(T::empty(cx));
        }
        cur.as_mut().unwrap().apply(name, &op["x"], cx);
    }
    let v = cur.unwrap_or_else(|| T::empty(cx));
    v.forms(o, cx);
}

/// BinaryHeap<u8>: no Encode/Decode in qbice_serialize; round trip through Vec.
fn run_heap(hist: &[Value], cx: &mut Cx, o: &mut Out) {
    let mut h: BinaryHeap<u8> = BinaryHeap::with_capacity(cx.cap());
    for op in hist {
        match op["op"].as_str().unwrap() {
            "ins" => h.push(op["x"].as_u64().unwrap() as u8),
            "popmax" => {
                h.pop().expect("popmax");
            }
            "reserve" => h.reserve(cx.cap()),
            "shrink" => h.shrink_to_fit(),
            "clone" => h = h.clone(),
            "roundtrip" => h = BinaryHeap::from(codec_rt(&h.clone().into_vec())),
            "rehash" => {
                let mut v = h.into_vec();
                v.shuffle(&mut cx.rng);
                h = BinaryHeap::new();
                for x in v {
                    h.push(x);
                }
            }
            x => panic!("op {x} on BinaryHeap"),
        }
    }
    o.sized("", &None, &h);
    o.add_x("", "T(order)", &h, None, Some(order_sig(h.iter())));
    let s = BinaryHeap::from(h.clone().into_sorted_vec());
    o.add_x("", "from sorted", &s, None, Some(order_sig(s.iter())));
}

// ------------------------------------------------------------ leaf catalogue

#[derive(Clone, Debug, StableHash, Encode, Decode)]
#[stable_hash_crate(qbice_stable_hash)]
#[serialize_crate(qbice_serialize)]
struct Named {
    a: String,
    b: Vec<u8>,
    c: u16,
}
#[derive(Clone, Debug, StableHash)]
#[stable_hash_crate(qbice_stable_hash)]
struct Tuple3(String, Vec<u8>, u16);
#[derive(Clone, Debug, StableHash)]
#[stable_hash_crate(qbice_stable_hash)]
struct UnitS;
#[derive(Debug, StableHash)]
#[stable_hash_crate(qbice_stable_hash)]
struct Gen<T, U: ?Sized> {
    p: std::marker::PhantomData<T>,
    o: Option<T>,
    t: T,
    u: Box<U>,
}
#[derive(Clone, Debug, StableHash)]
#[stable_hash_crate(qbice_stable_hash)]
#[repr(u8)]
enum ReprE {
    X = 7,
    Y(u16) = 200,
    Z { s: String } = 9,
}

/// enums whose discriminants are only PARTLY written out: an implicit discriminant continues from the
/// previous explicit one, so a declared value can equal another variant's position
#[derive(Clone, Debug, StableHash)]
#[stable_hash_crate(qbice_stable_hash)]
enum PrioE {
    Low = 1,
    Normal,
    High,
    Top = 0,
}
#[derive(Clone, Debug, StableHash)]
#[stable_hash_crate(qbice_stable_hash)]
#[repr(u8)]
enum OpE {
    Push(u16) = 1,
    Pop(u16),
    Nop,
    Jmp { to: u16 } = 0,
}

fn rnd_string(r: &mut StdRng) -> String {
    let n = r.gen_range(1..24);
    (0..n).map(|_| r.gen_range(b' '..=b'~') as char).collect()
}

fn str_class(cls: &str, r: &mut StdRng) -> String {
    match cls {
        "empty" => String::new(),
        "a" => "a".into(),
        "ab" => "ab".into(),
        "a_b" => "a/b".into(),
        "nul" => "a\0b".into(),
        _ => rnd_string(r),
    }
}

macro_rules! int_val {
    ($t:ty, $cls:expr, $r:expr) => {{
        let v: $t = match $cls {
            "zero" => 0,
            "one" => 1,
            "max" => <$t>::MAX,
            "min" => {
                if <$t>::MIN != 0 {
                    <$t>::MIN
                } else {
                    <$t>::MAX / 2 + 1
                }
            }
            "lowbyte" => 0xFFu8 as $t,
            "highbyte" => (1 as $t) << (<$t>::BITS - 8),
            "rnd2" => {
                let _: $t = $r.r#gen();
                $r.r#gen()
            }
            _ => $r.r#gen(),
        };
        v
    }};
}

macro_rules! int_leaf {
    ($t:ty, $cls:expr, $r:expr, $o:expr) => {{
        let v = int_val!($t, $cls, $r);
        let abs = Some(format!("{v:?}"));
        $o.sized("", &abs, &v);
        $o.add_x("", "decode(encode)", &codec_rt(&v), abs, None);
    }};
}

macro_rules! nonzero_leaf {
    ($o:expr, $cls:expr, $r:expr, $($nz:ident $t:ty),*) => {{$({
        let mut v = int_val!($t, $cls, $r);
        if v == 0 { v = 1; }
        let nz = std::num::$nz::new(v).unwrap();
        let abs = Some(format!("{v:?}"));
        let x = concat!("#", stringify!($nz));
        $o.sized(x, &abs, &nz);
        $o.add_x(x, "decode(encode)", &codec_rt(&nz), abs, None);
    })*}};
}

macro_rules! atomic_leaf {
    ($o:expr, $cls:expr, $r:expr, $($at:ident $t:ty),*) => {{$({
        let v = int_val!($t, $cls, $r);
        let a = std::sync::atomic::$at::new(v);
        let abs = Some(format!("{v:?}"));
        let x = concat!("#", stringify!($at));
        $o.add_x(x, "T", &a, abs.clone(), None);
        $o.add_x(x, "&T", &&a, abs.clone(), None);
        $o.add_x(x, "Arc<T>", &Arc::new(std::sync::atomic::$at::new(v)), abs.clone(), None);
        $o.add_x(x, "decode(encode)", &codec_rt(&a), abs, None);
    })*}};
}

macro_rules! float_leaf {
    ($t:ty, $b:ty, $cls:expr, $r:expr, $o:expr, $payload:expr, $neg:expr) => {{
        let v: $t = match $cls {
            "zero" => 0.0,
            "negzero" => -0.0,
            "one" => 1.0,
            "inf" => <$t>::INFINITY,
            "neginf" => <$t>::NEG_INFINITY,
            "nan" => <$t>::NAN,
            "nan_payload" => <$t>::from_bits($payload),
            "nan_neg" => <$t>::from_bits($neg),
            "subnormal" => <$t>::from_bits(1),
            _ => <$t>::from_bits($r.r#gen::<$b>()),
        };
        // equal values hash equally: floats are compared by BITS (so -0.0 and
        // 0.0 are different values); all NaNs are one value (documented
        // normalisation in write_f32/write_f64).
        let abs = Some(if v.is_nan() { "NaN".to_string() } else { format!("bits:{:x}", v.to_bits()) });
        $o.sized("", &abs, &v);
        $o.add_x("", "decode(encode)", &codec_rt(&v), abs, None);
    }};
}

fn leaf(ty: &str, cls: &str, seed: u64, o: &mut Out) {
    let mut hs = DefaultHasher::new();
    (ty, seed).hash(&mut hs);
    let mut rng = StdRng::seed_from_u64(hs.finish());
    let r = &mut rng;
    match ty {
        "u8full" => int_leaf!(u8, cls, r, o),
        "i8" => int_leaf!(i8, cls, r, o),
        "u16" => int_leaf!(u16, cls, r, o),
        "i16" => int_leaf!(i16, cls, r, o),
        "u32" => int_leaf!(u32, cls, r, o),
        "i32" => int_leaf!(i32, cls, r, o),
        "u64" => int_leaf!(u64, cls, r, o),
        "i64" => int_leaf!(i64, cls, r, o),
        "u128" => int_leaf!(u128, cls, r, o),
        "i128" => int_leaf!(i128, cls, r, o),
        "usize" => int_leaf!(usize, cls, r, o),
        "isize" => int_leaf!(isize, cls, r, o),
        "bool" => {
            let v = cls == "one";
            let abs = Some(format!("{v}"));
            o.sized("", &abs, &v);
            o.add_x("", "decode(encode)", &codec_rt(&v), abs, None);
        }
        "char" => {
            let v: char = match cls {
                "zero" => '\0',
                "one" => 'a',
                "max" => char::MAX,
                "rnd2" => {
                    let _: char = r.r#gen();
                    r.r#gen()
                }
                _ => r.r#gen(),
            };
            let abs = Some(format!("{:x}", v as u32));
            o.sized("", &abs, &v);
            o.add_x("", "decode(encode)", &codec_rt(&v), abs, None);
        }
        "f32" => float_leaf!(f32, u32, cls, r, o, 0x7fc0_0001u32, 0xff80_0001u32),
        "f64" => float_leaf!(f64, u64, cls, r, o, 0x7ff8_0000_0000_0001u64, 0xfff0_0000_0000_0001u64),
        "nonzero" => nonzero_leaf!(o, cls, r, NonZeroU8 u8, NonZeroU16 u16, NonZeroU32 u32, NonZeroU64 u64, NonZeroU128 u128, NonZeroUsize usize,
            NonZeroI8 i8, NonZeroI16 i16, NonZeroI32 i32, NonZeroI64 i64, NonZeroI128 i128, NonZeroIsize isize),
        "atomic" => {
            atomic_leaf!(o, cls, r, AtomicU8 u8, AtomicU16 u16, AtomicU32 u32, AtomicU64 u64, AtomicUsize usize, AtomicI8 i8, AtomicI16 i16, AtomicI32 i32, AtomicI64 i64, AtomicIsize isize);
            let b = cls != "zero";
            o.add_x("#AtomicBool", "T", &std::sync::atomic::AtomicBool::new(b), Some(format!("{b}")), None);
        }
        "duration" => {
            let v = match cls {
                "zero" => std::time::Duration::ZERO,
                "one" => std::time::Duration::from_secs(1),
                "lowbyte" => std::time::Duration::from_nanos(1),
                "max" => std::time::Duration::MAX,
                _ => std::time::Duration::new(r.r#gen(), r.gen_range(0..1_000_000_000)),
            };
            let abs = Some(format!("{v:?}"));
            o.sized("", &abs, &v);
            o.add_x("", "decode(encode)", &codec_rt(&v), abs, None);
        }
        "string" => {
            let s = str_class(cls, r);
            string_forms(o, "", &Some(format!("{s:?}")), &s);
        }
        "path" => {
            let s = str_class(cls, r);
            let abs = Some(format!("{s:?}"));
            let p = std::path::PathBuf::from(&s);
            o.sized("", &abs, &p);
            o.add_x("", "decode(encode)", &codec_rt(&p), abs.clone(), None);
            o.add_x::<std::path::Path>("", "Path", p.as_path(), abs.clone(), None);
            o.add_x("", "Box<Path>", &Box::<std::path::Path>::from(p.as_path()), abs.clone(), None);
            o.add_x("", "Arc<Path>", &Arc::<std::path::Path>::from(p.as_path()), abs.clone(), None);
            let os = std::ffi::OsString::from(&s);
            o.sized("#OsString", &abs, &os);
            o.add_x::<std::ffi::OsStr>("#OsString", "OsStr", os.as_os_str(), abs.clone(), None);
        }
        "cstr" => {
            let s = str_class(cls, r);
            let abs = Some(format!("{s:?}"));
            let c = std::ffi::CString::new(s).unwrap();
            o.sized("", &abs, &c);
            o.add_x::<std::ffi::CStr>("", "CStr", c.as_c_str(), abs.clone(), None);
            o.add_x("", "Box<CStr>", &c.clone().into_boxed_c_str(), abs, None);
        }
        "ranges" => {
            let (a, b): (u16, u16) = match cls {
                "zero" => (0, 0),
                "one" => (0, 1),
                _ => (r.r#gen(), r.r#gen()),
            };
            let both = Some(format!("{a},{b}"));
            o.sized("#Range", &both, &(a..b));
            o.add_x("#Range", "decode(encode)", &codec_rt(&(a..b)), both.clone(), None);
            o.sized("#RangeInclusive", &both, &(a..=b));
            o.sized("#RangeFrom", &Some(format!("{a}")), &(a..));
            o.sized("#RangeTo", &Some(format!("{b}")), &(..b));
            o.sized("#RangeToInclusive", &Some(format!("{b}")), &(..=b));
        }
        "tuples" => {
            let mut e = |i: u8| -> u8 {
                match cls {
                    "zero" => 0,
                    "one" => i,
                    _ => r.r#gen(),
                }
            };
            macro_rules! tup {
                ($n:expr; $($i:expr),*) => {{
                    let t = ($(e($i),)*);
                    let abs = Some(format!("{t:?}"));
                    o.sized(concat!("#tuple", $n), &abs, &t);
                }};
            }
            tup!("1"; 1);
            tup!("2"; 1, 2);
            tup!("3"; 1, 2, 3);
            tup!("4"; 1, 2, 3, 4);
            tup!("5"; 1, 2, 3, 4, 5);
            tup!("6"; 1, 2, 3, 4, 5, 6);
            tup!("7"; 1, 2, 3, 4, 5, 6, 7);
            tup!("8"; 1, 2, 3, 4, 5, 6, 7, 8);
            tup!("9"; 1, 2, 3, 4, 5, 6, 7, 8, 9);
            tup!("10"; 1, 2, 3, 4, 5, 6, 7, 8, 9, 10);
            tup!("11"; 1, 2, 3, 4, 5, 6, 7, 8, 9, 10, 11);
            tup!("12"; 1, 2, 3, 4, 5, 6, 7, 8, 9, 10, 11, 12);
        }
        "zerowidth" => {
            let abs = Some("unit".to_string());
            o.sized("#()", &abs, &());
            o.sized("#PhantomData", &abs, &std::marker::PhantomData::<String>);
            o.sized("#RangeFull", &abs, &(..));
            o.sized("#UnitStruct", &abs, &UnitS);
        }
        "compact128" => {
            let v = int_val!(u128, cls, r);
            let c = Compact128::from(v);
            let abs = Some(format!("{v}"));
            assert_eq!(c.to_u128(), v);
            o.sized("", &abs, &c);
            o.add_x("", "decode(encode)", &codec_rt(&c), abs, None);
        }
        "discriminant" => {
            let e = match cls {
                "zero" => [EnumE::A, EnumE::A],
                "one" => [EnumE::B(0), EnumE::B(200)],
                _ => [EnumE::D(vec![]), EnumE::D(vec![1, 2, 3])],
            };
            let abs = Some(cls.to_string());
            o.sized("#Discriminant<EnumE>", &abs, &std::mem::discriminant(&e[0]));
            o.add_x("#Discriminant<EnumE>", "other payload", &std::mem::discriminant(&e[1]), abs.clone(), None);
            if cls != "max" {
                let (a, b) = if cls == "zero" { (None, None) } else { (Some(0u64), Some(u64::MAX)) };
                o.sized("#Discriminant<Option<u64>>", &abs, &std::mem::discriminant(&a));
                o.add_x("#Discriminant<Option<u64>>", "other payload", &std::mem::discriminant(&b), abs.clone(), None);
                let (a, b) = if cls == "zero" { (None, None) } else { (Some(&7u8), Some(&9u8)) }; // niche layout
                o.add_x("#Discriminant<Option<&u8>>", "T", &std::mem::discriminant(&a), abs.clone(), None);
                o.add_x("#Discriminant<Option<&u8>>", "other payload", &std::mem::discriminant(&b), abs, None);
            }
        }
        "interned" => {
            use qbice_storage::intern::{Interned, Interner};
            let s = str_class(cls, r);
            let abs = Some(format!("{s:?}"));
            let ia = Interner::new(2, SeededStableHasherBuilder::<Sip128Hasher>::new(0));
            let ib = Interner::new(16, SeededStableHasherBuilder::<Sip128Hasher>::new(seed));
            let _keep = ia.intern(format!("{s}-other"));
            o.add_x("#Interned<String>", "interner A", &ia.intern(s.clone()), abs.clone(), None);
            o.add_x("#Interned<String>", "interner A again", &ia.intern(s.clone()), abs.clone(), None);
            o.add_x("#Interned<String>", "interner B", &ib.intern(s.clone()), abs.clone(), None);
            o.add_x("#Interned<String>", "new_duplicating", &Interned::new_duplicating(s.clone()), abs.clone(), None);
            o.add_x("#Interned<str>", "intern_unsized A", &ia.intern_unsized::<str, String>(s.clone()), abs.clone(), None);
            o.add_x("#Interned<str>", "intern_unsized B", &ib.intern_unsized::<str, Box<str>>(s.clone().into_boxed_str()), abs.clone(), None);
            // the interner's own content hash must be the plain stable hash
            let hb = ia.hash_128(&s).to_u128();
            let mut p = sip(0);
            s.stable_hash(&mut p);
            if hb != StableHasher::finish(&p) {
                MISMATCH.fetch_add(1, Ordering::SeqCst);
            }
        }
        "derived" => {
            let (a, b, c): (String, Vec<u8>, u16) = match cls {
                "zero" => (String::new(), vec![], 0),
                "one" => ("a".into(), vec![1], 1),
                _ => (rnd_string(r), (0..r.gen_range(0..9)).map(|_| r.r#gen()).collect(), r.r#gen()),
            };
            let abs = Some(format!("{:?}", (&a, &b, c)));
            let n = Named { a: a.clone(), b: b.clone(), c };
            o.sized("#Named", &abs, &n);
            o.add_x("#Named", "decode(encode)", &codec_rt(&n), abs.clone(), None);
            o.sized("#Tuple3", &abs, &Tuple3(a.clone(), b.clone(), c));
            let g = Gen::<u16, str> { p: std::marker::PhantomData, o: if c % 2 == 0 { None } else { Some(c) }, t: c, u: a.clone().into_boxed_str() };
            let gabs = Some(format!("{:?}", (&a, c)));
            o.add_x("#Gen<u16,str>", "T", &g, gabs.clone(), None);
            o.add_x("#Gen<u16,str>", "&T", &&g, gabs.clone(), None);
            o.add_x("#Gen<u16,str>", "Arc<T>", &Arc::new(g), gabs, None);
            let e = [ReprE::X, ReprE::Y(c), ReprE::Z { s: a.clone() }];
            for (i, v) in e.iter().enumerate() {
                let abs = Some(match i {
                    0 => "X".to_string(),
                    1 => format!("Y{c}"),
                    _ => format!("Z{a:?}"),
                });
                o.sized("#ReprE", &abs, v);
            }
            for v in [PrioE::Low, PrioE::Normal, PrioE::High, PrioE::Top] {
                o.sized("#PrioE", &Some(format!("{v:?}")), &v);
            }
            for v in [OpE::Push(c), OpE::Pop(c), OpE::Nop, OpE::Jmp { to: c }] {
                o.sized("#OpE", &Some(format!("{v:?}")), &v);
            }
        }
        _ => panic!("unknown leaf type {ty}"),
    }
}

// ------------------------------------------------ seeded random universe

type R1 = BTreeMap<String, Vec<u32>>;

/// Near-miss mutants of a map content: every result differs from `c`.
fn mutants(c: &R1, r: &mut StdRng) -> Vec<R1> {
    let keys: Vec<String> = c.keys().cloned().collect();
    let mut out = vec![];
    if keys.len() >= 2 {
        let (k1, k2) = (keys[r.gen_range(0..keys.len())].clone(), keys[r.gen_range(0..keys.len())].clone());
        if k1 != k2 {
            let mut m = c.clone(); // move one element across entries
            if let Some(x) = m.get_mut(&k1).unwrap().pop() {
                m.get_mut(&k2).unwrap().insert(0, x);
                out.push(m);
            }
            let mut m = c.clone(); // swap the values of two keys
            let (a, b) = (m[&k1].clone(), m[&k2].clone());
            if a != b {
                m.insert(k1.clone(), b);
                m.insert(k2.clone(), a);
                out.push(m);
            }
        }
    }
    if let Some(k) = keys.first() {
        let mut m = c.clone(); // drop an entry
        m.remove(k);
        out.push(m);
        let mut m = c.clone(); // append a zero
        m.get_mut(k).unwrap().push(0);
        out.push(m);
        let mut m = c.clone(); // split an entry in two
        let v = m.remove(k).unwrap();
        let h = v.len() / 2;
        m.insert(k.clone(), v[..h].to_vec());
        m.insert(format!("{k}x"), v[h..].to_vec());
        if m != *c {
            out.push(m);
        }
        let mut m = c.clone(); // move the last key byte into the value
        let v = m.remove(k).unwrap();
        if !k.is_empty() && !m.contains_key(&k[..k.len() - 1]) && k.is_char_boundary(k.len() - 1) {
            let mut v2 = vec![k.as_bytes()[k.len() - 1] as u32];
            v2.extend(v);
            m.insert(k[..k.len() - 1].to_string(), v2);
            out.push(m);
        }
    }
    out
}

fn rand_universe(n: usize, seed: u64, seed1: u64, w: &mut impl Write, evals: &mut u64) {
    let mut r = StdRng::seed_from_u64(seed ^ 0xC13);
    // hasher seeds / capacities / shuffles differ between the two processes on
    // purpose: contents come from `r`, histories from `hr`.
    let mut hr = StdRng::seed_from_u64(seed ^ std::process::id() as u64);
    for i in 0..n {
        let nk = r.gen_range(0..(if i % 4 == 0 { 60 } else { 6 }));
        let mut base = R1::new();
        for _ in 0..nk {
            let k = if r.gen_bool(0.5) { rnd_string(&mut r) } else { ["", "a", "b", "ab", "ba", "aa"][r.gen_range(0..6)].to_string() };
            let nv = r.gen_range(0..5);
            base.insert(k, (0..nv).map(|_| if r.gen_bool(0.5) { r.gen_range(0..3) } else { r.r#gen() }).collect());
        }
        let mut contents = vec![base.clone()];
        contents.extend(mutants(&base, &mut r));
        for c in contents {
            let abs = Some(format!("{c:?}"));
            let mut o = Out::new(seed1);
            let mut o2 = Out::new(seed1);
            let mut o3 = Out::new(seed1);
            let set_abs = Some(format!("{:?}", c.iter().map(|(k, v)| (v.len() as u64, k.clone())).collect::<BTreeSet<_>>()));
            for hno in 0..4 {
                // history: shuffled insertion, churn, reserve/shrink, hasher seed
                let mut ents: Vec<(String, Vec<u32>)> = c.iter().map(|(k, v)| (k.clone(), v.clone())).collect();
                ents.shuffle(&mut hr);
                let mut m: HashMap<String, Vec<u32>, Sd> = HashMap::with_capacity_and_hasher(if hno % 2 == 0 { 0 } else { hr.gen_range(0..500) }, Sd(hr.r#gen()));
                for (k, v) in &ents {
                    if hr.gen_bool(0.3) {
                        m.insert(format!("{k}~tmp"), vec![1]); // churn: inserted and removed again
                    }
                    if hr.gen_bool(0.3) {
                        m.insert(k.clone(), vec![9, 9]); // overwritten below
                    }
                    m.insert(k.clone(), v.clone());
                }
                m.retain(|k, _| c.contains_key(k));
                match hno {
                    1 => m.shrink_to_fit(),
                    2 => m = codec_rt(&m),
                    3 => m = m.clone(),
                    _ => {}
                }
                let ord = Some(order_sig(m.keys()));
                o.add_x("", &format!("history{hno}"), &m, abs.clone(), ord);
                // R2: HashSet<(u64,String)> and R3: BTreeMap<String,HashSet<u32>> derived from the same content
                let s: HashSet<(u64, String), Sd> = {
                    let mut s = HashSet::with_hasher(Sd(hr.r#gen()));
                    for (k, v) in &ents {
                        s.insert((v.len() as u64, k.clone()));
                    }
                    s
                };
                o2.add_x("", &format!("history{hno}"), &s, set_abs.clone(), Some(order_sig(s.iter())));
                let b: BTreeMap<String, HashSet<u32, Sd>> = ents
                    .iter()
                    .map(|(k, v)| {
                        let mut vv = v.clone();
                        vv.shuffle(&mut hr);
                        let mut hs = HashSet::with_hasher(Sd(hr.r#gen()));
                        hs.extend(vv);
                        (k.clone(), hs)
                    })
                    .collect();
                let babs = Some(format!("{:?}", c.iter().map(|(k, v)| (k, v.iter().collect::<BTreeSet<_>>())).collect::<Vec<_>>()));
                o3.add_x("", &format!("history{hno}"), &b, babs, None);
            }
            for (ty, oo) in [("rand:HashMap<String,Vec<u32>>", &o), ("rand:HashSet<(u64,String)>", &o2), ("rand:BTreeMap<String,HashSet<u32>>", &o3)] {
                *evals += oo.evals;
                writeln!(w, "{}", json!({"i": -1, "ty": ty, "obs": oo.to_json()})).unwrap();
            }
        }
    }
}

// ------------------------------------------------- length-encoding binding

fn hex(b: &[u8]) -> String { b.iter().map(|x| format!("{x:02x}")).collect() }

/// Bytes written by `write_length_prefix(n)` of the tree under test, seen by
/// the recording hasher (static dispatch) and through `dyn StableHasher` as the
/// interner calls it.  `Rec` implements only `write` / `finish` / `sub_hash`:
/// the length prefix comes out of the trait's default method.
fn len_bytes(n: usize) -> (Vec<u8>, Vec<u8>) {
    fn flat(t: Vec<Tk>) -> Vec<u8> {
        t.into_iter().map(|t| if let Tk::B(b) = t { b } else { panic!("bag in a length prefix") }).collect()
    }
    if MUTANT.load(Ordering::SeqCst) == 3 {
        let mut r = OffByOne(Rec::new(0));
        r.write_length_prefix(n);
        let b = flat(r.0.into_stream());
        return (b.clone(), b);
    }
    let mut r = Rec::new(0);
    r.write_length_prefix(n);
    let mut d = Rec::new(0);
    {
        let dd: &mut dyn StableHasher<Hash = u128> = &mut d;
        dd.write_length_prefix(n);
    }
    (flat(r.into_stream()), flat(d.into_stream()))
}

fn unhex(s: &str) -> Vec<u8> { (0..s.len() / 2).map(|i| u8::from_str_radix(&s[2 * i..2 * i + 2], 16).expect("flat stream")).collect() }

/// content of a value as its identity; long contents are abbreviated by their
/// length and two independent 64-bit digests
fn content_abs(parts: &[&[u8]]) -> String {
    let total: usize = parts.iter().map(|p| p.len()).sum();
    if total <= 1400 {
        return parts.iter().map(|p| hex(p)).collect::<Vec<_>>().join("/");
    }
    parts
        .iter()
        .map(|p| {
            let (mut h1, mut h2) = (DefaultHasher::new(), DefaultHasher::new());
            p.hash(&mut h1);
            (0xC13u64, p).hash(&mut h2);
            format!("len{}:{:016x}{:016x}", p.len(), h1.finish(), h2.finish())
        })
        .collect::<Vec<_>>()
        .join("/")
}

struct Fill {
    raw: Vec<u8>,
    ascii: Vec<u8>,
}

impl Fill {
    fn new(seed: u64, n: usize) -> Self {
        let mut r = StdRng::seed_from_u64(seed ^ 0x1E45);
        Self { raw: (0..n).map(|_| r.r#gen()).collect(), ascii: (0..n).map(|_| r.gen_range(b' '..=b'~')).collect() }
    }
}

/// The adversarial construction, generic in the encoder: `en = enc(n)` is a
/// prefix of `em = enc(m)`, n != m.  Long value: (A, B) with |A| = m; its
/// stream is  em ++ A ++ enc(|B|) ++ B.  The same bytes are read as a short
/// value (a, b) with |a| = n:  en ++ a ++ enc(p) ++ b, p = |b|.  Bytes of A and
/// B are free, bytes of the length fields are fixed; a p is searched whose
/// encoding fits at the place where the short reading expects the second
/// length.  `pre` is a common prefix of both streams (the outer length of the
/// nested shape).  Returns ((a, b), (A, B)).
fn construct(n: usize, m: usize, enc: &dyn Fn(usize) -> Vec<u8>, fill: &[u8], ascii: bool) -> Option<((Vec<u8>, Vec<u8>), (Vec<u8>, Vec<u8>))> {
    let (en, em) = (enc(n), enc(m));
    if !em.starts_with(&en) || n == m {
        return None;
    }
    let mut lbs = vec![0usize, 1, 2, 3];
    for x in 0..4 {
        lbs.push(n.saturating_sub(m) + x + 4);
    }
    for lb in lbs {
        let elb = enc(lb);
        let mut l: Vec<Option<u8>> = em.iter().map(|b| Some(*b)).collect();
        l.extend(std::iter::repeat(None).take(m));
        l.extend(elb.iter().map(|b| Some(*b)));
        l.extend(std::iter::repeat(None).take(lb));
        let pos = en.len() + n;
        if pos > l.len() {
            continue;
        }
        let rest = l.len() - pos;
        for q in 0..=rest.min(24) {
            let p = rest - q;
            let ep = enc(p);
            if ep.len() != q || !(0..q).all(|i| l[pos + i].map_or(true, |x| x == ep[i])) {
                continue;
            }
            let mut l2 = l.clone();
            for i in 0..q {
                l2[pos + i] = Some(ep[i]);
            }
            let bytes: Vec<u8> = l2.iter().enumerate().map(|(i, b)| b.unwrap_or(fill[i % fill.len()])).collect();
            let big_a = bytes[em.len()..em.len() + m].to_vec();
            let big_b = bytes[em.len() + m + elb.len()..].to_vec();
            let a = bytes[en.len()..pos].to_vec();
            let b = bytes[pos + q..].to_vec();
            if ascii && [&a, &b, &big_a, &big_b].iter().any(|v| std::str::from_utf8(v).is_err()) {
                continue;
            }
            if (a.clone(), b.clone()) == (big_a.clone(), big_b.clone()) {
                continue;
            }
            return Some(((a, b), (big_a, big_b)));
        }
    }
    None
}

fn lens_mode(path: &str, seed: u64, seed1: u64, w: &mut impl Write) -> u64 {
    const MAX_VALUE: usize = 1 << 21; // real values up to 2 Mi elements
    let fill = Fill::new(seed, 4096);
    let raw = |i: usize| fill.raw[i % 4096];
    let asc = |i: usize| fill.ascii[i % 4096];
    let mut evals = 0u64;
    let mut lens: BTreeMap<usize, Vec<u8>> = BTreeMap::new(); // bare calls
    let emit = |w: &mut dyn Write, o: &Out, ty: &str| writeln!(w, "{}", json!({"i": -1, "ty": ty, "obs": o.to_json()})).unwrap();
    for l in std::io::BufReader::new(std::fs::File::open(path).expect("open lens")).lines() {
        let l = l.unwrap();
        if l.trim().is_empty() {
            continue;
        }
        let it: Value = serde_json::from_str(&l).expect("json");
        match it["k"].as_str().unwrap() {
            "len" => {
                let ns = it["n"].as_str().expect("n as decimal string");
                let Ok(n) = ns.parse::<usize>() else {
                    writeln!(w, "{}", json!({"lenrec": true, "n": ns, "src": "call", "skipped": "does not fit usize"})).unwrap();
                    continue;
                };
                let (a, d) = len_bytes(n);
                writeln!(w, "{}", json!({"lenrec": true, "n": ns, "src": "call", "enc": hex(&a)})).unwrap();
                if d != a {
                    writeln!(w, "{}", json!({"lenrec": true, "n": ns, "src": "call_dyn", "enc": hex(&d)})).unwrap();
                }
                lens.insert(n, a);
                evals += 2;
            }
            "val" => {
                let n = it["n"].as_u64().unwrap() as usize;
                let ty = it["ty"].as_str().unwrap();
                assert!(n <= MAX_VALUE, "value too large");
                let mut o = Out::new(seed1);
                let abs = Some(format!("n={n}"));
                let payload: Vec<u8> = match ty {
                    "vec_u8" => {
                        let v: Vec<u8> = (0..n).map(raw).collect();
                        o.sized("", &abs, &v);
                        o.add_x::<[u8]>("", "[T]", &v[..], abs.clone(), None);
                        o.add_x("", "Arc<[T]>", &Arc::<[u8]>::from(v.clone()), abs.clone(), None);
                        if n <= 300 {
                            o.add_x("#VecDeque", "VecDeque", &v.iter().copied().collect::<VecDeque<u8>>(), abs.clone(), None);
                        }
                        v
                    }
                    "string" => {
                        let v: String = (0..n).map(|i| asc(i) as char).collect();
                        o.sized("", &abs, &v);
                        o.add_x::<str>("", "str", v.as_str(), abs.clone(), None);
                        o.add_x("", "Arc<str>", &Arc::<str>::from(v.as_str()), abs.clone(), None);
                        if n <= 300 {
                            o.add_x("#PathBuf", "PathBuf", &std::path::PathBuf::from(&v), abs.clone(), None);
                        }
                        v.into_bytes()
                    }
                    "vec_u16" => {
                        let v: Vec<u16> = (0..n).map(|i| u16::from_le_bytes([raw(2 * i), raw(2 * i + 1)])).collect();
                        o.sized("", &abs, &v);
                        o.add_x::<[u16]>("", "[T]", &v[..], abs.clone(), None);
                        v.iter().flat_map(|x| x.to_le_bytes()).collect()
                    }
                    _ => panic!("unknown value type {ty}"),
                };
                evals += o.evals;
                // the length prefix as the real value wrote it = stream minus payload
                let st = unhex(&o.obs[0].2.s);
                let ok = st.ends_with(&payload);
                let enc = if ok { &st[..st.len() - payload.len()] } else { &st[..] };
                writeln!(w, "{}", json!({"lenrec": true, "n": n.to_string(), "src": ty, "enc": hex(enc), "payload_ok": ok})).unwrap();
                emit(w, &o, &format!("len:{ty}"));
            }
            "comp" => {
                let ty = it["ty"].as_str().unwrap();
                let ls: Vec<usize> = arr(&it["ls"]).iter().map(|x| x.as_u64().unwrap() as usize).collect();
                let mut o = Out::new(seed1);
                let mut at = 0usize;
                let parts: Vec<Vec<u8>> = ls
                    .iter()
                    .map(|n| {
                        let v: Vec<u8> = (at..at + n).map(|i| if ty == "pair_str_str" { asc(i) } else { raw(i) }).collect();
                        at += n;
                        v
                    })
                    .collect();
                let abs = Some(format!("{:?}|{}", ls, content_abs(&parts.iter().map(|p| &p[..]).collect::<Vec<_>>())));
                observe_comp(&mut o, ty, &parts, &abs);
                evals += o.evals;
                emit(w, &o, &format!("len:{ty}"));
            }
            k => panic!("unknown item kind {k}"),
        }
    }
    // adversarial pairs: every recorded encoding that is a prefix of another
    let enc = |n: usize| len_bytes(n).0;
    let keys: Vec<usize> = lens.keys().copied().collect();
    let (mut prefix_pairs, mut attempted, mut constructed) = (0u64, 0u64, 0u64);
    for &n in &keys {
        let mut ms: Vec<usize> = keys.iter().copied().filter(|&m| m != n && lens[&m].starts_with(&lens[&n])).collect();
        prefix_pairs += ms.len() as u64;
        if ms.len() > 4 {
            // the smallest three and the largest one that can be materialised
            let big = ms.iter().copied().filter(|&m| m <= MAX_VALUE / 8).max();
            ms.truncate(3);
            ms.extend(big);
            ms.dedup();
        }
        for m in ms {
            if m > MAX_VALUE / 8 || n > MAX_VALUE / 8 || attempted >= 48 {
                writeln!(w, "{}", json!({"adv": true, "n": n.to_string(), "m": m.to_string(), "constructed": false, "why": "not attempted (size / cap)"})).unwrap();
                continue;
            }
            attempted += 1;
            for ty in ["pair_vec_u8", "pair_str_str", "vec_vec_u8"] {
                let ascii = ty == "pair_str_str";
                let got = construct(n, m, &enc, if ascii { &fill.ascii } else { &fill.raw }, ascii);
                let Some((short, long)) = got else {
                    writeln!(w, "{}", json!({"adv": true, "n": n.to_string(), "m": m.to_string(), "ty": ty, "constructed": false, "why": "no fitting second length found"})).unwrap();
                    continue;
                };
                constructed += 1;
                let mut res = vec![];
                for (tag, v) in [("short", &short), ("long", &long)] {
                    let parts = vec![v.0.clone(), v.1.clone()];
                    let abs = Some(format!("{:?}|{}", [v.0.len(), v.1.len()], content_abs(&[&v.0, &v.1])));
                    let mut o = Out::new(seed1);
                    observe_comp(&mut o, ty, &parts, &abs);
                    evals += o.evals;
                    emit(w, &o, &format!("adv:{ty}"));
                    res.push(json!({"which": tag, "lens": [v.0.len(), v.1.len()], "h0": format!("{:032x}", o.obs[0].2.h0), "h1": format!("{:032x}", o.obs[0].2.h1), "stream_len": o.obs[0].2.s.len() / 2}));
                }
                let collide = res[0]["h0"] == res[1]["h0"] && res[0]["h1"] == res[1]["h1"];
                writeln!(w, "{}", json!({"adv": true, "n": n.to_string(), "m": m.to_string(), "ty": ty, "constructed": true, "unequal": short != long, "collide": collide, "values": res})).unwrap();
            }
        }
    }
    writeln!(w, "{}", json!({"advsummary": true, "lens": keys.len(), "prefix_pairs": prefix_pairs, "attempted": attempted, "constructed": constructed})).unwrap();
    evals
}

/// a real composite value of the given shape over byte parts, through its storage forms
fn observe_comp(o: &mut Out, ty: &str, parts: &[Vec<u8>], abs: &Option<String>) {
    match ty {
        "pair_vec_u8" => {
            let v = (parts[0].clone(), parts[1].clone());
            o.sized("", abs, &v);
            o.add_x("", "(&[u8],Box<[u8]>)", &(&v.0[..], v.1.clone().into_boxed_slice()), abs.clone(), None);
            o.add_x("", "decode(encode)", &codec_rt(&v), abs.clone(), None);
        }
        "pair_str_str" => {
            let v = (String::from_utf8(parts[0].clone()).expect("ascii"), String::from_utf8(parts[1].clone()).expect("ascii"));
            o.sized("", abs, &v);
            o.add_x("", "(&str,Arc<str>)", &(v.0.as_str(), Arc::<str>::from(v.1.as_str())), abs.clone(), None);
            o.add_x("", "decode(encode)", &codec_rt(&v), abs.clone(), None);
            o.add_x("#struct", "struct{a:&str,b:Arc<str>}", &PairStruct { a: &v.0, b: Arc::from(v.1.as_str()) }, abs.clone(), None);
        }
        "vec_vec_u8" => {
            let v: Vec<Vec<u8>> = parts.to_vec();
            o.sized("", abs, &v);
            o.add_x::<[Vec<u8>]>("", "[T]", &v[..], abs.clone(), None);
            o.add_x("", "Vec<Box<[u8]>>", &v.iter().map(|p| p.clone().into_boxed_slice()).collect::<Vec<_>>(), abs.clone(), None);
            o.add_x("", "decode(encode)", &codec_rt(&v), abs.clone(), None);
        }
        _ => panic!("unknown composite type {ty}"),
    }
}

// ---------------------------------------------------------------------- main

fn replay_line(ty: &str, hist: &[Value], seed: u64, line_no: u64, o: &mut Out) {
    let mut cx = Cx { rng: StdRng::seed_from_u64(seed.wrapping_mul(0x9E37_79B9).wrapping_add(line_no) ^ std::process::id() as u64) };
    let cx = &mut cx;
    match ty {
        "u8" => run::<u8>(hist, cx, o),
        "str" => run::<String>(hist, cx, o),
        "pair_str_str" => run::<(String, String)>(hist, cx, o),
        "vec_u8" => run::<Vec<u8>>(hist, cx, o),
        "vec_vec_u8" => run::<Vec<Vec<u8>>>(hist, cx, o),
        "vec_unit" => run::<Vec<()>>(hist, cx, o),
        "vec_str" => run::<Vec<String>>(hist, cx, o),
        "opt_u8" => run::<Option<u8>>(hist, cx, o),
        "opt_opt_u8" => run::<Option<Option<u8>>>(hist, cx, o),
        "pair_opt_u8_vec_u8" => run::<(Option<u8>, Vec<u8>)>(hist, cx, o),
        "res_u8_str" => run::<Result<u8, String>>(hist, cx, o),
        "set_u8" => run::<HashSet<u8, Sd>>(hist, cx, o),
        "set_set_u8" => run::<HashSet<HSet, Sd>>(hist, cx, o),
        "set_vec_u8" => run::<HashSet<Vec<u8>, Sd>>(hist, cx, o),
        "vec_set_u8" => run::<Vec<HashSet<u8, Sd>>>(hist, cx, o),
        "map_u8_u8" => run::<HashMap<u8, u8, Sd>>(hist, cx, o),
        "map_u8_set_u8" => run::<HashMap<u8, HashSet<u8, Sd>, Sd>>(hist, cx, o),
        "map_str_u8" => run::<HashMap<String, u8, Sd>>(hist, cx, o),
        "bmap_u8_vec_u8" => run::<BTreeMap<u8, Vec<u8>>>(hist, cx, o),
        "heap_u8" => run_heap(hist, cx, o),
        "pair_set_u8_set_u8" => run::<(HashSet<u8, Sd>, HashSet<u8, Sd>)>(hist, cx, o),
        "enum_e" => run::<EnumE>(hist, cx, o),
        "pair_enum_e_u8" => run::<(EnumE, u8)>(hist, cx, o),
        _ => {
            let cls = hist[0]["x"].as_str().expect("leaf class");
            leaf(ty, cls, seed, o)
        }
    }
}

fn main() {
    let a = vh::util::args();
    let seed = vh::util::arg_u64(&a, "seed", 1);
    let seed1 = seed.wrapping_mul(0x9E37_79B9_7F4A_7C15) | 1;
    let inp = vh::util::arg_str(&a, "in", "").to_string();
    let out = vh::util::arg_str(&a, "out", "/dev/stdout").to_string();
    let nrand = vh::util::arg_u64(&a, "rand", 0) as usize;
    let child = a.contains_key("child");
    let mutant = vh::util::arg_str(&a, "mutant", "").to_string();
    MUTANT.store(match mutant.as_str() { "nolen" => 1, "order" => 2, "lenoffbyone" => 3, _ => 0 }, Ordering::SeqCst);
    let mut w = std::io::BufWriter::new(std::fs::File::create(&out).expect("create out"));
    let (mut lines, mut evals, mut panics) = (0u64, 0u64, 0u64);
    if let Some(lens) = a.get("lens") {
        // length-encoding binding: one process, no histories
        let res = std::panic::catch_unwind(std::panic::AssertUnwindSafe(|| lens_mode(lens, seed, seed1, &mut w)));
        let err = res.as_ref().err().map(|e| e.downcast_ref::<String>().cloned().or_else(|| e.downcast_ref::<&str>().map(|s| s.to_string())).unwrap_or_else(|| "panic".into()));
        writeln!(w, "{}", json!({"summary": true, "lines": 0, "evals": res.unwrap_or(0), "panics": err.is_some() as u64, "panic": err, "pid": std::process::id(),
            "recorder_mismatch": MISMATCH.load(Ordering::SeqCst), "unfolded_bags": ODD.load(Ordering::SeqCst), "seed1": format!("{seed1:x}")})).unwrap();
        w.flush().unwrap();
        return;
    }
    std::panic::set_hook(Box::new(|_| {}));
    if !inp.is_empty() {
        for l in std::io::BufReader::new(std::fs::File::open(&inp).expect("open in")).lines() {
            let l = l.unwrap();
            if l.trim().is_empty() {
                continue;
            }
            let v: Value = serde_json::from_str(&l).expect("json");
            let ty = v["ty"].as_str().unwrap().to_string();
            let hist = arr(&v["hist"]).to_vec();
            let i = v["i"].as_i64().unwrap();
            let mut o = Out::new(seed1);
            // a panic in the code under test is data
            let res = std::panic::catch_unwind(std::panic::AssertUnwindSafe(|| replay_line(&ty, &hist, seed, i as u64, &mut o)));
            let err = res.err().map(|e| e.downcast_ref::<String>().cloned().or_else(|| e.downcast_ref::<&str>().map(|s| s.to_string())).unwrap_or_else(|| "panic".into()));
            panics += err.is_some() as u64;
            lines += 1;
            evals += o.evals;
            writeln!(w, "{}", json!({"i": i, "ty": ty, "obs": o.to_json(), "err": err})).unwrap();
        }
    }
    if nrand > 0 {
        rand_universe(nrand, seed, seed1, &mut w, &mut evals);
    }
    writeln!(w, "{}", json!({"summary": true, "lines": lines, "evals": evals, "panics": panics, "pid": std::process::id(),
        "recorder_mismatch": MISMATCH.load(Ordering::SeqCst), "unfolded_bags": ODD.load(Ordering::SeqCst), "seed1": format!("{seed1:x}")})).unwrap();
    w.flush().unwrap();
    drop(w);
    if !child {
        // second, independent process: same inputs, must print the same hashes
        let mut c = std::process::Command::new(std::env::current_exe().unwrap());
        c.args(["--seed", &seed.to_string(), "--out", &format!("{out}.child"), "--rand", &nrand.to_string(), "--child"]);
        if !inp.is_empty() {
            c.args(["--in", &inp]);
        }
        if !mutant.is_empty() {
            c.args(["--mutant", &mutant]);
        }
        let st = c.status().expect("spawn child");
        if !st.success() {
            eprintln!("child failed: {st}");
            std::process::exit(3);
        }
    }
}
