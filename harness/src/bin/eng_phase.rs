//! C04 driver: readers (tracked / query / drop) against a writer
//! (input_session / set_input / commit or plain drop of the session).
//!
//! * `--mode schedules --in FILE`: every line is a behaviour of
//!   specs/EnginePhase.tla (`{"steps":[{"t":task,"s":step},..],"bad":bool}`);
//!   the steps are executed one at a time on the real engine by one OS thread
//!   per task; the steps *inside* tracked() and input_session() are reached
//!   through the cfg-guarded points `tracked_after_lock`,
//!   `session_after_bump`, `session_after_lock` (qbice::verif).
//! * `--mode stress`: free-running reader and writer threads.
//!
//! Program: node 1 = input A, node 2 = X reading A (X = A mod 97).

use std::{
    cell::Cell,
    sync::{
        Arc,
        atomic::{AtomicBool, AtomicU64, Ordering},
    },
    time::{Duration, Instant},
};

use parking_lot::{Condvar, Mutex};
use vh::{
    dsl::{Ctx, Event, Item, Kind, Node, Program, write_ndjson},
    eng::{mem_engine, query_node, set_node, shutdown},
    util::{arg_str, arg_u64, args},
};

#[derive(serde::Deserialize, Clone, Debug)]
struct Step {
    t: usize,
    s: String,
}

#[derive(serde::Deserialize)]
struct Behaviour {
    steps: Vec<Step>,
    #[allow(dead_code)]
    #[serde(default)]
    bad: bool,
}

fn program() -> Program {
    Program {
        m: 97,
        nodes: vec![
            Node { kind: Kind::In, init: 0, code: vec![], post: 0, panic_if: -1 },
            Node {
                kind: Kind::Nm,
                init: 0,
                code: vec![Item { g: 0, gc: 0, mode: 0, deps: vec![1], w: 1, c: 0 }],
                post: 0,
                panic_if: -1,
            },
        ],
    }
}

struct Ctl {
    steps: Vec<Step>,
    turn: Mutex<usize>,
    cv: Condvar,
    hung: AtomicBool,
}

impl Ctl {
    /// Block until the next scheduled step is (task, step). Returns false if
    /// the schedule is exhausted / aborted.
    fn wait(&self, task: usize, step: &str) -> bool {
        let mut g = self.turn.lock();
        let t0 = Instant::now();
        loop {
            if self.hung.load(Ordering::SeqCst) {
                return false;
            }
            if *g >= self.steps.len() {
                return false;
            }
            if self.steps[*g].t == task && self.steps[*g].s == step {
                return true;
            }
            if self.cv.wait_for(&mut g, Duration::from_millis(200)).timed_out()
                && t0.elapsed() > Duration::from_secs(30)
            {
                self.hung.store(true, Ordering::SeqCst);
                self.cv.notify_all();
                return false;
            }
        }
    }

    fn peek(&self) -> Option<Step> {
        let g = self.turn.lock();
        self.steps.get(*g).cloned()
    }

    fn advance(&self) {
        let mut g = self.turn.lock();
        *g += 1;
        // the commit of a dropped session runs in a task the session spawned: its moment is not
        // under the harness's control (every step that needs it to be over simply blocks until then)
        while *g < self.steps.len() && self.steps[*g].s == "spawned_commit" {
            *g += 1;
        }
        self.cv.notify_all();
    }

    fn finished(&self) -> bool { *self.turn.lock() >= self.steps.len() }
}

thread_local! {
    static TASK: Cell<usize> = const { Cell::new(usize::MAX) };
}

fn run_schedule(rt: &tokio::runtime::Runtime, b: &Behaviour, all: &mut Vec<Event>, hangs: &mut u64) {
    let prog = program();
    let ctx = Ctx::new(prog.clone());
    ctx.rec.push(Event::Prog { prog: prog.clone(), cfg: "mem phase-schedule".into() });
    let engine = rt.block_on(mem_engine(&ctx, None));
    // initial committed input: A = 1
    rt.block_on(async {
        let mut s = engine.input_session().await;
        ctx.rec.push(Event::Begin);
        let r = set_node(&ctx, &mut s, 0, 1).await;
        ctx.rec.push(Event::Set { n: 1, v: 1, r: format!("{r:?}") });
        s.commit().await;
        ctx.rec.push(Event::Commit);
    });

    let ctl = Arc::new(Ctl {
        steps: b.steps.clone(),
        turn: Mutex::new(0),
        cv: Condvar::new(),
        hung: AtomicBool::new(false),
    });
    {
        let ctl = ctl.clone();
        qbice::verif::set_hook(Some(Arc::new(move |label: &'static str| {
            let task = TASK.with(Cell::get);
            if task == usize::MAX {
                return;
            }
            match label {
                "tracked_after_lock" => {
                    // step tracked_lock is complete; the timestamp is loaded
                    // when it is tracked_sample's turn
                    ctl.advance();
                    ctl.wait(task, "tracked_sample");
                }
                "session_after_bump" => {
                    if let Some(st) = ctl.peek() {
                        if st.t == 0 && st.s == "session_bump" {
                            ctl.advance();
                            ctl.wait(0, "session_request");
                            ctl.advance();
                        }
                    }
                }
                "session_after_lock" => {
                    ctl.wait(0, "session_locked");
                }
                _ => {}
            }
        })));
    }

    let readers: Vec<usize> = {
        let mut v: Vec<usize> = b.steps.iter().map(|s| s.t).filter(|t| *t != 0).collect();
        v.sort_unstable();
        v.dedup();
        v
    };
    let mut handles = Vec::new();
    for r in readers {
        let (ctl, ctx, engine, h) = (ctl.clone(), ctx.clone(), engine.clone(), rt.handle().clone());
        let my: Vec<Step> = b.steps.iter().filter(|s| s.t == r).cloned().collect();
        handles.push(std::thread::spawn(move || {
            TASK.with(|t| t.set(r));
            let mut te = None;
            for st in my {
                match st.s.as_str() {
                    "tracked_lock" => {
                        if !ctl.wait(r, "tracked_lock") {
                            return;
                        }
                        let t = h.block_on(engine.clone().tracked());
                        te = Some(t);
                        ctx.rec.push(Event::Tracked { t: r });
                        ctl.advance(); // completes tracked_sample
                    }
                    "tracked_sample" => {}
                    "query" => {
                        if !ctl.wait(r, "query") {
                            return;
                        }
                        let v = h.block_on(query_node(&ctx, te.as_ref().unwrap(), 1));
                        ctx.rec.push(Event::Query { t: r, n: 2, v });
                        ctl.advance();
                    }
                    "drop" => {
                        if !ctl.wait(r, "drop") {
                            return;
                        }
                        ctx.rec.push(Event::Drop { t: r });
                        te = None;
                        ctl.advance();
                    }
                    _ => {}
                }
            }
            drop(te);
        }));
    }
    {
        let (ctl, ctx, engine, h) = (ctl.clone(), ctx.clone(), engine.clone(), rt.handle().clone());
        let my: Vec<Step> = b.steps.iter().filter(|s| s.t == 0).cloned().collect();
        handles.push(std::thread::spawn(move || {
            TASK.with(|t| t.set(0));
            let mut sess = None;
            let mut ver = 1i64;
            let mut i = 0;
            while i < my.len() {
                match my[i].s.as_str() {
                    "session_bump" | "session_request" if sess.is_none() => {
                        let first = my[i].s.clone();
                        if !ctl.wait(0, &first) {
                            return;
                        }
                        if first == "session_request" {
                            // repaired order: the request is the first step
                            ctl.advance();
                        }
                        let s = h.block_on(engine.input_session());
                        ctx.rec.push(Event::Begin);
                        sess = Some(s);
                        ctl.advance(); // completes session_locked
                        // skip the intra-call steps of this session
                        while i < my.len() && my[i].s != "session_locked" {
                            i += 1;
                        }
                    }
                    "set" => {
                        if !ctl.wait(0, "set") {
                            return;
                        }
                        ver += 1;
                        let r = h.block_on(set_node(&ctx, sess.as_mut().unwrap(), 0, ver));
                        ctx.rec.push(Event::Set { n: 1, v: ver, r: format!("{r:?}") });
                        ctl.advance();
                    }
                    "commit" => {
                        if !ctl.wait(0, "commit") {
                            return;
                        }
                        ctx.rec.push(Event::Commit);
                        h.block_on(sess.take().unwrap().commit());
                        ctl.advance();
                    }
                    "drop_session" => {
                        if !ctl.wait(0, "drop_session") {
                            return;
                        }
                        // Drop for InputSession spawns the commit: it needs a runtime context
                        ctx.rec.push(Event::Commit);
                        {
                            let _g = h.enter();
                            drop(sess.take().unwrap());
                        }
                        ctl.advance();
                    }
                    _ => {}
                }
                i += 1;
            }
        }));
    }
    for h in handles {
        let _ = h.join();
    }
    qbice::verif::set_hook(None);
    if ctl.hung.load(Ordering::SeqCst) || !ctl.finished() {
        *hangs += 1;
        ctx.rec.push(Event::Hang { at: *ctl.turn.lock() });
    }
    rt.block_on(shutdown(engine));
    all.extend(ctx.rec.take());
    all.push(Event::Reset);
}

fn run_stress(
    rt: &tokio::runtime::Runtime,
    seed: u64,
    readers: usize,
    millis: u64,
    maxops: u64,
    all: &mut Vec<Event>,
) {
    let prog = program();
    let ctx = Ctx::new(prog.clone());
    ctx.rec.push(Event::Prog { prog: prog.clone(), cfg: "mem phase-stress".into() });
    let engine = rt.block_on(mem_engine(&ctx, None));
    rt.block_on(async {
        let mut s = engine.input_session().await;
        ctx.rec.push(Event::Begin);
        let r = set_node(&ctx, &mut s, 0, 1).await;
        ctx.rec.push(Event::Set { n: 1, v: 1, r: format!("{r:?}") });
        ctx.rec.push(Event::Commit);
        s.commit().await;
    });
    let stop = Arc::new(AtomicBool::new(false));
    let ops = Arc::new(AtomicU64::new(0));
    let mut hs = Vec::new();
    for r in 1..=readers {
        let (ctx, engine, h, stop, ops) =
            (ctx.clone(), engine.clone(), rt.handle().clone(), stop.clone(), ops.clone());
        hs.push(std::thread::spawn(move || {
            let slot = r.min(15);
            let mut x = seed ^ (r as u64) << 32;
            while !stop.load(Ordering::Relaxed) {
                // slots are shared between reader threads only if r > 3; use
                // one event-slot per thread by serialising on the slot
                let te = h.block_on(engine.clone().tracked());
                ctx.rec.push(Event::Tracked { t: slot });
                x = x.wrapping_mul(6_364_136_223_846_793_005).wrapping_add(1);
                for _ in 0..(1 + x % 3) {
                    let v = h.block_on(query_node(&ctx, &te, 1));
                    ctx.rec.push(Event::Query { t: slot, n: 2, v });
                }
                ctx.rec.push(Event::Drop { t: slot });
                drop(te);
                ops.fetch_add(1, Ordering::Relaxed);
            }
        }));
    }
    {
        let (ctx, engine, h, stop) = (ctx.clone(), engine.clone(), rt.handle().clone(), stop.clone());
        hs.push(std::thread::spawn(move || {
            let mut ver = 1i64;
            let mut x = seed;
            while !stop.load(Ordering::Relaxed) {
                let mut s = h.block_on(engine.input_session());
                ctx.rec.push(Event::Begin);
                x = x.wrapping_mul(6_364_136_223_846_793_005).wrapping_add(3);
                if x % 4 != 0 {
                    ver = (ver + 1) % 90 + 1;
                    let r = h.block_on(set_node(&ctx, &mut s, 0, ver));
                    ctx.rec.push(Event::Set { n: 1, v: ver, r: format!("{r:?}") });
                }
                // logged before the call: readers can only get in after commit() is done
                ctx.rec.push(Event::Commit);
                if x % 5 == 1 {
                    // simply dropped: the spawned task commits and releases the phase guard
                    let _g = h.enter();
                    drop(s);
                } else {
                    h.block_on(s.commit());
                }
                std::thread::sleep(Duration::from_micros(50 + x % 200));
            }
        }));
    }
    let t0 = Instant::now();
    while t0.elapsed() < Duration::from_millis(millis) && ops.load(Ordering::Relaxed) < maxops {
        std::thread::sleep(Duration::from_millis(2));
    }
    stop.store(true, Ordering::SeqCst);
    for h in hs {
        let _ = h.join();
    }
    rt.block_on(shutdown(engine));
    all.extend(ctx.rec.take());
    all.push(Event::Reset);
}

fn main() {
    let a = args();
    let mode = arg_str(&a, "mode", "schedules").to_string();
    let out = arg_str(&a, "out", "/dev/stdout").to_string();
    let seed = arg_u64(&a, "seed", 1);
    let rt = tokio::runtime::Builder::new_multi_thread().worker_threads(4).enable_all().build().unwrap();
    let mut all = Vec::new();
    let mut hangs = 0u64;
    if mode == "schedules" {
        let f = std::fs::read_to_string(arg_str(&a, "in", "")).expect("read --in");
        for line in f.lines().filter(|l| !l.trim().is_empty()) {
            let b: Behaviour = serde_json::from_str(line).expect("behaviour");
            run_schedule(&rt, &b, &mut all, &mut hangs);
        }
    } else if mode == "probe" {
        // which order do the points of input_session() come in?
        let order = Arc::new(Mutex::new(Vec::<&'static str>::new()));
        let o2 = order.clone();
        qbice::verif::set_hook(Some(Arc::new(move |l: &'static str| o2.lock().push(l))));
        let ctx = Ctx::new(program());
        let engine = rt.block_on(mem_engine(&ctx, None));
        rt.block_on(async {
            let s = engine.input_session().await;
            s.commit().await;
        });
        qbice::verif::set_hook(None);
        rt.block_on(shutdown(engine));
        let o = order.lock().clone();
        let bump = o.iter().position(|x| *x == "session_after_bump");
        let lock = o.iter().position(|x| *x == "session_after_lock");
        println!(
            "{}",
            match (bump, lock) {
                (Some(b), Some(l)) if b < l => "bump_before_lock",
                (Some(_), Some(_)) => "lock_before_bump",
                _ => "unknown",
            }
        );
        return;
    } else {
        let readers = arg_u64(&a, "readers", 3) as usize;
        let millis = arg_u64(&a, "millis", 1500);
        let rounds = arg_u64(&a, "rounds", 3);
        let maxops = arg_u64(&a, "maxops", 8000);
        for i in 0..rounds {
            run_stress(&rt, seed.wrapping_add(i), readers, millis, maxops, &mut all);
        }
    }
    write_ndjson(std::path::Path::new(&out), &all).expect("write trace");
    eprintln!("eng_phase: wrote {} events to {} (schedules not completed: {})", all.len(), out, hangs);
}
