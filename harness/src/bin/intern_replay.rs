//! C15 conformance driver for `qbice_storage::intern::Interner`.
//!
//! Modes (`--mode`):
//! * `stress`  – 1..16 OS threads hammer one interner with intern /
//!   intern_unsized / get_from_hash / clone / drop / vacuum over a small value
//!   domain.  Every event draws a sequence number from one global atomic
//!   counter: `acq` AFTER the call that produced a handle returned, `rel`
//!   BEFORE the handle is dropped, `gs` BEFORE / `gn` AFTER a look-up that
//!   returned `None`.  The sorted event list is the trace validated by TLC
//!   (specs/InternerTrace.tla).  A mutex-protected registry per (type, value)
//!   is a second, in-process oracle.
//! * `replay`  – executes the sequential behaviours printed by TLC from
//!   specs/InternerGen.tla and compares pointer equalities / look-up results /
//!   decoded sharing with the model's prediction after every operation.
//! * `codec`   – encode -> decode of random structures with repeated handles
//!   (Vec, tuple, map, nested interned structs) on the same interner (sources
//!   alive / dropped / vacuumed / under concurrent churn) and on a fresh one.
//!
//! Panics of the code under test are caught and recorded as events.

use std::{
    collections::{BTreeMap, HashMap},
    io::Write,
    panic::{AssertUnwindSafe, catch_unwind},
    sync::{
        Arc, Barrier, Mutex,
        atomic::{AtomicBool, AtomicU64, Ordering},
        mpsc,
    },
    time::Duration,
};

use qbice_serialize::{Decode, Decoder, Encode, Encoder, Plugin, PostcardDecoder, PostcardEncoder};
use qbice_stable_hash::{BuildStableHasherDefault, Sip128Hasher, StableHash};
use qbice_stable_type_id::Identifiable;
use qbice_storage::intern::{Interned, Interner};
use rand::{Rng, SeedableRng, rngs::StdRng};
use serde_json::{Value, json};
use vh::util;

type Hb = BuildStableHasherDefault<Sip128Hasher>;

// ---------------------------------------------------------------------------
// value domain: 5 types x m values.  Types 1 and 2 (String / str), and 3 / 4
// carry byte-identical content for equal value indices.
// ---------------------------------------------------------------------------

#[derive(Debug, Clone, PartialEq, Eq, Encode, Decode, StableHash, Identifiable)]
#[stable_hash_crate(qbice_stable_hash)]
#[serialize_crate(qbice_serialize)]
#[stable_type_id_crate(qbice_stable_type_id)]
struct Node {
    label: Interned<str>,
    kids: Vec<Interned<String>>,
    n: u32,
}

#[derive(Debug, Clone, Encode, Decode)]
#[serialize_crate(qbice_serialize)]
enum H {
    S(Interned<String>),
    U(Interned<str>),
    N(Interned<u64>),
    L(Interned<[u32]>),
    D(Interned<Node>),
}

const NTYPES: u8 = 5;

fn sval(v: u32) -> String { format!("val{v}") }
fn lval(v: u32) -> Vec<u32> { vec![v; (v % 3 + 1) as usize] }
fn parse_sval(s: &str) -> Option<u32> { s.strip_prefix("val").and_then(|x| x.parse().ok()) }

/// One observable handle: (type, value index, data pointer, content ok).
#[derive(Debug, Clone, Copy, PartialEq, Eq)]
struct Leaf {
    ty: u8,
    v: u32,
    p: usize,
    ok: bool,
}

fn leaf_s(h: &Interned<String>) -> Leaf {
    let v = parse_sval(h.as_str());
    Leaf { ty: 1, v: v.unwrap_or(u32::MAX), p: (&**h) as *const String as usize, ok: v.is_some() }
}
fn leaf_u(h: &Interned<str>) -> Leaf {
    let v = parse_sval(h);
    Leaf { ty: 2, v: v.unwrap_or(u32::MAX), p: h.as_ptr() as usize, ok: v.is_some() }
}

impl H {
    /// The handle itself first, then handles nested inside the interned value.
    fn leaves(&self, out: &mut Vec<Leaf>) {
        match self {
            H::S(h) => out.push(leaf_s(h)),
            H::U(h) => out.push(leaf_u(h)),
            H::N(h) => out.push(Leaf { ty: 3, v: **h as u32, p: (&**h) as *const u64 as usize, ok: **h < 1 << 20 }),
            H::L(h) => {
                let v = h.first().copied().unwrap_or(u32::MAX);
                out.push(Leaf { ty: 4, v, p: h.as_ptr() as usize, ok: v != u32::MAX && **h == lval(v)[..] });
            }
            H::D(h) => {
                let v = h.n;
                let ok = parse_sval(&h.label) == Some(v) && h.kids.len() == 2 && parse_sval(&h.kids[0]) == Some(v);
                out.push(Leaf { ty: 5, v, p: (&**h) as *const Node as usize, ok });
                out.push(leaf_u(&h.label));
                for k in &h.kids {
                    out.push(leaf_s(k));
                }
            }
        }
    }
    fn top(&self) -> Leaf {
        let mut v = Vec::new();
        self.leaves(&mut v);
        v[0]
    }
}

/// intern (type index, value index); `m` = size of the value domain.
fn do_intern(i: &Interner, ty: u8, v: u32, m: u32) -> H {
    match ty {
        1 => H::S(i.intern(sval(v))),
        2 => {
            if v % 2 == 0 {
                H::U(i.intern_unsized(sval(v)))
            } else {
                H::U(i.intern_unsized(sval(v).into_boxed_str()))
            }
        }
        3 => H::N(i.intern(u64::from(v))),
        4 => H::L(i.intern_unsized(lval(v))),
        _ => {
            let node = Node {
                label: i.intern_unsized(sval(v)),
                kids: vec![i.intern(sval(v)), i.intern(sval((v + 1) % m))],
                n: v,
            };
            H::D(i.intern(node))
        }
    }
}

fn do_get(i: &Interner, ty: u8, v: u32, m: u32) -> Option<H> {
    match ty {
        1 => i.get_from_hash::<String>(i.hash_128(&sval(v))).map(H::S),
        2 => i.get_from_hash::<str>(i.hash_128::<str>(&sval(v))).map(H::U),
        3 => i.get_from_hash::<u64>(i.hash_128(&u64::from(v))).map(H::N),
        4 => i.get_from_hash::<[u32]>(i.hash_128::<[u32]>(&lval(v))).map(H::L),
        _ => {
            // hashing a Node needs handles; build them without the interner
            let node = Node {
                label: Interned::new_duplicating_unsized(sval(v)),
                kids: vec![Interned::new_duplicating(sval(v)), Interned::new_duplicating(sval((v + 1) % m))],
                n: v,
            };
            i.get_from_hash::<Node>(i.hash_128(&node)).map(H::D)
        }
    }
}

fn new_interner(shards: usize, bg_us: u64) -> Interner {
    if bg_us > 0 {
        Interner::new_with_vacuum(shards, Hb::default(), Duration::from_micros(bg_us))
    } else {
        Interner::new(shards, Hb::default())
    }
}

// ---------------------------------------------------------------------------
// event log
// ---------------------------------------------------------------------------

#[derive(Debug, Clone)]
enum EvK {
    Acq { h: u64, ty: u8, v: u32, p: usize, ok: bool, via: &'static str },
    Rel { h: u64 },
    Gs { ty: u8, v: u32 },
    Gn,
    Panic { msg: String },
    Codec { variant: &'static str, src: Vec<Leaf>, out: Vec<Leaf> },
    DecFail { variant: &'static str, msg: String },
}

#[derive(Debug, Clone)]
struct Ev {
    seq: u64,
    t: u32,
    k: EvK,
}

struct Shared {
    interner: Interner,
    seq: AtomicU64,
    hid: AtomicU64,
    m: u32,
    /// second oracle: per (type, value) the number of registered handles and their pointer
    registry: Option<Vec<Mutex<(usize, usize)>>>,
    inproc: Mutex<Vec<Value>>,
}

impl Shared {
    fn new(interner: Interner, m: u32, registry: bool) -> Self {
        Self {
            interner,
            seq: AtomicU64::new(1),
            hid: AtomicU64::new(1),
            m,
            registry: registry.then(|| (0..(NTYPES as usize + 1) * (m as usize + 1)).map(|_| Mutex::new((0, 0))).collect()),
            inproc: Mutex::new(Vec::new()),
        }
    }
    fn tick(&self) -> u64 { self.seq.fetch_add(1, Ordering::SeqCst) }
    fn reg_slot(&self, ty: u8, v: u32) -> Option<&Mutex<(usize, usize)>> {
        let r = self.registry.as_ref()?;
        if v > self.m {
            return None;
        }
        r.get(ty as usize * (self.m as usize + 1) + v as usize)
    }
}

/// A handle in the hands of a harness thread together with the ids under
/// which it (and the handles nested in its value) were logged.
struct Held {
    h: H,
    ids: Vec<(u64, Leaf)>,
}

struct Th<'a> {
    sh: &'a Shared,
    t: u32,
    log: Vec<Ev>,
    ops: BTreeMap<&'static str, u64>,
}

impl<'a> Th<'a> {
    fn new(sh: &'a Shared, t: u32) -> Self { Self { sh, t, log: Vec::new(), ops: BTreeMap::new() } }
    fn count(&mut self, k: &'static str) { *self.ops.entry(k).or_insert(0) += 1; }
    fn ev(&mut self, k: EvK) {
        let seq = self.sh.tick();
        self.log.push(Ev { seq, t: self.t, k });
    }
    /// Call AFTER the producing call returned.
    fn acquire(&mut self, h: H, via: &'static str) -> Held {
        let mut leaves = Vec::new();
        h.leaves(&mut leaves);
        let mut ids = Vec::new();
        for (n, lf) in leaves.iter().enumerate() {
            let id = self.sh.hid.fetch_add(1, Ordering::SeqCst);
            if let Some(slot) = self.sh.reg_slot(lf.ty, lf.v) {
                let mut g = slot.lock().unwrap();
                if g.0 > 0 && g.1 != lf.p {
                    self.sh.inproc.lock().unwrap().push(json!({"kind": "two_allocations", "t": self.t,
                        "ty": lf.ty, "v": lf.v, "seq": self.sh.seq.load(Ordering::SeqCst), "via": via}));
                } else {
                    g.1 = lf.p;
                }
                g.0 += 1;
            }
            if !lf.ok {
                self.sh.inproc.lock().unwrap().push(json!({"kind": "content", "t": self.t, "ty": lf.ty, "v": lf.v, "via": via}));
            }
            self.ev(EvK::Acq { h: id, ty: lf.ty, v: lf.v, p: lf.p, ok: lf.ok, via: if n == 0 { via } else { "nested" } });
            ids.push((id, *lf));
        }
        Held { h, ids }
    }
    /// Logs the release BEFORE dropping.
    fn release(&mut self, held: Held) {
        for (id, lf) in held.ids.iter().rev() {
            self.ev(EvK::Rel { h: *id });
            if let Some(slot) = self.sh.reg_slot(lf.ty, lf.v) {
                slot.lock().unwrap().0 -= 1;
            }
        }
        drop(held.h);
    }
    fn guarded<R>(&mut self, what: &str, f: impl FnOnce() -> R) -> Option<R> {
        match catch_unwind(AssertUnwindSafe(f)) {
            Ok(r) => Some(r),
            Err(e) => {
                let msg = e.downcast_ref::<String>().cloned().or_else(|| e.downcast_ref::<&str>().map(|s| (*s).to_string())).unwrap_or_default();
                self.ev(EvK::Panic { msg: format!("{what}: {msg}") });
                None
            }
        }
    }
    fn op_intern(&mut self, ty: u8, v: u32) -> Option<Held> {
        self.count(if ty == 2 || ty == 4 { "intern_unsized" } else { "intern" });
        let (i, m) = (self.sh.interner.clone(), self.sh.m);
        let h = self.guarded("intern", || do_intern(&i, ty, v, m))?;
        Some(self.acquire(h, if ty == 2 || ty == 4 { "unsized" } else { "intern" }))
    }
    fn op_get(&mut self, ty: u8, v: u32) -> Option<Held> {
        self.count("get_from_hash");
        let (i, m) = (self.sh.interner.clone(), self.sh.m);
        self.ev(EvK::Gs { ty, v });
        match self.guarded("get_from_hash", || do_get(&i, ty, v, m)) {
            Some(Some(h)) => {
                self.count("get_some");
                Some(self.acquire(h, "get"))
            }
            Some(None) => {
                self.ev(EvK::Gn);
                None
            }
            None => None,
        }
    }
    fn op_clone(&mut self, src: &Held) -> Held {
        self.count("clone");
        let h = src.h.clone();
        self.acquire(h, "clone")
    }
    fn op_vacuum(&mut self) {
        self.count("vacuum");
        let i = self.sh.interner.clone();
        self.guarded("vacuum", || i.vacuum());
    }
}

fn ev_json(e: &Ev, pmap: &mut HashMap<usize, u32>, hmap: &mut HashMap<u64, u32>) -> Value {
    let mut pid = |p: usize| -> u32 {
        let n = pmap.len() as u32 + 1;
        *pmap.entry(p).or_insert(n)
    };
    let lv = |l: &Leaf, p: u32| json!({"ty": l.ty, "v": l.v.min(1 << 20), "p": p});
    match &e.k {
        EvK::Acq { h, ty, v, p, ok, via } => {
            let n = hmap.len() as u32 + 1;
            let hh = *hmap.entry(*h).or_insert(n);
            json!({"e": "acq", "t": e.t, "h": hh, "ty": ty, "v": (*v).min(1 << 20), "p": pid(*p), "ok": ok, "via": via})
        }
        EvK::Rel { h } => {
            let n = hmap.len() as u32 + 1;
            let hh = *hmap.entry(*h).or_insert(n);
            json!({"e": "rel", "t": e.t, "h": hh})
        }
        EvK::Gs { ty, v } => json!({"e": "gs", "t": e.t, "ty": ty, "v": v}),
        EvK::Gn => json!({"e": "gn", "t": e.t}),
        EvK::Panic { msg } => json!({"e": "panic", "t": e.t, "msg": msg}),
        EvK::Codec { variant, src, out } => {
            let s: Vec<Value> = src.iter().map(|l| { let p = pid(l.p); lv(l, p) }).collect();
            let o: Vec<Value> = out.iter().map(|l| { let p = pid(l.p); lv(l, p) }).collect();
            json!({"e": "codec", "t": e.t, "variant": variant, "src": s, "out": o})
        }
        EvK::DecFail { variant, msg } => json!({"e": "decfail", "t": e.t, "variant": variant, "msg": msg}),
    }
}

fn write_run(out: &mut impl Write, header: Value, mut evs: Vec<Ev>) -> usize {
    evs.sort_by_key(|e| e.seq);
    let mut pmap = HashMap::new();
    let mut hmap = HashMap::new();
    writeln!(out, "{header}").unwrap();
    for e in &evs {
        writeln!(out, "{}", ev_json(e, &mut pmap, &mut hmap)).unwrap();
    }
    writeln!(out, "{}", json!({"e": "reset"})).unwrap();
    pmap.len()
}

// ---------------------------------------------------------------------------
// stress
// ---------------------------------------------------------------------------

#[derive(Clone, Copy)]
struct StressCfg {
    threads: u32,
    ops: u32,
    m: u32,
    ntypes: u8,
    maxh: usize,
    storm: bool,
    seed: u64,
}

fn random_ops(th: &mut Th, rng: &mut StdRng, held: &mut Vec<Held>, cfg: &StressCfg, n: u32, bg: bool) {
    for _ in 0..n {
        let r = rng.gen_range(0..100);
        let ty = rng.gen_range(1..=cfg.ntypes);
        let v = rng.gen_range(0..cfg.m);
        let room = held.len() < cfg.maxh;
        if r < 34 {
            if room {
                if let Some(h) = th.op_intern(ty, v) {
                    held.push(h);
                }
            } else {
                let k = rng.gen_range(0..held.len());
                let h = held.swap_remove(k);
                th.count("drop");
                th.release(h);
            }
        } else if r < 48 {
            if room {
                if let Some(h) = th.op_get(ty, v) {
                    held.push(h);
                }
            }
        } else if r < 56 {
            if room && !held.is_empty() {
                let k = rng.gen_range(0..held.len());
                let c = th.op_clone(&held[k]);
                held.push(c);
            }
        } else if r < 90 {
            if !held.is_empty() {
                let k = rng.gen_range(0..held.len());
                let h = held.swap_remove(k);
                th.count("drop");
                th.release(h);
            }
        } else if r < 94 {
            th.op_vacuum();
        } else if r < 96 {
            if bg {
                th.count("request_vacuum");
                th.sh.interner.request_vacuum();
            }
        } else {
            std::thread::yield_now();
        }
    }
}

fn stress_thread(sh: &Shared, t: u32, cfg: StressCfg, barrier: &Barrier, bg: bool) -> (Vec<Ev>, BTreeMap<&'static str, u64>) {
    let mut th = Th::new(sh, t);
    let mut rng = StdRng::seed_from_u64(cfg.seed.wrapping_mul(0x9E37_79B9_7F4A_7C15).wrapping_add(u64::from(t)));
    let mut held: Vec<Held> = Vec::new();
    barrier.wait();
    if cfg.storm {
        // rounds: everybody lets go, then everybody asks for the same value at once
        let rounds = cfg.ops / 6 + 1;
        for round in 0..rounds {
            let mut rr = StdRng::seed_from_u64(cfg.seed ^ (u64::from(round) << 20));
            let ty = rr.gen_range(1..=cfg.ntypes);
            let v = rr.gen_range(0..cfg.m);
            let keep = rr.gen_range(0..4) == 0; // sometimes one thread keeps its handles
            let vac = rr.gen_range(0..2) == 0;
            if !(keep && t == 0) {
                while let Some(h) = held.pop() {
                    th.count("drop");
                    th.release(h);
                }
            }
            barrier.wait();
            if vac && t == cfg.threads - 1 {
                th.op_vacuum();
            }
            if rr.gen_range(0..2) == 0 {
                barrier.wait();
            }
            if held.len() < cfg.maxh {
                let got = if rng.gen_range(0..5) == 0 { th.op_get(ty, v) } else { th.op_intern(ty, v) };
                if let Some(h) = got {
                    held.push(h);
                }
            }
            let extra = rng.gen_range(0..4);
            random_ops(&mut th, &mut rng, &mut held, &cfg, extra, bg);
            barrier.wait();
        }
    } else {
        random_ops(&mut th, &mut rng, &mut held, &cfg, cfg.ops, bg);
    }
    while let Some(h) = held.pop() {
        th.count("drop");
        th.release(h);
    }
    (th.log, th.ops)
}

/// Runs `f` on a helper thread; `None` if it did not finish within `secs`.
fn with_watchdog<R: Send + 'static>(secs: u64, f: impl FnOnce() -> R + Send + 'static) -> Option<R> {
    let (tx, rx) = mpsc::channel();
    std::thread::spawn(move || {
        let r = f();
        let _ = tx.send(r);
    });
    rx.recv_timeout(Duration::from_secs(secs)).ok()
}

fn mode_stress(a: &HashMap<String, String>) -> i32 {
    let seed = util::arg_u64(a, "seed", 1);
    let runs = util::arg_u64(a, "runs", 8);
    let ops = util::arg_u64(a, "ops", 400) as u32;
    let maxt = util::arg_u64(a, "maxthreads", 16) as u32;
    let out_path = util::arg_str(a, "out", "/dev/null").to_string();
    let sum_path = util::arg_str(a, "summary", "/dev/stdout").to_string();
    let mut out = std::io::BufWriter::new(std::fs::File::create(&out_path).expect("create trace"));
    let mut rng = StdRng::seed_from_u64(seed);
    let mut summary = Vec::new();
    let thread_choices: Vec<u32> = [2u32, 3, 4, 6, 8, 12, 16].into_iter().filter(|t| *t <= maxt).collect();
    let mut hang = false;
    for run in 0..runs {
        let threads = thread_choices[(run as usize + rng.gen_range(0..thread_choices.len())) % thread_choices.len()];
        let m = rng.gen_range(1..=3u32);
        let ntypes = [2u8, 3, 5][rng.gen_range(0..3)];
        let cfg = StressCfg {
            threads,
            ops: (ops * 8 / (threads + 4)).max(20),
            m,
            ntypes,
            maxh: rng.gen_range(1..=3),
            storm: run % 2 == 1,
            seed: seed.wrapping_mul(1_000_003).wrapping_add(run),
        };
        let shards = [2usize, 4, 16][rng.gen_range(0..3)];
        let bg_us = if rng.gen_range(0..3) == 0 { [50u64, 300, 2000][rng.gen_range(0..3)] } else { 0 };
        let registry = run % 3 != 2;
        let sh = Arc::new(Shared::new(new_interner(shards, bg_us), m, registry));
        let barrier = Arc::new(Barrier::new(threads as usize));
        let sh2 = sh.clone();
        let res = with_watchdog(180, move || {
            let mut joins = Vec::new();
            for t in 0..threads {
                let (sh, barrier) = (sh2.clone(), barrier.clone());
                joins.push(std::thread::spawn(move || stress_thread(&sh, t, cfg, &barrier, bg_us > 0)));
            }
            let mut evs = Vec::new();
            let mut ops: BTreeMap<String, u64> = BTreeMap::new();
            for j in joins {
                let (e, o) = j.join().expect("harness thread panicked");
                evs.extend(e);
                for (k, v) in o {
                    *ops.entry(k.to_string()).or_insert(0) += v;
                }
            }
            (evs, ops)
        });
        let Some((evs, opc)) = res else {
            hang = true;
            summary.push(json!({"run": run, "hang": true, "threads": threads}));
            break;
        };
        let n_ev = evs.len();
        let header = json!({"e": "run", "run": run, "threads": threads, "m": m, "ntypes": ntypes, "maxh": cfg.maxh,
            "storm": cfg.storm, "shards": shards, "bg_vacuum_us": bg_us, "seed": cfg.seed});
        let allocs = write_run(&mut out, header.clone(), evs);
        let inproc = sh.inproc.lock().unwrap().clone();
        summary.push(json!({"run": run, "cfg": header, "events": n_ev, "ops": opc, "allocations_seen": allocs,
            "registry": registry, "inproc_failures": inproc}));
    }
    out.flush().unwrap();
    std::fs::write(&sum_path, serde_json::to_string(&json!({"mode": "stress", "seed": seed, "hang": hang, "runs": summary})).unwrap() + "\n").unwrap();
    if hang { 3 } else { 0 }
}

// ---------------------------------------------------------------------------
// replay of TLC-generated sequential behaviours
// ---------------------------------------------------------------------------

/// model type 1/2 -> harness type index
const TYMAPS: [(u8, u8); 4] = [(1, 2), (3, 4), (5, 4), (2, 1)];

#[derive(Debug, Clone, Encode, Decode)]
#[serialize_crate(qbice_serialize)]
enum Shape {
    V(Vec<H>),
    T2((H, H)),
    T3((H, H, H)),
}

impl Shape {
    fn of(items: Vec<H>, tuple: bool) -> Self {
        if tuple && items.len() == 2 {
            let mut it = items.into_iter();
            Shape::T2((it.next().unwrap(), it.next().unwrap()))
        } else if tuple && items.len() == 3 {
            let mut it = items.into_iter();
            Shape::T3((it.next().unwrap(), it.next().unwrap(), it.next().unwrap()))
        } else {
            Shape::V(items)
        }
    }
    fn tops(&self) -> Vec<Leaf> {
        match self {
            Shape::V(v) => v.iter().map(H::top).collect(),
            Shape::T2((a, b)) => vec![a.top(), b.top()],
            Shape::T3((a, b, c)) => vec![a.top(), b.top(), c.top()],
        }
    }
}

fn encode_bytes<T: Encode>(x: &T, i: &Interner) -> Vec<u8> {
    let mut plugin = Plugin::new();
    plugin.insert(i.clone());
    let mut buf = Vec::new();
    let mut enc = PostcardEncoder::new(&mut buf);
    enc.encode(x, &plugin).expect("encode");
    buf
}

fn decode_bytes<T: Decode>(b: &[u8], i: &Interner) -> Result<T, String> {
    let mut plugin = Plugin::new();
    plugin.insert(i.clone());
    let r = catch_unwind(AssertUnwindSafe(|| {
        let mut dec = PostcardDecoder::new(b);
        dec.decode::<T>(&plugin)
    }));
    match r {
        Ok(Ok(x)) => Ok(x),
        Ok(Err(e)) => Err(format!("io error: {e}")),
        Err(e) => Err(format!(
            "panic: {}",
            e.downcast_ref::<String>().cloned().or_else(|| e.downcast_ref::<&str>().map(|s| (*s).to_string())).unwrap_or_default()
        )),
    }
}

/// ids equal <=> pointers equal, over all pairs of non-empty positions
fn pattern_mismatch(ids: &[u64], ptrs: &[Option<Leaf>]) -> Option<Value> {
    for i in 0..ids.len() {
        if (ids[i] == 0) != ptrs[i].is_none() {
            return Some(json!({"kind": "drift_presence", "pos": i, "model": ids[i], "real_present": ptrs[i].is_some()}));
        }
    }
    for i in 0..ids.len() {
        for j in (i + 1)..ids.len() {
            let (Some(a), Some(b)) = (ptrs[i], ptrs[j]) else { continue };
            let same_model = ids[i] == ids[j];
            let same_real = a.p == b.p;
            if same_model && !same_real {
                return Some(json!({"kind": "two_allocations", "pos": [i, j], "ty": a.ty, "v": a.v}));
            }
            if !same_model && same_real {
                return Some(json!({"kind": "shared_allocation", "pos": [i, j], "a": [a.ty, a.v], "b": [b.ty, b.v]}));
            }
        }
    }
    None
}

fn same_pattern(src_ids: &[u64], src_vals: &[(u8, u32)], out: &[Leaf]) -> Option<Value> {
    if src_ids.len() != out.len() {
        return Some(json!({"kind": "decode_length", "want": src_ids.len(), "got": out.len()}));
    }
    for i in 0..out.len() {
        if (out[i].ty, out[i].v) != src_vals[i] || !out[i].ok {
            return Some(json!({"kind": "decode_value", "pos": i}));
        }
        for j in (i + 1)..out.len() {
            if (src_ids[i] == src_ids[j]) != (out[i].p == out[j].p) {
                return Some(json!({"kind": "decode_sharing", "pos": [i, j]}));
            }
        }
    }
    None
}

struct ReplayOut {
    fails: Vec<Value>,
    evs: Vec<Ev>,
    checks: u64,
}

fn replay_case(ops: &[Value], variant: usize, case_no: u64) -> ReplayOut {
    let (t1, t2) = TYMAPS[variant % TYMAPS.len()];
    let shards = if (variant / TYMAPS.len()) % 2 == 0 { 2 } else { 16 };
    let bg_us = if (variant / (2 * TYMAPS.len())) % 2 == 1 { 100 } else { 0 };
    let m = 3u32;
    let sh = Shared::new(new_interner(shards, bg_us), m, true);
    let mut th = Th::new(&sh, 1);
    let tymap = |ty: u64| if ty == 1 { t1 } else { t2 };
    let nvars = ops.first().and_then(|o| o["pat"].as_array()).map_or(2, Vec::len);
    let mut vars: Vec<Option<Held>> = (0..nvars).map(|_| None).collect();
    let mut fails = Vec::new();
    let mut checks = 0u64;
    let mut pending: Option<(Vec<u8>, Vec<u64>, Vec<(u8, u32)>)> = None;
    for (k, o) in ops.iter().enumerate() {
        let name = o["o"].as_str().unwrap_or("");
        let var = o["var"].as_u64().unwrap_or(0) as usize;
        let mut fail = |v: Value| fails.push(json!({"op": k, "o": name, "fail": v}));
        match name {
            "intern" => {
                let (ty, v) = (tymap(o["ty"].as_u64().unwrap()), o["v"].as_u64().unwrap() as u32);
                match th.op_intern(ty, v) {
                    Some(h) => {
                        if !h.ids[0].1.ok || h.ids[0].1.v != v {
                            fail(json!({"kind": "content"}));
                        }
                        vars[var - 1] = Some(h);
                    }
                    None => fail(json!({"kind": "panic"})),
                }
            }
            "get" => {
                let (ty, v) = (tymap(o["ty"].as_u64().unwrap()), o["v"].as_u64().unwrap() as u32);
                let got = th.op_get(ty, v);
                match (got, var) {
                    (Some(h), 0) => {
                        fail(json!({"kind": "drift_lookup_found_unreferenced", "ty": ty, "v": v}));
                        th.release(h);
                    }
                    (None, x) if x > 0 => fail(json!({"kind": "lookup_missed_live", "ty": ty, "v": v})),
                    (Some(h), x) => {
                        if !h.ids[0].1.ok || h.ids[0].1.v != v {
                            fail(json!({"kind": "content"}));
                        }
                        vars[x - 1] = Some(h);
                    }
                    (None, _) => {}
                }
            }
            "clone" => {
                let src = o["src"].as_u64().unwrap() as usize;
                let c = th.op_clone(vars[src - 1].as_ref().expect("clone of empty var"));
                vars[var - 1] = Some(c);
            }
            "drop" => {
                let h = vars[var - 1].take().expect("drop of empty var");
                th.count("drop");
                th.release(h);
            }
            "vacuum" => th.op_vacuum(),
            "enc" => {
                let items: Vec<usize> = o["items"].as_array().unwrap().iter().map(|x| x.as_u64().unwrap() as usize).collect();
                let hs: Vec<H> = items.iter().map(|i| vars[*i - 1].as_ref().unwrap().h.clone()).collect();
                let vals: Vec<(u8, u32)> = hs.iter().map(|h| { let l = h.top(); (l.ty, l.v) }).collect();
                let shape = Shape::of(hs, case_no % 2 == 1);
                let bytes = encode_bytes(&shape, &sh.interner);
                drop(shape);
                let srcp: Vec<u64> = o["srcp"].as_array().unwrap().iter().map(|x| x.as_u64().unwrap()).collect();
                pending = Some((bytes, srcp, vals));
            }
            "dec" => {
                let (bytes, srcp, vals) = pending.take().expect("dec without enc");
                let want_err = o["err"].as_str().unwrap_or("") != "";
                match decode_bytes::<Shape>(&bytes, &sh.interner) {
                    Ok(shape) => {
                        if want_err {
                            fail(json!({"kind": "drift_decode_succeeded"}));
                        }
                        let tops = shape.tops();
                        // log decoded handles as live while we look at them
                        let helds: Vec<Held> = match shape {
                            Shape::V(v) => v,
                            Shape::T2((a, b)) => vec![a, b],
                            Shape::T3((a, b, c)) => vec![a, b, c],
                        }
                        .into_iter()
                        .map(|h| th.acquire(h, "decode"))
                        .collect();
                        let out_ids: Vec<u64> = o["out"].as_array().unwrap().iter().map(|x| x.as_u64().unwrap()).collect();
                        if let Some(f) = same_pattern(&srcp, &vals, &tops) {
                            fail(f);
                        }
                        // equalities among decoded leaves and with the handle variables
                        let pat: Vec<u64> = o["pat"].as_array().unwrap().iter().map(|x| x.as_u64().unwrap()).collect();
                        let mut ids = pat.clone();
                        ids.extend(out_ids.iter().copied());
                        let mut ptrs: Vec<Option<Leaf>> = vars.iter().map(|h| h.as_ref().map(|h| h.ids[0].1)).collect();
                        ptrs.extend(tops.iter().map(|l| Some(*l)));
                        checks += 1;
                        if ids.len() == ptrs.len() {
                            if let Some(f) = pattern_mismatch(&ids, &ptrs) {
                                fail(f);
                            }
                        } else {
                            fail(json!({"kind": "decode_length"}));
                        }
                        th.ev(EvK::Codec { variant: "same", src: tops.clone(), out: tops.clone() });
                        for h in helds {
                            th.release(h);
                        }
                    }
                    Err(msg) => {
                        if !want_err {
                            th.ev(EvK::DecFail { variant: "same", msg: msg.clone() });
                            fail(json!({"kind": "decode_failed", "msg": msg}));
                        }
                    }
                }
                // the same bytes on a fresh interner: values and the source's sharing
                let fresh = new_interner(shards, 0);
                match decode_bytes::<Shape>(&bytes, &fresh) {
                    Ok(shape) => {
                        if let Some(f) = same_pattern(&srcp, &vals, &shape.tops()) {
                            fail(json!({"fresh": f}));
                        }
                    }
                    Err(msg) => fail(json!({"kind": "decode_failed", "fresh": true, "msg": msg})),
                }
            }
            other => fail(json!({"kind": "harness_unknown_op", "o": other})),
        }
        // prediction: which handle variables point to the same allocation
        let pat: Vec<u64> = o["pat"].as_array().unwrap().iter().map(|x| x.as_u64().unwrap()).collect();
        let ptrs: Vec<Option<Leaf>> = vars.iter().map(|h| h.as_ref().map(|h| h.ids[0].1)).collect();
        checks += 1;
        if let Some(f) = pattern_mismatch(&pat, &ptrs) {
            fails.push(json!({"op": k, "o": name, "fail": f}));
        }
        if !fails.is_empty() {
            // model and code have diverged: the rest of the behaviour is meaningless
            break;
        }
    }
    for v in vars.iter_mut() {
        if let Some(h) = v.take() {
            th.release(h);
        }
    }
    for f in sh.inproc.lock().unwrap().iter() {
        fails.push(json!({"op": -1, "o": "registry", "fail": f}));
    }
    ReplayOut { fails, evs: th.log, checks }
}

fn mode_replay(a: &HashMap<String, String>) -> i32 {
    let inp = util::arg_str(a, "in", "");
    let out_path = util::arg_str(a, "out", "/dev/null").to_string();
    let res_path = util::arg_str(a, "results", "/dev/stdout").to_string();
    let variants = util::arg_u64(a, "variants", 4) as usize;
    let trace_every = util::arg_u64(a, "trace-every", 1);
    let seed = util::arg_u64(a, "seed", 1);
    let wrong = util::arg_u64(a, "selftest-wrong", 0); // corrupt the prediction of case N (1-based)
    let text = std::fs::read_to_string(inp).expect("read cases");
    let mut out = std::io::BufWriter::new(std::fs::File::create(&out_path).expect("create trace"));
    let mut res = std::io::BufWriter::new(std::fs::File::create(&res_path).expect("create results"));
    let (mut cases, mut runs, mut failed, mut checks, mut traced) = (0u64, 0u64, 0u64, 0u64, 0u64);
    for line in text.lines().filter(|l| !l.trim().is_empty()) {
        let mut case: Value = serde_json::from_str(line).expect("case json");
        cases += 1;
        if wrong == cases {
            // deliberately wrong expectation: claim that the first two handle variables never share
            if let Some(ops) = case["ops"].as_array_mut() {
                for o in ops.iter_mut() {
                    if let Some(p) = o["pat"].as_array_mut() {
                        if p.len() >= 2 && p[0] == p[1] && p[0] != 0 {
                            p[1] = json!(p[0].as_u64().unwrap() + 7);
                        }
                    }
                }
            }
        }
        let ops = case["ops"].as_array().cloned().unwrap_or_default();
        for k in 0..variants {
            // rotate the variants with the case number so that few variants still cover all maps
            let variant = (k + (cases as usize) + seed as usize) % 16;
            let r = replay_case(&ops, variant, cases);
            runs += 1;
            checks += r.checks;
            if !r.fails.is_empty() {
                failed += 1;
                writeln!(res, "{}", json!({"case": cases, "variant": variant, "fails": r.fails, "ops": ops})).unwrap();
            }
            if trace_every > 0 && (cases + k as u64) % trace_every == 0 {
                traced += 1;
                write_run(&mut out, json!({"e": "run", "case": cases, "variant": variant, "threads": 1}), r.evs);
            }
        }
    }
    writeln!(res, "{}", json!({"summary": true, "cases": cases, "runs": runs, "failed_runs": failed, "checks": checks, "traced_runs": traced})).unwrap();
    out.flush().unwrap();
    res.flush().unwrap();
    0
}

// ---------------------------------------------------------------------------
// codec: random structures with repeated handles
// ---------------------------------------------------------------------------

#[derive(Debug, Clone, Encode, Decode)]
#[serialize_crate(qbice_serialize)]
enum Tree {
    Leaf(H),
    List(Vec<Tree>),
    Pair(Box<Tree>, Box<Tree>),
    Opt(Option<Box<Tree>>),
    Tup((H, H, H)),
    Map(BTreeMap<u32, H>),
    Rec { a: H, rest: Vec<H>, b: H },
}

impl Tree {
    fn leaves(&self, out: &mut Vec<Leaf>) {
        match self {
            Tree::Leaf(h) => h.leaves(out),
            Tree::List(v) => v.iter().for_each(|t| t.leaves(out)),
            Tree::Pair(a, b) => {
                a.leaves(out);
                b.leaves(out);
            }
            Tree::Opt(o) => {
                if let Some(t) = o {
                    t.leaves(out);
                }
            }
            Tree::Tup((a, b, c)) => {
                a.leaves(out);
                b.leaves(out);
                c.leaves(out);
            }
            Tree::Map(m) => m.values().for_each(|h| h.leaves(out)),
            Tree::Rec { a, rest, b } => {
                a.leaves(out);
                rest.iter().for_each(|h| h.leaves(out));
                b.leaves(out);
            }
        }
    }
    fn shape(&self) -> String {
        match self {
            Tree::Leaf(h) => { let l = h.top(); format!("{}:{}", l.ty, l.v) }
            Tree::List(v) => format!("[{}]", v.iter().map(Tree::shape).collect::<Vec<_>>().join(",")),
            Tree::Pair(a, b) => format!("({},{})", a.shape(), b.shape()),
            Tree::Opt(o) => o.as_ref().map_or("None".into(), |t| format!("Some({})", t.shape())),
            Tree::Tup((a, b, c)) => format!("<{},{},{}>", Tree::Leaf(a.clone()).shape(), Tree::Leaf(b.clone()).shape(), Tree::Leaf(c.clone()).shape()),
            Tree::Map(m) => format!("{{{}}}", m.values().map(|h| Tree::Leaf(h.clone()).shape()).collect::<Vec<_>>().join(",")),
            Tree::Rec { a, rest, b } => format!("R({};{};{})", Tree::Leaf(a.clone()).shape(), rest.len(), Tree::Leaf(b.clone()).shape()),
        }
    }
}

fn rand_h(i: &Interner, rng: &mut StdRng, m: u32) -> H {
    let ty = rng.gen_range(1..=NTYPES);
    do_intern(i, ty, rng.gen_range(0..m), m)
}

fn rand_tree(i: &Interner, rng: &mut StdRng, m: u32, depth: u32) -> Tree {
    let k = if depth == 0 { rng.gen_range(0..4) } else { rng.gen_range(0..9) };
    match k {
        0 | 1 => Tree::Leaf(rand_h(i, rng, m)),
        2 => Tree::Tup((rand_h(i, rng, m), rand_h(i, rng, m), rand_h(i, rng, m))),
        3 => Tree::Map((0..rng.gen_range(0..4)).map(|k| (k, rand_h(i, rng, m))).collect()),
        4 | 5 => Tree::List((0..rng.gen_range(0..5)).map(|_| rand_tree(i, rng, m, depth - 1)).collect()),
        6 => Tree::Pair(Box::new(rand_tree(i, rng, m, depth - 1)), Box::new(rand_tree(i, rng, m, depth - 1))),
        7 => Tree::Opt(if rng.gen_range(0..3) == 0 { None } else { Some(Box::new(rand_tree(i, rng, m, depth - 1))) }),
        _ => Tree::Rec { a: rand_h(i, rng, m), rest: (0..rng.gen_range(0..4)).map(|_| rand_h(i, rng, m)).collect(), b: rand_h(i, rng, m) },
    }
}

fn leaves_pattern_fail(src: &[Leaf], out: &[Leaf]) -> Option<Value> {
    if src.len() != out.len() {
        return Some(json!({"kind": "decode_length", "want": src.len(), "got": out.len()}));
    }
    for i in 0..src.len() {
        if (src[i].ty, src[i].v) != (out[i].ty, out[i].v) || !out[i].ok {
            return Some(json!({"kind": "decode_value", "pos": i}));
        }
        for j in (i + 1)..src.len() {
            if (src[i].p == src[j].p) != (out[i].p == out[j].p) {
                return Some(json!({"kind": "decode_sharing", "pos": [i, j], "src_shared": src[i].p == src[j].p}));
            }
        }
    }
    None
}

fn mode_codec(a: &HashMap<String, String>) -> i32 {
    let seed = util::arg_u64(a, "seed", 1);
    let n = util::arg_u64(a, "cases", 200);
    let out_path = util::arg_str(a, "out", "/dev/null").to_string();
    let res_path = util::arg_str(a, "results", "/dev/stdout").to_string();
    let mut out = std::io::BufWriter::new(std::fs::File::create(&out_path).expect("create trace"));
    let mut res = std::io::BufWriter::new(std::fs::File::create(&res_path).expect("create results"));
    let mut rng = StdRng::seed_from_u64(seed ^ 0xC0DEC);
    let (mut failed, mut leaves_total, mut repeated_cases, mut nested_cases) = (0u64, 0u64, 0u64, 0u64);
    let mut by_variant: BTreeMap<&'static str, u64> = BTreeMap::new();
    let mut samples = Vec::new();
    let mut hang = false;
    for case in 0..n {
        let m = rng.gen_range(1..=3u32);
        let shards = [2usize, 4, 16][rng.gen_range(0..3)];
        let bg_us = if rng.gen_range(0..4) == 0 { 100 } else { 0 };
        let variant: &'static str = ["alive", "dropped", "dropped_vacuumed", "fresh", "churn"][(case % 5) as usize];
        *by_variant.entry(variant).or_insert(0) += 1;
        let sh = Arc::new(Shared::new(new_interner(shards, bg_us), m, false));
        let cseed = rng.r#gen::<u64>();
        let sh2 = sh.clone();
        let r = with_watchdog(120, move || {
            let sh = sh2;
            let mut rng = StdRng::seed_from_u64(cseed);
            let mut th = Th::new(&sh, 0);
            let mut fails = Vec::new();
            let tree = rand_tree(&sh.interner, &mut rng, m, 3);
            let shape = tree.shape();
            let mut src = Vec::new();
            tree.leaves(&mut src);
            let bytes = encode_bytes(&tree, &sh.interner);
            // churn threads on the same interner and value domain
            let stop = Arc::new(AtomicBool::new(false));
            let mut churn = Vec::new();
            if variant == "churn" {
                for t in 1..=3u32 {
                    let (sh, stop) = (sh.clone(), stop.clone());
                    churn.push(std::thread::spawn(move || {
                        let mut th = Th::new(&sh, t);
                        let mut rng = StdRng::seed_from_u64(cseed ^ u64::from(t));
                        let cfg = StressCfg { threads: 4, ops: 0, m, ntypes: NTYPES, maxh: 2, storm: false, seed: cseed };
                        let mut held = Vec::new();
                        while !stop.load(Ordering::Relaxed) {
                            random_ops(&mut th, &mut rng, &mut held, &cfg, 8, false);
                        }
                        while let Some(h) = held.pop() {
                            th.release(h);
                        }
                        th.log
                    }));
                }
            }
            // the source structure, logged as held handles while it is alive
            let mut src_held: Option<Vec<(u64, Leaf)>> = None;
            let mut tree = Some(tree);
            match variant {
                "alive" | "churn" => {
                    let mut ids = Vec::new();
                    for lf in &src {
                        let id = sh.hid.fetch_add(1, Ordering::SeqCst);
                        th.ev(EvK::Acq { h: id, ty: lf.ty, v: lf.v, p: lf.p, ok: lf.ok, via: "source" });
                        ids.push((id, *lf));
                    }
                    src_held = Some(ids);
                }
                "dropped" => drop(tree.take()),
                "dropped_vacuumed" => {
                    drop(tree.take());
                    sh.interner.vacuum();
                }
                _ => {}
            }
            let target = if variant == "fresh" { new_interner(shards, 0) } else { sh.interner.clone() };
            let rounds = if variant == "churn" { 20 } else { 1 };
            let mut n_out = 0;
            for round in 0..rounds {
                match decode_bytes::<Tree>(&bytes, &target) {
                    Ok(dec) => {
                        let mut outl = Vec::new();
                        dec.leaves(&mut outl);
                        n_out = outl.len();
                        let mut ids = Vec::new();
                        for lf in &outl {
                            let id = sh.hid.fetch_add(1, Ordering::SeqCst);
                            if variant != "fresh" {
                                th.ev(EvK::Acq { h: id, ty: lf.ty, v: lf.v, p: lf.p, ok: lf.ok, via: "decode" });
                            }
                            ids.push(id);
                        }
                        th.ev(EvK::Codec { variant, src: src.clone(), out: outl.clone() });
                        if let Some(f) = leaves_pattern_fail(&src, &outl) {
                            fails.push(json!({"round": round, "fail": f}));
                        }
                        if src_held.is_some() {
                            for (s, o) in src.iter().zip(outl.iter()) {
                                if s.p != o.p {
                                    fails.push(json!({"round": round, "fail": {"kind": "two_allocations", "ty": s.ty, "v": s.v}}));
                                    break;
                                }
                            }
                        }
                        if variant != "fresh" {
                            for id in ids.iter().rev() {
                                th.ev(EvK::Rel { h: *id });
                            }
                        }
                        drop(dec);
                    }
                    Err(msg) => {
                        th.ev(EvK::DecFail { variant, msg: msg.clone() });
                        fails.push(json!({"round": round, "fail": {"kind": "decode_failed", "msg": msg}}));
                    }
                }
            }
            if let Some(ids) = src_held {
                for (id, _) in ids.iter().rev() {
                    th.ev(EvK::Rel { h: *id });
                }
            }
            drop(tree);
            stop.store(true, Ordering::Relaxed);
            let mut evs = th.log;
            for c in churn {
                evs.extend(c.join().expect("churn thread"));
            }
            (shape, src, n_out, fails, evs)
        });
        let Some((shape, src, n_out, fails, evs)) = r else {
            hang = true;
            writeln!(res, "{}", json!({"case": case, "variant": variant, "hang": true})).unwrap();
            break;
        };
        let distinct: std::collections::BTreeSet<usize> = src.iter().map(|l| l.p).collect();
        leaves_total += src.len() as u64;
        if distinct.len() < src.len() {
            repeated_cases += 1;
        }
        if src.iter().any(|l| l.ty == 5) {
            nested_cases += 1;
        }
        write_run(&mut out, json!({"e": "run", "case": case, "variant": variant, "threads": if variant == "churn" { 4 } else { 1 }}), evs);
        if samples.len() < 4 && distinct.len() < src.len() {
            samples.push(json!({"variant": variant, "shape": shape, "leaves": src.len(), "distinct_allocations": distinct.len(), "decoded_leaves": n_out}));
        }
        if !fails.is_empty() {
            failed += 1;
            writeln!(res, "{}", json!({"case": case, "variant": variant, "shape": shape, "leaves": src.len(), "fails": fails})).unwrap();
        }
    }
    writeln!(res, "{}", json!({"summary": true, "cases": n, "failed": failed, "leaves": leaves_total, "cases_with_repeats": repeated_cases,
        "cases_with_nested": nested_cases, "by_variant": by_variant, "samples": samples, "hang": hang})).unwrap();
    out.flush().unwrap();
    res.flush().unwrap();
    if hang { 3 } else { 0 }
}

fn main() {
    let a = util::args();
    // panics of the code under test are data; keep stderr quiet
    let _ = util::count_panics(true);
    let rc = match util::arg_str(&a, "mode", "stress") {
        "stress" => mode_stress(&a),
        "replay" => mode_replay(&a),
        "codec" => mode_codec(&a),
        m => {
            eprintln!("unknown mode {m}");
            2
        }
    };
    std::process::exit(rc);
}
