//! C12 replay binary: executes behaviours enumerated by TLC (specs/Codec.tla,
//! specs/CodecGen.tla) against the real qbice_serialize code.
//!
//!   --mode universe                      print the constructor/leaf/class tables (input of TLC)
//!   --mode beh   --in F --out G          one complete behaviour per line {"id","pool","ops"}
//!   --mode cases --cases F --shapes S --out G
//!                                        F: one case term per line (from CodecGen), S: JSON list of
//!                                        op shapes {"k":pool size,"ops":[..]} (from Codec.tla);
//!                                        consecutive cases fill the pool of the next shape
//!   --mode hashes                        content hashes of equal text as str / String / W(String) (real hasher)
//!   --mode sweep --n N --out G           statically typed sweeps (exhaustive 8/16 bit, boundaries, random)
//! Common: --seed S   (perturbation of neighbouring values, random sweeps, case/shape alignment)
use std::io::{BufRead, BufWriter, Write};

use serde_json::{Value as J, json};
use vh::codec;
use vh::util::{arg_str, arg_u64, args};

fn r_bytes(_line: &J, before: u64, after: u64) -> J { json!(after - before) }

fn main() {
    let a = args();
    let mode = arg_str(&a, "mode", "universe").to_string();
    let seed = arg_u64(&a, "seed", 1);
    let quiet = arg_u64(&a, "verbose", 0) == 0;
    let _pc = vh::util::count_panics(quiet);
    if mode == "universe" {
        println!("{}", codec::universe());
        return;
    }
    if mode == "hashes" {
        // premise of the cross-type interning cases, measured on the real hasher
        println!("{}", codec::hash_collisions());
        return;
    }
    let out_path = arg_str(&a, "out", "/dev/stdout").to_string();
    let mut out = BufWriter::new(std::fs::File::create(&out_path).expect("create --out"));
    match mode.as_str() {
        "beh" => {
            let f = std::fs::File::open(arg_str(&a, "in", "")).expect("open --in");
            let full = arg_u64(&a, "full", 0) == 1;
            let (mut n, mut nfail, mut ndrift, mut nsteps) = (0u64, 0u64, 0u64, 0u64);
            for line in std::io::BufReader::new(f).lines() {
                let line = line.unwrap();
                if line.trim().is_empty() { continue; }
                let b: J = serde_json::from_str(&line).expect("behaviour json");
                let pool = b["pool"].as_array().cloned().unwrap_or_default();
                let ops = b["ops"].as_array().cloned().unwrap_or_default();
                let mut r = codec::run_behaviour(&pool, &ops, seed);
                n += 1;
                nsteps += ops.len() as u64;
                let ok = r["ok"].as_bool().unwrap_or(false);
                let drift = r["drift"].as_array().map(|d| !d.is_empty()).unwrap_or(false);
                if !ok { nfail += 1; }
                if drift { ndrift += 1; }
                r["id"] = b["id"].clone();
                if ok && !drift && !full { r = json!({"id": b["id"], "ok": true}); } else { r["beh"] = b.clone(); }
                writeln!(out, "{}", r).unwrap();
            }
            writeln!(out, "{}", json!({"summary": true, "behaviours": n, "steps": nsteps, "failed": nfail, "drifting": ndrift,
                "wrapped_deques": codec::WRAPPED_DEQUES.load(std::sync::atomic::Ordering::Relaxed)})).unwrap();
        }
        "cases" => {
            let shapes: Vec<J> = serde_json::from_str(&std::fs::read_to_string(arg_str(&a, "shapes", "")).expect("read --shapes")).expect("shapes json");
            assert!(!shapes.is_empty());
            // the cases file is streamed (millions of lines in the thorough tier)
            let f = std::fs::File::open(arg_str(&a, "cases", "")).expect("open --cases");
            let mut lines = std::io::BufReader::new(f).lines().map(|l| l.unwrap()).filter(|l| !l.trim().is_empty())
                .map(|l| serde_json::from_str::<J>(&l).expect("case json"));
            let mut first: Vec<J> = vec![];
            let mut ncases = 0u64;
            // One line per behaviour, flushed: if the code under test aborts the process
            // (e.g. an allocation failure on a garbage length), the driver sees which
            // behaviour died and resumes behind it with --skip.
            let skip = arg_u64(&a, "skip", 0);
            // --describe N: print behaviour N (pool + ops) without running it
            let describe = arg_u64(&a, "describe", 0);
            let (mut n, mut nsteps, mut nenc, mut ndec, mut bytes) = (0u64, 0u64, 0u64, 0u64, 0u64);
            let mut si = (seed as usize) % shapes.len();
            let mut samples = 0;
            loop {
                let sh = &shapes[si % shapes.len()];
                si += 1;
                let k = sh["k"].as_u64().unwrap_or(1) as usize;
                let mut pool: Vec<J> = vec![];
                while pool.len() < k {
                    match lines.next() {
                        Some(c) => { ncases += 1; if first.len() < 8 { first.push(c.clone()); } pool.push(json!({"t": c})); }
                        None => break,
                    }
                }
                if pool.is_empty() { break; }
                // the last pool is filled by wrapping around to the first cases
                let mut w = 0;
                while pool.len() < k { pool.push(json!({"t": first[w % first.len()]})); w += 1; }
                n += 1;
                if n <= skip { continue; }
                let ops = sh["ops"].as_array().cloned().unwrap_or_default();
                // announce before running: the line of a behaviour that kills the process is its last trace
                if describe > 0 {
                    if n == describe { writeln!(out, "{}", json!({"i": n, "beh": {"pool": pool, "ops": ops, "shape": sh["id"]}})).unwrap(); break; }
                    continue;
                }
                writeln!(out, "{}", json!({"start": n})).unwrap();
                out.flush().unwrap();
                let r = codec::run_behaviour(&pool, &ops, seed);
                nsteps += ops.len() as u64;
                nenc += ops.iter().filter(|o| o["op"] == "enc").count() as u64;
                ndec += ops.iter().filter(|o| o["op"] == "dec").count() as u64;
                let bytes_before = bytes;
                bytes += r["bytes"].as_u64().unwrap_or(0);
                let ok = r["ok"].as_bool().unwrap_or(false);
                let drift = r["drift"].as_array().map(|d| !d.is_empty()).unwrap_or(false);
                let (ne, nd) = (ops.iter().filter(|o| o["op"] == "enc").count(), ops.iter().filter(|o| o["op"] == "dec").count());
                let mut line = json!({"i": n, "ok": ok});
                if !ok || drift || (samples < 3 && n % 20011 == 7) {
                    line = r;
                    line["i"] = json!(n);
                    line["beh"] = json!({"pool": pool, "ops": ops, "shape": sh["id"]});
                    if ok && !drift { samples += 1; line["sample"] = json!(true); }
                }
                line["e"] = json!(ne);
                line["d"] = json!(nd);
                line["b"] = r_bytes(&line, bytes_before, bytes);
                writeln!(out, "{}", line).unwrap();
            }
            writeln!(out, "{}", json!({"summary": true, "behaviours": n - skip.min(n), "cases": ncases, "steps": nsteps, "encodes": nenc, "decodes": ndec, "bytes": bytes,
                "wrapped_deques": codec::WRAPPED_DEQUES.load(std::sync::atomic::Ordering::Relaxed)})).unwrap();
        }
        "sweep" => {
            let n = arg_u64(&a, "n", 20000) as usize;
            for r in codec::sweeps(seed, n) { writeln!(out, "{}", r).unwrap(); }
        }
        m => { eprintln!("unknown mode {m}"); std::process::exit(2); }
    }
    out.flush().unwrap();
}
