//! C09 driver: the real `CacheSingleMap`, `CacheDynamicMap` and
//! `CacheKeyOfSetMap` of /repo over a gated `MemKv`.
//!
//! Modes
//! * `--mode replay --in B.ndjson --out T.ndjson` : every line of B is one
//!   behaviour printed by TLC (WideColumnCacheGen / KeyOfSetCacheGen) or a
//!   hand written witness; its steps are executed deterministically (clients
//!   are OS threads, a reader is parked inside the store read by the MemKv
//!   read hook, commits are released one by one through the commit gate).
//! * `--mode seq --seed S --runs N` : random single-client histories
//!   (several open batches, random commit points, floods that evict).
//! * `--mode par --seed S --runs N --threads T` : parallel readers/writers on
//!   shared keys, readers randomly stalled inside the store read, commit gate
//!   opened at random points.
//!
//! Every run is recorded as ndjson events in one total order (the order of
//! appends to the recorder): `run`, `new`, `ws`/`we` (write start/end),
//! `sub`, `gs`/`ge` (get start/end with the result), `cs`/`ce` (commit
//! allowed / after-commit notification observed), `flood`, `reset`.
//! The verdict is computed from these traces by TLC (CacheObsTrace.tla);
//! this binary never decides anything.

use std::{
    cell::Cell,
    collections::{BTreeMap, BTreeSet, HashMap, HashSet},
    io::Write as _,
    panic::AssertUnwindSafe,
    sync::{
        Arc,
        atomic::{AtomicBool, AtomicU64, Ordering},
        mpsc,
    },
    time::{Duration, Instant},
};

use dashmap::DashSet;
use fxhash::FxBuildHasher;
use parking_lot::{Condvar, Mutex};
use qbice::{Decode, Encode, Identifiable};
use qbice_serialize::Plugin;
use qbice_storage::{
    dynamic_map::DynamicMap,
    key_of_set_map::KeyOfSetMap,
    kv_database::{DiscriminantEncoding, KeyOfSetColumn, WideColumn, WideColumnValue},
    single_map::SingleMap,
    storage_engine::{
        StorageEngine, StorageEngineFactory,
        db_backed::{Configuration, DbBacked, DbBackedFactory},
    },
};
use rand::{Rng, SeedableRng, rngs::StdRng};
use serde_json::{Value, json};
use vh::{
    memkv::{Grouping, MemKv, MemKvFactory, ReadEvent, Store},
    util,
};

// ---------------------------------------------------------------- columns

#[derive(Debug, Clone, Copy, PartialEq, Eq, PartialOrd, Ord, Hash, Identifiable)]
pub struct SCol;
impl WideColumn for SCol {
    type Key = u32;
    type Discriminant = u8;
    fn discriminant_encoding() -> DiscriminantEncoding { DiscriminantEncoding::Prefixed }
}

#[derive(Debug, Clone, Copy, PartialEq, Eq, PartialOrd, Ord, Hash, Identifiable)]
pub struct DCol;
impl WideColumn for DCol {
    type Key = u32;
    type Discriminant = u8;
    fn discriminant_encoding() -> DiscriminantEncoding { DiscriminantEncoding::Suffixed }
}

#[derive(Debug, Clone, PartialEq, Eq, Encode, Decode)]
pub struct ValA(pub u32);
#[derive(Debug, Clone, PartialEq, Eq, Encode, Decode)]
pub struct ValB(pub u32, pub u8);

impl WideColumnValue<SCol> for ValA {
    fn discriminant() -> u8 { 0 }
}
impl WideColumnValue<DCol> for ValA {
    fn discriminant() -> u8 { 1 }
}
impl WideColumnValue<DCol> for ValB {
    fn discriminant() -> u8 { 2 }
}

#[derive(Debug, Clone, Copy, PartialEq, Eq, PartialOrd, Ord, Hash, Identifiable)]
pub struct KCol;
impl KeyOfSetColumn for KCol {
    type Key = u32;
    type Element = u32;
}

type SetC = Arc<DashSet<u32, FxBuildHasher>>;
type Eng = DbBacked<MemKv>;
type Batch = <Eng as StorageEngine>::WriteTransaction;

#[derive(Debug, Clone, Copy, PartialEq, Eq)]
enum Kind {
    Single,
    Dynamic,
    Set,
}

impl Kind {
    fn parse(s: &str) -> Self {
        match s {
            "single" => Self::Single,
            "dynamic" => Self::Dynamic,
            "set" => Self::Set,
            _ => panic!("unknown map kind {s}"),
        }
    }
    fn name(self) -> &'static str {
        match self {
            Self::Single => "single",
            Self::Dynamic => "dynamic",
            Self::Set => "set",
        }
    }
}

// ------------------------------------------------------------ thread state

thread_local! {
    /// client id of this thread (0 = the driver itself)
    static CID: Cell<usize> = const { Cell::new(0) };
    /// store reads performed by this thread (reset at the start of a get)
    static DBREADS: Cell<u64> = const { Cell::new(0) };
    /// this thread is inside a recorded get: its store reads are recorded
    static REC_GET: Cell<bool> = const { Cell::new(false) };
}

#[derive(Default)]
struct Sh {
    want_park: HashSet<usize>,
    parked: HashSet<usize>,
    release: HashSet<usize>,
    /// clients with a command in progress
    busy: HashSet<usize>,
    /// clients stalled by the chaos hook (par mode): cid -> release flag
    chaos_parked: HashSet<usize>,
    chaos_release: HashSet<usize>,
    last: HashMap<usize, Value>,
}

struct Rig {
    kind: Kind,
    store: Arc<Store>,
    single: <Eng as StorageEngine>::SingleMap<SCol, ValA>,
    dynamic: <Eng as StorageEngine>::DynamicMap<DCol>,
    set: <Eng as StorageEngine>::KeyOfSetMap<KCol, SetC>,
    wm: Mutex<Option<<Eng as StorageEngine>::WriteManager>>,
    sh: Mutex<Sh>,
    cv: Condvar,
    trace: Mutex<Vec<Value>>,
    ac_base: u64,
    commits_done: AtomicU64,
    next_epoch: Mutex<u64>,
    filler: AtomicU64,
    /// par mode: probability (per mille) that a store read of a client stalls
    chaos_pm: AtomicU64,
    chaos_seed: AtomicU64,
    dead: AtomicBool,
    panics: Arc<AtomicU64>,
}

const WATCHDOG: Duration = Duration::from_secs(60);

fn after_commit_done() -> u64 { qbice_storage::verif::AFTER_COMMIT_DONE.load(Ordering::SeqCst) }

impl Rig {
    fn new(kind: Kind, cap: u64, panics: Arc<AtomicU64>) -> Arc<Self> {
        let store = Store::new(Grouping::One);
        store.gate_close();
        let eng = DbBackedFactory::builder()
            .configuration(
                Configuration::builder().cache_capacity(cap).default_shard_amount(4).build(),
            )
            .db_factory(MemKvFactory { store: store.clone() })
            .build()
            .open(Plugin::default())
            .expect("open");
        let rig = Arc::new(Self {
            kind,
            single: eng.new_single_map::<SCol, ValA>(),
            dynamic: eng.new_dynamic_map::<DCol>(),
            set: eng.new_key_of_set_map::<KCol, SetC>(),
            wm: Mutex::new(Some(eng.new_write_manager())),
            store: store.clone(),
            sh: Mutex::new(Sh::default()),
            cv: Condvar::new(),
            trace: Mutex::new(Vec::new()),
            ac_base: after_commit_done(),
            commits_done: AtomicU64::new(0),
            next_epoch: Mutex::new(0),
            filler: AtomicU64::new(0),
            chaos_pm: AtomicU64::new(0),
            chaos_seed: AtomicU64::new(0),
            dead: AtomicBool::new(false),
            panics,
        });
        let r2 = Arc::downgrade(&rig);
        store.set_read_hook(Some(Arc::new(move |_ev: &ReadEvent| {
            let Some(r) = r2.upgrade() else { return };
            DBREADS.with(|c| c.set(c.get() + 1));
            let cid = CID.with(Cell::get);
            let rec = REC_GET.with(Cell::get);
            // `db`: the store was read (just before); `dbx`: the value is handed
            // to the cache (just after) - a stalled reader sits between the two
            if rec {
                r.rec(json!({"e": "db", "c": cid}));
            }
            if cid != 0 {
                r.hook(cid);
            }
            if rec {
                r.rec(json!({"e": "dbx", "c": cid}));
            }
        })));
        rig
    }

    fn rec(&self, v: Value) { self.trace.lock().push(v); }

    /// Runs inside `get_wide_column` / `scan_members` of a client thread,
    /// after the store was read and before the value is handed to the cache.
    fn hook(&self, cid: usize) {
        let mut sh = self.sh.lock();
        if sh.want_park.remove(&cid) {
            sh.parked.insert(cid);
            self.cv.notify_all();
            let t0 = Instant::now();
            while !sh.release.remove(&cid) {
                if self.cv.wait_for(&mut sh, Duration::from_millis(200)).timed_out()
                    && t0.elapsed() > WATCHDOG * 3
                {
                    break;
                }
            }
            sh.parked.remove(&cid);
            self.cv.notify_all();
            return;
        }
        let pm = self.chaos_pm.load(Ordering::Relaxed);
        if pm > 0 {
            // cheap deterministic-ish coin (the schedule is not reproducible
            // in par mode anyway; the recorded trace is what is judged)
            let x = self.chaos_seed.fetch_add(0x9E37_79B9_7F4A_7C15, Ordering::Relaxed);
            let mut z = x ^ (x >> 31);
            z = z.wrapping_mul(0xBF58_476D_1CE4_E5B9);
            z ^= z >> 29;
            if z % 1000 < pm {
                sh.chaos_parked.insert(cid);
                self.cv.notify_all();
                let t0 = Instant::now();
                while !sh.chaos_release.remove(&cid) {
                    if self.cv.wait_for(&mut sh, Duration::from_millis(50)).timed_out()
                        && t0.elapsed() > Duration::from_secs(5)
                    {
                        break;
                    }
                }
                sh.chaos_parked.remove(&cid);
            }
        }
    }

    /// Creates a batch; its epoch is the creation order. The `new` event is
    /// recorded under the same lock so that the trace shows epochs in order.
    fn new_batch(&self, cid: usize) -> (u64, Batch) {
        let mut e = self.next_epoch.lock();
        let wm = self.wm.lock();
        let b = wm.as_ref().expect("wm").new_write_batch();
        let ep = *e;
        *e += 1;
        self.rec(json!({"e": "new", "c": cid, "b": ep}));
        (ep, b)
    }

    fn submit(&self, b: Batch) { self.wm.lock().as_ref().expect("wm").submit_write_batch(b); }

    /// Let the next physical commit through and wait for its after-commit
    /// notification. Returns false if the background writer died.
    fn commit_next(&self, epoch: u64) -> bool {
        self.rec(json!({"e": "cs", "b": epoch}));
        let target = self.ac_base + self.commits_done.load(Ordering::SeqCst) + 1;
        self.store.gate_allow(1);
        let t0 = Instant::now();
        let p0 = self.panics.load(Ordering::SeqCst);
        loop {
            if after_commit_done() >= target {
                break;
            }
            if self.panics.load(Ordering::SeqCst) != p0 && t0.elapsed() > Duration::from_secs(2) {
                self.dead.store(true, Ordering::SeqCst);
                self.rec(json!({"e": "dead", "why": "panic in background writer"}));
                return false;
            }
            if t0.elapsed() > WATCHDOG {
                self.dead.store(true, Ordering::SeqCst);
                WATCHDOG_DEATHS.fetch_add(1, Ordering::SeqCst);
                self.rec(json!({"e": "dead", "why": "after-commit watchdog"}));
                return false;
            }
            std::thread::sleep(Duration::from_micros(50));
        }
        self.commits_done.fetch_add(1, Ordering::SeqCst);
        self.rec(json!({"e": "ce", "b": epoch}));
        true
    }

    /// Touch `n` never-written keys so that the admission cache runs its
    /// maintenance and evicts what it wants to evict.
    async fn flood(&self, n: u64) {
        self.rec(json!({"e": "flood", "n": n}));
        for _ in 0..n {
            let k = 1_000_000 + self.filler.fetch_add(1, Ordering::SeqCst) as u32;
            match self.kind {
                Kind::Single => {
                    let _ = self.single.get(&k).await;
                }
                Kind::Dynamic => {
                    let _ = self.dynamic.get::<ValA>(&k).await;
                    let _ = self.dynamic.get::<ValB>(&k).await;
                }
                Kind::Set => {
                    let _ = self.set.get(&k).await.count();
                }
            }
        }
    }

    async fn get(&self, k: u32) -> Value {
        match self.kind {
            Kind::Single => match self.single.get(&k).await {
                Some(ValA(v)) => json!(v),
                None => json!(-1),
            },
            Kind::Dynamic => {
                // model key j = 2*key + type
                let (key, ty) = (k / 2, k % 2);
                if ty == 0 {
                    match self.dynamic.get::<ValA>(&key).await {
                        Some(ValA(v)) => json!(v),
                        None => json!(-1),
                    }
                } else {
                    match self.dynamic.get::<ValB>(&key).await {
                        Some(ValB(v, t)) => {
                            if t == 7 { json!(v) } else { json!(-2) }
                        }
                        None => json!(-1),
                    }
                }
            }
            Kind::Set => {
                let it = self.set.get(&k).await;
                let s: BTreeSet<u32> = it.collect();
                json!(s.into_iter().collect::<Vec<_>>())
            }
        }
    }

    async fn ins(&self, k: u32, v: u32, b: &mut Batch) {
        match self.kind {
            Kind::Single => self.single.insert(k, ValA(v), b).await,
            Kind::Dynamic => {
                let (key, ty) = (k / 2, k % 2);
                if ty == 0 {
                    self.dynamic.insert(key, ValA(v), b).await;
                } else {
                    self.dynamic.insert(key, ValB(v, 7), b).await;
                }
            }
            Kind::Set => self.set.insert(k, v, b).await,
        }
    }

    async fn rem(&self, k: u32, v: u32, b: &mut Batch) {
        match self.kind {
            Kind::Single => self.single.remove(&k, b).await,
            Kind::Dynamic => {
                let (key, ty) = (k / 2, k % 2);
                if ty == 0 {
                    self.dynamic.remove::<ValA>(&key, b).await;
                } else {
                    self.dynamic.remove::<ValB>(&key, b).await;
                }
            }
            Kind::Set => self.set.remove(&k, &v, b).await,
        }
    }

    fn shutdown(&self) {
        self.store.set_read_hook(None);
        self.store.gate_open();
        {
            let mut sh = self.sh.lock();
            let p: Vec<usize> = sh.parked.iter().copied().collect();
            for c in p {
                sh.release.insert(c);
            }
            let p: Vec<usize> = sh.chaos_parked.iter().copied().collect();
            for c in p {
                sh.chaos_release.insert(c);
            }
            self.cv.notify_all();
        }
    }

    /// Drop the write manager (joins the background threads); only after
    /// every client thread has handed in its batches.
    fn drop_wm(&self) {
        let wm = self.wm.lock().take();
        drop(wm);
    }
}

// ---------------------------------------------------------------- clients

#[derive(Debug, Clone)]
enum Cmd {
    New { b: u64 },
    Ins { b: u64, k: u32, v: u32 },
    Rem { b: u64, k: u32, v: u32 },
    /// insert elements lo..hi (exclusive) one by one: one `ws`/`we` pair with a range
    InsRange { b: u64, k: u32, lo: u32, hi: u32 },
    Submit { b: u64 },
    Get { k: u32 },
    Stop,
}

struct Client {
    cid: usize,
    tx: mpsc::Sender<Cmd>,
    handle: Option<std::thread::JoinHandle<()>>,
}

fn spawn_client(rig: &Arc<Rig>, cid: usize) -> Client {
    let (tx, rx) = mpsc::channel::<Cmd>();
    let rig = rig.clone();
    let handle = std::thread::Builder::new()
        .name(format!("client{cid}"))
        .spawn(move || {
            CID.with(|c| c.set(cid));
            let mut batches: BTreeMap<u64, Batch> = BTreeMap::new();
            while let Ok(cmd) = rx.recv() {
                if matches!(cmd, Cmd::Stop) {
                    break;
                }
                let r = std::panic::catch_unwind(AssertUnwindSafe(|| {
                    futures::executor::block_on(exec(&rig, cid, cmd.clone(), &mut batches))
                }));
                REC_GET.with(|c| c.set(false));
                let v = match r {
                    Ok(v) => v,
                    Err(p) => {
                        let msg = p
                            .downcast_ref::<String>()
                            .cloned()
                            .or_else(|| p.downcast_ref::<&str>().map(|s| (*s).to_string()))
                            .unwrap_or_default();
                        rig.rec(json!({"e": "panic", "c": cid, "msg": msg, "cmd": format!("{cmd:?}")}));
                        json!({"panic": msg})
                    }
                };
                let mut sh = rig.sh.lock();
                sh.busy.remove(&cid);
                sh.last.insert(cid, v);
                rig.cv.notify_all();
            }
            // never drop an active batch (the code under test asserts on it)
            for (_, b) in std::mem::take(&mut batches) {
                let _ = std::panic::catch_unwind(AssertUnwindSafe(|| rig.submit(b)));
            }
        })
        .expect("spawn client");
    Client { cid, tx, handle: Some(handle) }
}

async fn exec(rig: &Arc<Rig>, cid: usize, cmd: Cmd, batches: &mut BTreeMap<u64, Batch>) -> Value {
    match cmd {
        Cmd::New { b } => {
            let (ep, wb) = rig.new_batch(cid);
            batches.insert(b, wb);
            json!({"epoch": ep})
        }
        Cmd::Ins { b, k, v } => {
            let wb = batches.get_mut(&b).expect("batch");
            rig.rec(json!({"e": "ws", "c": cid, "b": b, "k": k, "op": "ins", "v": v}));
            rig.ins(k, v, wb).await;
            rig.rec(json!({"e": "we", "c": cid, "b": b, "k": k, "op": "ins", "v": v}));
            Value::Null
        }
        Cmd::Rem { b, k, v } => {
            let wb = batches.get_mut(&b).expect("batch");
            rig.rec(json!({"e": "ws", "c": cid, "b": b, "k": k, "op": "rem", "v": v}));
            rig.rem(k, v, wb).await;
            rig.rec(json!({"e": "we", "c": cid, "b": b, "k": k, "op": "rem", "v": v}));
            Value::Null
        }
        Cmd::InsRange { b, k, lo, hi } => {
            let wb = batches.get_mut(&b).expect("batch");
            rig.rec(json!({"e": "ws", "c": cid, "b": b, "k": k, "op": "insr", "v": lo, "hi": hi}));
            for v in lo..hi {
                rig.ins(k, v, wb).await;
            }
            rig.rec(json!({"e": "we", "c": cid, "b": b, "k": k, "op": "insr", "v": lo, "hi": hi}));
            Value::Null
        }
        Cmd::Submit { b } => {
            let wb = batches.remove(&b).expect("batch");
            rig.rec(json!({"e": "sub", "c": cid, "b": b}));
            rig.submit(wb);
            Value::Null
        }
        Cmd::Get { k } => {
            DBREADS.with(|c| c.set(0));
            rig.rec(json!({"e": "gs", "c": cid, "k": k}));
            REC_GET.with(|c| c.set(true));
            let r = rig.get(k).await;
            REC_GET.with(|c| c.set(false));
            let d = DBREADS.with(Cell::get);
            rig.rec(json!({"e": "ge", "c": cid, "k": k, "r": r, "db": d}));
            json!({"r": r, "db": d})
        }
        Cmd::Stop => Value::Null,
    }
}

#[derive(Debug, PartialEq, Eq)]
enum Wait {
    Done,
    Parked,
    Hang,
}

struct Driver {
    rig: Arc<Rig>,
    clients: HashMap<usize, Client>,
}

impl Driver {
    fn new(rig: Arc<Rig>, n: usize) -> Self {
        let mut clients = HashMap::new();
        for cid in 1..=n {
            clients.insert(cid, spawn_client(&rig, cid));
        }
        Self { rig, clients }
    }

    fn issue(&self, cid: usize, cmd: Cmd, park: bool) {
        {
            let mut sh = self.rig.sh.lock();
            sh.busy.insert(cid);
            if park {
                sh.want_park.insert(cid);
            }
        }
        self.clients[&cid].tx.send(cmd).expect("client alive");
    }

    /// Wait until client `cid` finished its command or is parked in the hook.
    fn wait(&self, cid: usize) -> Wait {
        let mut sh = self.rig.sh.lock();
        let t0 = Instant::now();
        loop {
            if !sh.busy.contains(&cid) {
                sh.want_park.remove(&cid);
                return Wait::Done;
            }
            if sh.parked.contains(&cid) {
                return Wait::Parked;
            }
            if self.rig.cv.wait_for(&mut sh, Duration::from_millis(100)).timed_out()
                && t0.elapsed() > WATCHDOG
            {
                return Wait::Hang;
            }
        }
    }

    fn run(&self, cid: usize, cmd: Cmd) -> (Wait, Value) {
        self.issue(cid, cmd, false);
        let w = self.wait(cid);
        (w, self.last(cid))
    }

    fn last(&self, cid: usize) -> Value { self.rig.sh.lock().last.get(&cid).cloned().unwrap_or(Value::Null) }


    fn release(&self, cid: usize, park_again: bool) {
        let mut sh = self.rig.sh.lock();
        if !sh.parked.contains(&cid) {
            return;
        }
        if park_again {
            sh.want_park.insert(cid);
        }
        sh.release.insert(cid);
        self.rig.cv.notify_all();
        // wait until the client left the hook so that `parked` is not stale
        let t0 = Instant::now();
        while sh.parked.contains(&cid) && sh.release.contains(&cid) {
            if self.rig.cv.wait_for(&mut sh, Duration::from_millis(100)).timed_out()
                && t0.elapsed() > WATCHDOG
            {
                break;
            }
        }
    }

    fn finish(mut self) -> Vec<Value> {
        self.rig.shutdown();
        for (_, c) in self.clients.iter() {
            let _ = c.tx.send(Cmd::Stop);
        }
        for (_, c) in self.clients.iter_mut() {
            if let Some(h) = c.handle.take() {
                let _ = h.join();
            }
            let _ = c.cid;
        }
        self.rig.drop_wm();
        std::mem::take(&mut *self.rig.trace.lock())
    }
}

// ----------------------------------------------------------------- replay

/// Executes one behaviour. Returns the recorded events (incl. run/reset and
/// one `step` note per model step carrying the model's expectations).
fn replay_one(id: u64, beh: &Value, panics: &Arc<AtomicU64>) -> Vec<Value> {
    let kind = Kind::parse(beh["map"].as_str().unwrap_or("single"));
    let cap = beh["cap"].as_u64().unwrap_or(1);
    let flood_n = beh["flood"].as_u64().unwrap_or(400);
    let nclients = beh["clients"].as_u64().unwrap_or(2) as usize;
    let rig = Rig::new(kind, cap, panics.clone());
    let drv = Driver::new(rig.clone(), nclients);
    rig.rec(json!({"e": "run", "id": id, "map": kind.name(), "cap": cap, "mode": "replay",
        "T": 1024, "name": beh.get("name").cloned().unwrap_or(Value::Null)}));
    let steps = beh["steps"].as_array().cloned().unwrap_or_default();
    let mut next_commit = 0u64;
    let mut aborted = Value::Null;
    for (i, st) in steps.iter().enumerate() {
        let a = st["a"].as_str().unwrap_or("");
        let c = st["c"].as_u64().unwrap_or(1) as usize;
        let b = st["b"].as_u64().unwrap_or(0);
        let k = st["k"].as_u64().unwrap_or(0) as u32;
        let v = st["v"].as_u64().unwrap_or(0) as u32;
        // `note` events tie the model step (and its expectation) to the trace
        let note = |r: &Rig, got: Value| {
            r.rec(json!({"e": "note", "i": i + 1, "step": st, "got": got}));
        };
        match a {
            "new" => {
                let (w, r) = drv.run(c, Cmd::New { b });
                if w != Wait::Done || r["epoch"].as_u64() != Some(b) {
                    aborted = json!({"i": i + 1, "why": "batch id is not the epoch", "r": r});
                }
                note(&rig, r);
            }
            "ins" => {
                let (w, r) = drv.run(c, Cmd::Ins { b, k, v });
                if w != Wait::Done {
                    aborted = json!({"i": i + 1, "why": "write did not finish"});
                }
                note(&rig, r);
            }
            "insr" => {
                let hi = st["hi"].as_u64().unwrap_or(0) as u32;
                let (w, r) = drv.run(c, Cmd::InsRange { b, k, lo: v, hi });
                if w != Wait::Done {
                    aborted = json!({"i": i + 1, "why": "write did not finish"});
                }
                note(&rig, r);
            }
            "rem" => {
                let (w, r) = drv.run(c, Cmd::Rem { b, k, v });
                if w != Wait::Done {
                    aborted = json!({"i": i + 1, "why": "write did not finish"});
                }
                note(&rig, r);
            }
            "submit" => {
                let (w, r) = drv.run(c, Cmd::Submit { b });
                if w != Wait::Done {
                    aborted = json!({"i": i + 1, "why": "submit did not finish"});
                }
                note(&rig, r);
            }
            "commit" => {
                let ok = rig.commit_next(next_commit);
                next_commit += 1;
                if !ok {
                    aborted = json!({"i": i + 1, "why": "background writer dead"});
                }
                note(&rig, json!(ok));
            }
            "evict" => {
                futures::executor::block_on(rig.flood(st["n"].as_u64().unwrap_or(flood_n)));
                note(&rig, Value::Null);
            }
            "get" => {
                // park: stop inside the store read; wait: do not wait at all
                let park = st["park"].as_bool().unwrap_or(false);
                let nowait = st["wait"].as_bool().unwrap_or(false);
                drv.issue(c, Cmd::Get { k }, park);
                if nowait {
                    std::thread::sleep(Duration::from_millis(3));
                    note(&rig, json!("issued"));
                } else {
                    match drv.wait(c) {
                        Wait::Done => note(&rig, drv.last(c)),
                        Wait::Parked => note(&rig, json!("parked")),
                        Wait::Hang => {
                            aborted = json!({"i": i + 1, "why": "get hangs"});
                            note(&rig, json!("hang"));
                        }
                    }
                }
            }
            "release" => {
                let again = st["park"].as_bool().unwrap_or(false);
                drv.release(c, again);
                match drv.wait(c) {
                    Wait::Done => note(&rig, drv.last(c)),
                    Wait::Parked => note(&rig, json!("parked")),
                    Wait::Hang => {
                        aborted = json!({"i": i + 1, "why": "get hangs after release"});
                        note(&rig, json!("hang"));
                    }
                }
            }
            "await_park" => match drv.wait(c) {
                Wait::Parked => note(&rig, json!("parked")),
                Wait::Done => note(&rig, json!("done")),
                Wait::Hang => {
                    aborted = json!({"i": i + 1, "why": "get hangs"});
                    note(&rig, json!("hang"));
                }
            },
            "res" => {
                // the model's get is finished: let a reader that is (still or
                // again) parked in a store read run to completion
                let mut w = drv.wait(c);
                let mut guard = 0;
                while w == Wait::Parked && guard < 8 {
                    drv.release(c, false);
                    w = drv.wait(c);
                    guard += 1;
                }
                match w {
                    Wait::Done => note(&rig, drv.last(c)),
                    _ => {
                        aborted = json!({"i": i + 1, "why": "get hangs"});
                        note(&rig, json!("hang"));
                    }
                }
            }
            "end" => {}
            "join" => match drv.wait(c) {
                Wait::Done => note(&rig, drv.last(c)),
                Wait::Parked => note(&rig, json!("parked")),
                Wait::Hang => {
                    aborted = json!({"i": i + 1, "why": "get hangs"});
                    note(&rig, json!("hang"));
                }
            },
            _ => {
                aborted = json!({"i": i + 1, "why": format!("unknown step {a}")});
            }
        }
        if !aborted.is_null() {
            break;
        }
    }
    rig.rec(json!({"e": "reset", "id": id, "aborted": aborted}));
    drv.finish()
}

// ------------------------------------------------------- random sequential

struct SeqParams {
    kind: Kind,
    cap: u64,
    keys: u32,
    vals: u32,
    steps: usize,
    big: bool,
}

/// One random single-client history. The client may keep up to three open
/// batches; an element / key is only written through a batch whose epoch is
/// not below the epoch of the previous write to it (the storage layer
/// commits in epoch order, so this is the caller's side of the contract).
fn seq_one(id: u64, rng: &mut StdRng, p: &SeqParams, panics: &Arc<AtomicU64>) -> Vec<Value> {
    let rig = Rig::new(p.kind, p.cap, panics.clone());
    let drv = Driver::new(rig.clone(), 1);
    rig.rec(json!({"e": "run", "id": id, "map": p.kind.name(), "cap": p.cap, "mode": "seq",
        "T": 1024, "keys": p.keys, "vals": p.vals}));
    let mut open: Vec<u64> = Vec::new();
    let mut submitted: BTreeSet<u64> = BTreeSet::new();
    let mut next_commit = 0u64;
    let mut next_b = 0u64;
    let mut last_epoch: HashMap<(u32, u32), u64> = HashMap::new();
    let mut aborted = Value::Null;
    let mut big_done = false;
    let wkey = |k: u32, v: u32, kind: Kind| if kind == Kind::Set { (k, v) } else { (k, 0) };
    for _ in 0..p.steps {
        if rig.dead.load(Ordering::SeqCst) {
            break;
        }
        let roll = rng.gen_range(0..100);
        let mut k = rng.gen_range(0..p.keys);
        let mut v = rng.gen_range(0..p.vals);
        if big_done && rng.gen_range(0..2) == 0 {
            // work on the large set: remove / re-insert some of its elements
            k = 0;
            if rng.gen_range(0..2) == 0 {
                v = 200 + rng.gen_range(0..6) * 170;
            }
        }
        let w = if p.big && !big_done && p.kind == Kind::Set && rng.gen_range(0..6) == 0 {
            // cross the spill threshold on key 0 (elements 200..): submit what
            // is open, bulk-insert through a batch of its own and commit
            // everything; no read happens while the bulk batch is pending
            big_done = true;
            let mut ok = Wait::Done;
            for b in std::mem::take(&mut open) {
                submitted.insert(b);
                ok = drv.run(1, Cmd::Submit { b }).0;
            }
            let b = next_b;
            next_b += 1;
            let lo = 200;
            let hi = lo + rng.gen_range(1018..1032);
            drv.run(1, Cmd::New { b });
            for e in lo..hi {
                last_epoch.insert((0, e), b);
            }
            drv.run(1, Cmd::InsRange { b, k: 0, lo, hi });
            drv.run(1, Cmd::Submit { b });
            submitted.insert(b);
            while submitted.contains(&next_commit) {
                submitted.remove(&next_commit);
                if !rig.commit_next(next_commit) {
                    break;
                }
                next_commit += 1;
            }
            ok
        } else if roll < 8 && open.len() < 3 {
            let b = next_b;
            next_b += 1;
            open.push(b);
            drv.run(1, Cmd::New { b }).0
        } else if roll < 40 && !open.is_empty() {
            // write through the newest open batch that respects the epoch rule
            let le = last_epoch.get(&wkey(k, v, p.kind)).copied().unwrap_or(0);
            let cands: Vec<u64> = open.iter().copied().filter(|b| *b >= le).collect();
            if cands.is_empty() {
                continue;
            }
            let b = cands[rng.gen_range(0..cands.len())];
            last_epoch.insert(wkey(k, v, p.kind), b);
            if rng.gen_range(0..3) == 0 {
                drv.run(1, Cmd::Rem { b, k, v }).0
            } else {
                drv.run(1, Cmd::Ins { b, k, v }).0
            }
        } else if roll < 50 && !open.is_empty() {
            let i = rng.gen_range(0..open.len());
            let b = open.remove(i);
            submitted.insert(b);
            drv.run(1, Cmd::Submit { b }).0
        } else if roll < 62 && submitted.contains(&next_commit) {
            submitted.remove(&next_commit);
            let ok = rig.commit_next(next_commit);
            next_commit += 1;
            if !ok {
                break;
            }
            Wait::Done
        } else if roll < 70 {
            futures::executor::block_on(rig.flood(rng.gen_range(40..400)));
            Wait::Done
        } else {
            drv.run(1, Cmd::Get { k }).0
        };
        if w != Wait::Done {
            aborted = json!({"why": "operation hangs"});
            break;
        }
    }
    rig.rec(json!({"e": "reset", "id": id, "aborted": aborted}));
    drv.finish()
}

// --------------------------------------------------------- random parallel

struct ParParams {
    kind: Kind,
    cap: u64,
    keys: u32,
    vals: u32,
    writers: usize,
    readers: usize,
    ops: usize,
    chaos_pm: u64,
}

/// Parallel readers and writers on shared keys. Writers serialise per key
/// (a striped lock held for one write) and follow the epoch rule; readers
/// are never blocked by the harness except by the random stall inside the
/// store read. The main thread releases commits and stalled readers at
/// random points.
fn par_one(id: u64, rng: &mut StdRng, p: &ParParams, panics: &Arc<AtomicU64>) -> Vec<Value> {
    let rig = Rig::new(p.kind, p.cap, panics.clone());
    rig.rec(json!({"e": "run", "id": id, "map": p.kind.name(), "cap": p.cap, "mode": "par",
        "T": 1024, "keys": p.keys, "vals": p.vals}));
    rig.chaos_seed.store(rng.r#gen(), Ordering::SeqCst);
    rig.chaos_pm.store(p.chaos_pm, Ordering::SeqCst);
    let key_locks: Arc<Vec<Mutex<HashMap<u32, u64>>>> =
        Arc::new((0..p.keys).map(|_| Mutex::new(HashMap::new())).collect());
    let submitted: Arc<Mutex<BTreeSet<u64>>> = Arc::new(Mutex::new(BTreeSet::new()));
    let stop = Arc::new(AtomicBool::new(false));
    let live = Arc::new(AtomicU64::new((p.writers + p.readers) as u64));
    let mut hs = Vec::new();
    for w in 0..p.writers {
        let (rig, kl, sub, live) = (rig.clone(), key_locks.clone(), submitted.clone(), live.clone());
        let mut r = StdRng::seed_from_u64(rng.r#gen());
        let (keys, vals, ops, kind) = (p.keys, p.vals, p.ops, p.kind);
        let cid = w + 1;
        hs.push(std::thread::spawn(move || {
            CID.with(|c| c.set(cid));
            let res = std::panic::catch_unwind(AssertUnwindSafe(|| {
                futures::executor::block_on(async {
                    let mut done = 0;
                    while done < ops && !rig.dead.load(Ordering::SeqCst) {
                        let (ep, mut wb) = rig.new_batch(cid);
                        let n = r.gen_range(1..5);
                        for _ in 0..n {
                            let k = r.gen_range(0..keys);
                            let v = r.gen_range(0..vals);
                            let sub = if kind == Kind::Set { v } else { 0 };
                            let mut g = kl[k as usize].lock();
                            let le = g.get(&sub).copied().unwrap_or(0);
                            if le > ep {
                                continue;
                            }
                            g.insert(sub, ep);
                            let op = if r.gen_range(0..3) == 0 { "rem" } else { "ins" };
                            rig.rec(json!({"e": "ws", "c": cid, "b": ep, "k": k, "op": op, "v": v}));
                            if op == "ins" {
                                rig.ins(k, v, &mut wb).await;
                            } else {
                                rig.rem(k, v, &mut wb).await;
                            }
                            rig.rec(json!({"e": "we", "c": cid, "b": ep, "k": k, "op": op, "v": v}));
                            drop(g);
                            done += 1;
                        }
                        rig.rec(json!({"e": "sub", "c": cid, "b": ep}));
                        rig.submit(wb);
                        sub.lock().insert(ep);
                        if r.gen_range(0..3) == 0 {
                            std::thread::yield_now();
                        }
                    }
                });
            }));
            if let Err(pn) = res {
                let msg = pn.downcast_ref::<String>().cloned().unwrap_or_default();
                rig.rec(json!({"e": "panic", "c": cid, "msg": msg}));
            }
            live.fetch_sub(1, Ordering::SeqCst);
        }));
    }
    for rd in 0..p.readers {
        let (rig, live, stop) = (rig.clone(), live.clone(), stop.clone());
        let mut r = StdRng::seed_from_u64(rng.r#gen());
        let (keys, ops) = (p.keys, p.ops);
        let cid = p.writers + rd + 1;
        hs.push(std::thread::spawn(move || {
            CID.with(|c| c.set(cid));
            let res = std::panic::catch_unwind(AssertUnwindSafe(|| {
                futures::executor::block_on(async {
                    for _ in 0..ops * 2 {
                        if stop.load(Ordering::SeqCst) || rig.dead.load(Ordering::SeqCst) {
                            break;
                        }
                        let k = r.gen_range(0..keys);
                        DBREADS.with(|c| c.set(0));
                        rig.rec(json!({"e": "gs", "c": cid, "k": k}));
                        REC_GET.with(|c| c.set(true));
                        let res = rig.get(k).await;
                        REC_GET.with(|c| c.set(false));
                        let d = DBREADS.with(Cell::get);
                        rig.rec(json!({"e": "ge", "c": cid, "k": k, "r": res, "db": d}));
                        if r.gen_range(0..4) == 0 {
                            // evict by touching other keys
                            for _ in 0..r.gen_range(1..80) {
                                let f = 1_000_000 + rig.filler.fetch_add(1, Ordering::SeqCst) as u32;
                                let _ = rig.get(f).await;
                            }
                        }
                    }
                });
            }));
            if let Err(pn) = res {
                let msg = pn.downcast_ref::<String>().cloned().unwrap_or_default();
                rig.rec(json!({"e": "panic", "c": cid, "msg": msg}));
            }
            live.fetch_sub(1, Ordering::SeqCst);
        }));
    }
    // the controller: commits and releases stalled readers at random points
    let mut next_commit = 0u64;
    let t0 = Instant::now();
    let mut aborted = Value::Null;
    loop {
        let writers_live = live.load(Ordering::SeqCst);
        let roll = rng.gen_range(0..10);
        if roll < 4 && submitted.lock().contains(&next_commit) {
            submitted.lock().remove(&next_commit);
            if !rig.commit_next(next_commit) {
                break;
            }
            next_commit += 1;
        } else if roll < 7 {
            let mut sh = rig.sh.lock();
            let ps: Vec<usize> = sh.chaos_parked.iter().copied().collect();
            if !ps.is_empty() {
                let c = ps[rng.gen_range(0..ps.len())];
                sh.chaos_release.insert(c);
                rig.cv.notify_all();
            }
        } else if roll < 8 {
            // eviction pressure from the controller (never stalled by the hook)
            futures::executor::block_on(rig.flood(rng.gen_range(20..120)));
        } else {
            std::thread::sleep(Duration::from_micros(rng.gen_range(10..300)));
        }
        if writers_live == 0 {
            break;
        }
        if t0.elapsed() > WATCHDOG {
            aborted = json!({"why": "parallel run exceeds the watchdog"});
            break;
        }
    }
    stop.store(true, Ordering::SeqCst);
    rig.chaos_pm.store(0, Ordering::SeqCst);
    {
        let mut sh = rig.sh.lock();
        let ps: Vec<usize> = sh.chaos_parked.iter().copied().collect();
        for c in ps {
            sh.chaos_release.insert(c);
        }
        rig.cv.notify_all();
    }
    for h in hs {
        let _ = h.join();
    }
    // epilogue: commit everything, then read every key twice (second read
    // after a flood) - these reads are sequential and judged exactly
    if !rig.dead.load(Ordering::SeqCst) {
        loop {
            let has = submitted.lock().contains(&next_commit);
            if !has {
                break;
            }
            submitted.lock().remove(&next_commit);
            if !rig.commit_next(next_commit) {
                break;
            }
            next_commit += 1;
        }
    }
    CID.with(|c| c.set(0));
    if !rig.dead.load(Ordering::SeqCst) {
        futures::executor::block_on(async {
            for round in 0..2 {
                for k in 0..p.keys {
                    DBREADS.with(|c| c.set(0));
                    rig.rec(json!({"e": "gs", "c": 0, "k": k}));
                    REC_GET.with(|c| c.set(true));
                    let res = rig.get(k).await;
                    REC_GET.with(|c| c.set(false));
                    let d = DBREADS.with(Cell::get);
                    rig.rec(json!({"e": "ge", "c": 0, "k": k, "r": res, "db": d}));
                }
                if round == 0 {
                    rig.flood(300).await;
                }
            }
        });
    }
    rig.rec(json!({"e": "reset", "id": id, "aborted": aborted}));
    rig.shutdown();
    rig.drop_wm();
    std::mem::take(&mut *rig.trace.lock())
}

/// commits that were let through the gate and whose after-commit notification never arrived (60 s each):
/// after a few of them the remaining runs are skipped (the check reports the first ones)
static WATCHDOG_DEATHS: std::sync::atomic::AtomicU64 = std::sync::atomic::AtomicU64::new(0);
const MAX_WATCHDOG_DEATHS: u64 = 2;
fn give_up() -> bool { WATCHDOG_DEATHS.load(Ordering::SeqCst) >= MAX_WATCHDOG_DEATHS }

// -------------------------------------------------------------------- main

fn main() {
    let a = util::args();
    let mode = util::arg_str(&a, "mode", "replay").to_string();
    let out = util::arg_str(&a, "out", "/dev/stdout").to_string();
    let seed = util::arg_u64(&a, "seed", 1);
    let runs = util::arg_u64(&a, "runs", 10);
    let panics = util::count_panics(a.contains_key("quiet"));
    let mut f = std::io::BufWriter::new(std::fs::File::create(&out).expect("out"));
    let mut emit = |evs: Vec<Value>| {
        for e in evs {
            writeln!(f, "{e}").expect("write");
        }
    };
    match mode.as_str() {
        "replay" => {
            let inp = util::arg_str(&a, "in", "");
            let text = std::fs::read_to_string(inp).expect("read --in");
            for (i, line) in text.lines().filter(|l| !l.trim().is_empty()).enumerate() {
                if give_up() { break; }
                let beh: Value = serde_json::from_str(line).expect("behaviour json");
                emit(replay_one(i as u64 + 1, &beh, &panics));
            }
        }
        "seq" => {
            let mut rng = StdRng::seed_from_u64(seed);
            for i in 0..runs {
                if give_up() { break; }
                let kind = match util::arg_str(&a, "map", "any") {
                    "any" => [Kind::Single, Kind::Dynamic, Kind::Set][rng.gen_range(0..3)],
                    s => Kind::parse(s),
                };
                let caps = [1u64, 1, 2, 3, 4, 8, 16, 64];
                let p = SeqParams {
                    kind,
                    cap: caps[rng.gen_range(0..caps.len())],
                    keys: rng.gen_range(1..4),
                    vals: rng.gen_range(2..4),
                    steps: util::arg_u64(&a, "steps", 60) as usize,
                    big: a.contains_key("big"),
                };
                emit(seq_one(i + 1, &mut rng, &p, &panics));
            }
        }
        "par" => {
            let mut rng = StdRng::seed_from_u64(seed);
            for i in 0..runs {
                if give_up() { break; }
                let kind = match util::arg_str(&a, "map", "any") {
                    "any" => [Kind::Single, Kind::Dynamic, Kind::Set][rng.gen_range(0..3)],
                    s => Kind::parse(s),
                };
                let caps = [1u64, 1, 2, 4, 8, 16, 32, 64];
                let p = ParParams {
                    kind,
                    cap: caps[rng.gen_range(0..caps.len())],
                    keys: rng.gen_range(1..4),
                    vals: rng.gen_range(2..4),
                    writers: rng.gen_range(1..=util::arg_u64(&a, "maxw", 2) as usize),
                    readers: rng.gen_range(1..=util::arg_u64(&a, "maxr", 2) as usize),
                    ops: util::arg_u64(&a, "ops", 12) as usize,
                    chaos_pm: util::arg_u64(&a, "chaos", 300),
                };
                emit(par_one(i + 1, &mut rng, &p, &panics));
            }
        }
        m => panic!("unknown mode {m}"),
    }
    drop(emit);
    f.flush().expect("flush");
    eprintln!("cache_replay: mode={mode} panics={}", panics.load(Ordering::SeqCst));
}
