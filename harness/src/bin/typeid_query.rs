//! C14 - query identities and their store addresses, recorded from the real
//! engine (`DbBacked<MemKv>`); one invocation = one process = one "run".
//!
//! Phase A (per query, fresh engine + fresh store): the QueryID computed the
//!   way the engine does (`vh::typeid::query_id`), whether the ENGINE knows a
//!   node under that id after executing the query (`Engine::verif_dump`, cfg
//!   qbice_verif) and which store cell holds the query's input (its address:
//!   discriminant = stable type id, key = 128-bit hash), and every store cell
//!   the engine wrote for the query (`slots`).
//! Phase B (one engine, all queries): every query must be answered with ITS
//!   OWN value (values carry type, key and run tag); the store is saved.
//! Phase C (`--store-in`, another process): an engine reopened over the store
//!   saved by another run must answer every query with its own value.
//!
//! `--local 1` adds two DISTINCT query types of the same name that are local
//! to two functions (finding KF_C14_LOCAL_TYPES).

use std::{
    io::Write,
    sync::{
        Arc,
        atomic::{AtomicU64, Ordering},
    },
};

use qbice::{
    Engine,
    engine::{EngineOptions, YieldFrequency},
    serialize::Plugin,
    stable_hash::{Compact128, SeededStableHasherBuilder, Sip128Hasher},
    stable_type_id::StableTypeID,
    storage::storage_engine::db_backed::{Configuration, DbBackedFactory},
};
use serde_json::json;
use vh::{
    eng::{KvCfg, shutdown},
    memkv::{Content, Grouping, MemKvFactory, Op, Store, enc},
    typeid::{AnyQ, Exec, clean, query_cases},
    util::{arg_str, arg_u64, args},
};

async fn engine(store: &Arc<Store>, cases: &[Box<dyn AnyQ>], exec: &Exec, hseed: u64) -> Arc<Engine<KvCfg>> {
    let opts = EngineOptions::builder().yield_frequency(YieldFrequency::Never).build();
    let mut e = Engine::<KvCfg>::new_with_options()
        .serialization_plugin(Plugin::default())
        .storage_engine_factory(
            DbBackedFactory::builder()
                .configuration(Configuration::builder().cache_capacity(64).default_shard_amount(4).build())
                .db_factory(MemKvFactory { store: store.clone() })
                .build(),
        )
        .stable_hasher(SeededStableHasherBuilder::<Sip128Hasher>::new(hseed))
        .options(opts)
        .build()
        .await
        .expect("engine open");
    for c in cases {
        c.register(&mut e, exec);
    }
    Arc::new(e)
}

fn try_dec<T: qbice_serialize::Decode>(plugin: &Plugin, b: &[u8]) -> Result<T, ()> {
    use qbice_serialize::Decoder;
    let mut d = qbice_serialize::PostcardDecoder::new(std::io::Cursor::new(b));
    d.decode::<T>(plugin).map_err(|_| ())
}

fn hex(b: &[u8]) -> String { b.iter().map(|x| format!("{x:02x}")).collect() }

fn slots(c: &Content) -> Vec<String> {
    let mut v: Vec<String> = c
        .wide
        .keys()
        .map(|(col, disc, key)| format!("W{col:032x}.{}.{}", hex(disc), hex(key)))
        .chain(c.sets.keys().map(|(col, key)| format!("S{col:032x}.{}", hex(key))))
        .collect();
    v.sort();
    v
}

/// "tag|type|key" -> (tag, type, key)
fn split_value(v: &str) -> (String, String, String) {
    let mut it = v.splitn(3, '|');
    let tag = it.next().unwrap_or("").to_string();
    let ty = it.next().unwrap_or("").to_string();
    let key = clean(it.next().unwrap_or(""));
    (tag, ty, key)
}

async fn ask(te: &qbice::TrackedEngine<KvCfg>, c: &dyn AnyQ) -> Result<String, String> {
    use futures::FutureExt;
    match std::panic::AssertUnwindSafe(c.query(te)).catch_unwind().await {
        Ok(v) => Ok(v),
        Err(p) => Err(p
            .downcast_ref::<String>()
            .cloned()
            .or_else(|| p.downcast_ref::<&str>().map(|s| s.to_string()))
            .unwrap_or_else(|| "panic".into())),
    }
}

fn main() {
    let a = args();
    let out = arg_str(&a, "out", "/dev/stdout").to_string();
    let run = arg_u64(&a, "run", 1);
    let with_local = arg_u64(&a, "local", 0) == 1;
    // seed of the engine's stable hasher (part of the engine configuration)
    let hseed = arg_u64(&a, "hseed", 0);
    let hs = format!(" #h{hseed}");
    let store_in = a.get("store-in").cloned();
    let store_out = a.get("store-out").cloned();
    let tag = format!("run{run}");
    vh::util::count_panics(true);

    let rt = tokio::runtime::Builder::new_multi_thread().worker_threads(2).enable_all().build().unwrap();
    let cases = query_cases(with_local);
    let plugin = Plugin::default();
    let mut f = std::io::BufWriter::new(std::fs::File::create(&out).expect("out"));
    let runs = Arc::new(AtomicU64::new(0));
    let exec = Exec { tag: tag.clone(), runs: runs.clone() };

    // distinct cases must have distinct names (harness sanity)
    {
        let mut names: Vec<String> = cases.iter().map(|c| format!("{} {}", c.ty(), c.key())).collect();
        names.sort();
        let n = names.len();
        names.dedup();
        assert_eq!(n, names.len(), "vh: two query cases share (type name, key)");
    }

    rt.block_on(async {
        // ---- phase A
        for c in &cases {
            let store = Store::new(Grouping::One);
            let e = engine(&store, std::slice::from_ref(c), &exec, hseed).await;
            let id = c.id(hseed);
            let te = e.clone().tracked().await;
            let val = ask(&te, c.as_ref()).await;
            drop(te);
            let known = e.verif_dump(&id).await.last_verified.is_some();
            shutdown(e).await;
            let content = store.snapshot();
            // the cell holding the query's input: value bytes = the encoded key struct
            let tid = id.stable_type_id().as_u128();
            let hash = id.hash_128();
            let mut etid = String::from("none");
            let mut ehash = String::from("none");
            for ((_col, disc, key), _v) in &content.wide {
                // QueryStoreColumn: discriminant (StableTypeID, Input|Result), key Compact128
                if disc.len() > 2 && key.len() >= 2 {
                    let d = try_dec::<StableTypeID>(&plugin, disc);
                    let k = try_dec::<Compact128>(&plugin, key);
                    if let (Ok(d), Ok(k)) = (d, k) {
                        if enc(&plugin, &k) == *key && disc.starts_with(&enc(&plugin, &d)) && disc.len() == enc(&plugin, &d).len() + 1 {
                            etid = format!("{:032x}", d.as_u128());
                            ehash = format!("{:032x}", k.to_u128());
                        }
                    }
                }
            }
            if !known {
                etid = format!("unknown-to-engine:{etid}");
            }
            writeln!(
                f,
                "{}",
                json!({"k": "query", "run": run, "ty": c.ty(), "key": c.key() + &hs, "hseed": hseed,
                       "tid": format!("{tid:032x}"), "hash": format!("{hash:032x}"),
                       "etid": etid, "ehash": ehash, "slots": slots(&content).join(";"),
                       "nslots": slots(&content).len(),
                       "value": val.clone().unwrap_or_else(|e| format!("PANIC {e}"))})
            )
            .unwrap();
        }

        // ---- phase B: one engine, one store, all queries
        let store = Store::new(Grouping::One);
        let e = engine(&store, &cases, &exec, hseed).await;
        let te = e.clone().tracked().await;
        for c in &cases {
            let v = ask(&te, c.as_ref()).await;
            let (vt, gty, gkey) = match &v {
                Ok(v) => split_value(v),
                Err(p) => ("PANIC".into(), clean(p), String::new()),
            };
            writeln!(
                f,
                "{}",
                json!({"k": "value", "run": run, "phase": "shared", "ty": c.ty(), "key": c.key() + &hs,
                       "got_ty": gty, "got_key": gkey + &hs, "tag": vt, "executed": -1})
            )
            .unwrap();
        }
        drop(te);
        shutdown(e).await;
        if let Some(p) = &store_out {
            let c = store.snapshot();
            let mut ops: Vec<Op> = c.wide.iter().map(|(k, v)| Op::Put { k: k.clone(), v: v.clone() }).collect();
            for (k, es) in &c.sets {
                ops.extend(es.iter().map(|e| Op::Ins { k: k.clone(), e: e.clone() }));
            }
            std::fs::write(p, serde_json::to_vec(&ops).unwrap()).expect("store-out");
        }

        // ---- phase C: reopen the store another process wrote
        if let Some(p) = &store_in {
            let ops: Vec<Op> = serde_json::from_slice(&std::fs::read(p).expect("store-in")).expect("ops");
            let store = Store::new(Grouping::One);
            {
                let mut c = store.content.lock();
                for op in &ops {
                    c.apply(op);
                }
            }
            let before = runs.load(Ordering::SeqCst);
            let e = engine(&store, &cases, &exec, hseed).await;
            let te = e.clone().tracked().await;
            for c in &cases {
                let r0 = runs.load(Ordering::SeqCst);
                let v = ask(&te, c.as_ref()).await;
                let (vt, gty, gkey) = match &v {
                    Ok(v) => split_value(v),
                    Err(p) => ("PANIC".into(), clean(p), String::new()),
                };
                writeln!(
                    f,
                    "{}",
                    json!({"k": "value", "run": run, "phase": "reopen", "ty": c.ty(), "key": c.key() + &hs,
                           "got_ty": gty, "got_key": gkey + &hs, "tag": vt,
                           "executed": runs.load(Ordering::SeqCst) - r0})
                )
                .unwrap();
            }
            drop(te);
            shutdown(e).await;
            let _ = before;
        }
    });
    writeln!(
        f,
        "{}",
        json!({"k": "end", "run": run, "pid": std::process::id(), "n": cases.len(), "what": "query",
               "cwd": std::env::current_dir().map(|p| p.display().to_string()).unwrap_or_default()})
    )
    .unwrap();
    f.flush().unwrap();
}
