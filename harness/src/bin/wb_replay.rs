//! C10 driver: the real `WriteBehind<MemKv>` behind the public storage engine.
//!
//! * `--mode replay --in CASES --out TRACE --res RESULTS` (S->I): every input
//!   line is a behaviour printed by TLC from `specs/WriteBehindGen.tla`
//!   (thread of every create / fill / pass / submit, the group limits the
//!   store chooses, when the gate lets a commit through, when Drop starts).
//!   Real threads execute the calls, synchronised so that creation and
//!   submission order are exactly TLC's; the commit log and content of the
//!   store, snapshotted the instant `drop(write_manager)` returns, are
//!   compared with TLC's `log` and `db`.
//! * `--mode random --seed S --runs N --out TRACE` (I->S): 1..8 submitter
//!   threads x 1..8 serializer workers race freely over overlapping keys,
//!   every grouping mode, commit gate closed / opened at random moments.
//!
//! Both modes write an ndjson trace validated by `specs/WriteBehindTrace.tla`.
//! A panic of the code under test is data: it is appended to `<out>.panic`
//! together with the store's commit log at that instant (the process may be
//! aborted by a second panic right after).

use std::{
    collections::{BTreeMap, HashMap},
    io::Write,
    panic::{AssertUnwindSafe, catch_unwind},
    sync::{
        Arc, Barrier,
        atomic::{AtomicBool, AtomicU32, AtomicU64, Ordering},
        mpsc,
    },
    thread,
    time::{Duration, Instant},
};

use dashmap::DashSet;
use futures::executor::block_on;
use parking_lot::{Mutex, RwLock};
use qbice_serialize::Plugin;
use qbice_stable_type_id::Identifiable;
use qbice_storage::{
    key_of_set_map::KeyOfSetMap,
    kv_database::{
        DiscriminantEncoding, KeyOfSetColumn, KvDatabase, WideColumn, WideColumnValue,
        WriteBatch as KvWriteBatch,
    },
    single_map::SingleMap,
    storage_engine::{
        StorageEngine, StorageEngineFactory,
        db_backed::{Configuration, DbBacked, DbBackedFactory},
    },
    write_manager::write_behind::{WriteBatch, WriteBehind},
};
use rand::{Rng, SeedableRng, rngs::StdRng};
use serde_json::{Value, json};
use vh::{
    memkv::{Content, Grouping, MemKv, MemKvFactory, Op, PhysicalCommit, Store, dec},
    util::{arg_str, arg_u64, args},
};

// ---------------------------------------------------------------------------
// columns
// ---------------------------------------------------------------------------

/// overlapping wide-column cells `w<k>`
#[derive(Debug, Clone, Copy, PartialEq, Eq, PartialOrd, Ord, Hash, Identifiable)]
pub struct CellCol;

impl WideColumn for CellCol {
    type Key = u32;
    type Discriminant = ();

    fn discriminant_encoding() -> DiscriminantEncoding { DiscriminantEncoding::Prefixed }
}

impl WideColumnValue<CellCol> for u64 {
    fn discriminant() {}
}

/// marker `batch id -> creating thread`, written into every batch
#[derive(Debug, Clone, Copy, PartialEq, Eq, PartialOrd, Ord, Hash, Identifiable)]
pub struct MarkCol;

impl WideColumn for MarkCol {
    type Key = u32;
    type Discriminant = ();

    fn discriminant_encoding() -> DiscriminantEncoding { DiscriminantEncoding::Prefixed }
}

impl WideColumnValue<MarkCol> for u32 {
    fn discriminant() {}
}

/// overlapping set members `s<k>_<e>`
#[derive(Debug, Clone, Copy, PartialEq, Eq, PartialOrd, Ord, Hash, Identifiable)]
pub struct SetCol;

impl KeyOfSetColumn for SetCol {
    type Key = u32;
    type Element = u32;
}

type Eng = DbBacked<MemKv>;
type WM = WriteBehind<MemKv>;
type WB = WriteBatch<MemKv>;
type CellMap = <Eng as StorageEngine>::SingleMap<CellCol, u64>;
type MarkMap = <Eng as StorageEngine>::SingleMap<MarkCol, u32>;
type SetMap = <Eng as StorageEngine>::KeyOfSetMap<SetCol, Arc<DashSet<u32>>>;

#[derive(Debug, Clone, Copy, PartialEq, Eq)]
enum Cell {
    W(u32),
    S(u32, u32),
}

impl Cell {
    fn name(self) -> String {
        match self {
            Cell::W(k) => format!("w{k}"),
            Cell::S(k, e) => format!("s{k}_{e}"),
        }
    }
}

// ---------------------------------------------------------------------------
// one run
// ---------------------------------------------------------------------------

struct Env {
    store: Arc<Store>,
    wm: RwLock<Option<WM>>,
    cells: CellMap,
    marks: MarkMap,
    sets: SetMap,
    open: Mutex<HashMap<u32, WB>>,
    clock: AtomicU64,
    create_lock: Mutex<()>,
    next_id: AtomicU32,
    events: Mutex<Vec<(u64, Value)>>,
    header: Value,
    /// lazy marking: the marker is written with the first fill, so a batch
    /// that is never filled is submitted truly empty
    lazy: bool,
    marked: Mutex<std::collections::HashSet<u32>>,
}

impl Env {
    fn new(store: Arc<Store>, sers: usize, header: Value) -> Arc<Self> {
        let eng: Eng = DbBackedFactory::builder()
            .configuration(
                Configuration::builder()
                    .cache_capacity(1 << 16)
                    .serialization_workers(sers)
                    .default_shard_amount(4)
                    .build(),
            )
            .db_factory(MemKvFactory { store: store.clone() })
            .build()
            .open(Plugin::default())
            .expect("open");
        let wm = eng.new_write_manager();
        Arc::new(Self {
            store,
            wm: RwLock::new(Some(wm)),
            cells: eng.new_single_map::<CellCol, u64>(),
            marks: eng.new_single_map::<MarkCol, u32>(),
            sets: eng.new_key_of_set_map::<SetCol, Arc<DashSet<u32>>>(),
            open: Mutex::new(HashMap::new()),
            clock: AtomicU64::new(1),
            create_lock: Mutex::new(()),
            next_id: AtomicU32::new(0),
            events: Mutex::new(Vec::new()),
            lazy: header.get("lazy").and_then(Value::as_bool).unwrap_or(false),
            marked: Mutex::new(std::collections::HashSet::new()),
            header,
        })
    }

    fn tick(&self) -> u64 { self.clock.fetch_add(1, Ordering::SeqCst) }

    fn ev(&self, stamp: u64, v: Value) { self.events.lock().push((stamp, v)); }

    /// `new_write_batch()`; in locked mode creation is serialised by the
    /// harness so the batch id IS the epoch; otherwise the call interval
    /// [cs, ce] is recorded and only the real-time order is known.
    fn create(&self, t: u32, locked: bool) -> u32 {
        let (id, mut b, cs, ce);
        if locked {
            let g = self.create_lock.lock();
            cs = self.tick();
            b = self.wm.read().as_ref().expect("wm").new_write_batch();
            id = self.next_id.fetch_add(1, Ordering::SeqCst);
            ce = self.tick();
            drop(g);
        } else {
            cs = self.tick();
            b = self.wm.read().as_ref().expect("wm").new_write_batch();
            ce = self.tick();
            id = self.next_id.fetch_add(1, Ordering::SeqCst);
        }
        if !self.lazy {
            block_on(self.marks.insert(id, t, &mut b));
        }
        self.open.lock().insert(id, b);
        self.ev(ce, json!({"e":"create","b":id,"t":t,"cs":cs,"ce":ce}));
        id
    }

    /// v >= 0: put / insert member, v < 0: delete / remove member
    fn fill(&self, t: u32, id: u32, cell: Cell, v: i64) {
        let mut b = self.open.lock().remove(&id).expect("fill: batch not open");
        if self.lazy && self.marked.lock().insert(id) {
            block_on(self.marks.insert(id, t, &mut b));
        }
        match (cell, v >= 0) {
            (Cell::W(k), true) => block_on(self.cells.insert(k, v as u64, &mut b)),
            (Cell::W(k), false) => block_on(self.cells.remove(&k, &mut b)),
            (Cell::S(k, e), true) => block_on(self.sets.insert(k, e, &mut b)),
            (Cell::S(k, e), false) => block_on(self.sets.remove(&k, &e, &mut b)),
        }
        let s = self.tick();
        self.open.lock().insert(id, b);
        self.ev(s, json!({"e":"fill","b":id,"t":t,"c":cell.name(),"v": if v >= 0 { v } else { -1 }}));
    }

    fn submit(&self, t: u32, id: u32) {
        let b = self.open.lock().remove(&id).expect("submit: batch not open");
        // stamped BEFORE the call: once the call is made the batch may commit
        let s = self.tick();
        self.ev(s, json!({"e":"submit","b":id,"t":t}));
        self.wm.read().as_ref().expect("wm").submit_write_batch(b);
    }

    /// drop an open batch without submitting it (the code panics by design)
    fn discard(&self, t: u32, id: u32) {
        let b = self.open.lock().remove(&id).expect("discard: batch not open");
        let r = catch_unwind(AssertUnwindSafe(move || drop(b)));
        let s = self.tick();
        self.ev(s, json!({"e":"discard","b":id,"t":t,"panic": r.err().map(|e| panic_msg(&*e)).unwrap_or_default()}));
    }

    fn sorted_events(&self) -> Vec<Value> {
        let mut ev = match self.events.try_lock() {
            Some(g) => g.clone(),
            None => Vec::new(),
        };
        ev.sort_by_key(|x| x.0);
        ev.into_iter().map(|x| x.1).collect()
    }
}

fn panic_msg(e: &(dyn std::any::Any + Send)) -> String {
    if let Some(s) = e.downcast_ref::<&str>() {
        (*s).to_string()
    } else if let Some(s) = e.downcast_ref::<String>() {
        s.clone()
    } else {
        "<non-string panic>".to_string()
    }
}

// ---------------------------------------------------------------------------
// decoding the store's commit log back into cells
// ---------------------------------------------------------------------------

fn decode_op(op: &Op, plugin: &Plugin) -> Value {
    let cell_id = <CellCol as Identifiable>::STABLE_TYPE_ID.as_u128();
    let mark_id = <MarkCol as Identifiable>::STABLE_TYPE_ID.as_u128();
    let set_id = <SetCol as Identifiable>::STABLE_TYPE_ID.as_u128();
    match op {
        Op::Put { k, v } if k.0 == cell_id => {
            json!({"c": Cell::W(dec::<u32>(plugin, &k.2)).name(), "v": dec::<u64>(plugin, v)})
        }
        Op::Del { k } if k.0 == cell_id => {
            json!({"c": Cell::W(dec::<u32>(plugin, &k.2)).name(), "v": -1})
        }
        Op::Put { k, v } if k.0 == mark_id => {
            json!({"m": dec::<u32>(plugin, &k.2), "t": dec::<u32>(plugin, v)})
        }
        Op::Ins { k, e } if k.0 == set_id => {
            json!({"c": Cell::S(dec::<u32>(plugin, &k.1), dec::<u32>(plugin, e)).name(), "v": 1})
        }
        Op::Rem { k, e } if k.0 == set_id => {
            json!({"c": Cell::S(dec::<u32>(plugin, &k.1), dec::<u32>(plugin, e)).name(), "v": -1})
        }
        other => json!({"c": format!("?{other:?}"), "v": 0}),
    }
}

/// one `commit` event per physical commit: the logical groups in
/// consumption order, each with the markers found in it and its cell ops
fn decode_log(log: &[PhysicalCommit]) -> Vec<Value> {
    let plugin = Plugin::default();
    let mut out = Vec::new();
    for (i, pc) in log.iter().enumerate() {
        let mut groups = Vec::new();
        let mut at = 0usize;
        let mut sizes = pc.groups.clone();
        let covered: usize = sizes.iter().sum();
        if covered < pc.ops.len() {
            // ops written directly into the physical batch (never by WriteBehind)
            sizes.push(pc.ops.len() - covered);
        }
        for n in sizes {
            let mut marks = Vec::new();
            let mut ops = Vec::new();
            for op in &pc.ops[at..at + n] {
                let d = decode_op(op, &plugin);
                if d.get("m").is_some() {
                    marks.push(d["m"].clone());
                } else {
                    ops.push(d);
                }
            }
            at += n;
            groups.push(json!({"b": marks, "ops": ops}));
        }
        out.push(json!({"e":"commit","i":i,"groups":groups}));
    }
    out
}

fn decode_content(c: &Content) -> Value {
    let plugin = Plugin::default();
    let cell_id = <CellCol as Identifiable>::STABLE_TYPE_ID.as_u128();
    let mark_id = <MarkCol as Identifiable>::STABLE_TYPE_ID.as_u128();
    let mut cells = Vec::new();
    let mut marks = Vec::new();
    for (k, v) in &c.wide {
        if k.0 == cell_id {
            cells.push(json!({"c": Cell::W(dec::<u32>(&plugin, &k.2)).name(), "v": dec::<u64>(&plugin, v)}));
        } else if k.0 == mark_id {
            marks.push(dec::<u32>(&plugin, &k.2));
        } else {
            cells.push(json!({"c": format!("?{k:?}"), "v": 0}));
        }
    }
    for (k, s) in &c.sets {
        for e in s {
            cells.push(json!({"c": Cell::S(dec::<u32>(&plugin, &k.1), dec::<u32>(&plugin, e)).name(), "v": 1}));
        }
    }
    marks.sort_unstable();
    json!({"e":"final","content":cells,"marks":marks})
}

// ---------------------------------------------------------------------------
// panic hook: record every panic with the store's state at that instant
// ---------------------------------------------------------------------------

static CURRENT: Mutex<Option<Arc<Env>>> = Mutex::new(None);
static PANIC_FILE: Mutex<Option<std::fs::File>> = Mutex::new(None);
static PANICS: AtomicU64 = AtomicU64::new(0);

fn install_hook() {
    std::panic::set_hook(Box::new(|info| {
        PANICS.fetch_add(1, Ordering::SeqCst);
        let th = thread::current().name().unwrap_or("?").to_string();
        let msg = info.payload().downcast_ref::<&str>().map(|s| (*s).to_string())
            .or_else(|| info.payload().downcast_ref::<String>().cloned())
            .unwrap_or_default();
        let loc = info.location().map(|l| format!("{}:{}", l.file(), l.line())).unwrap_or_default();
        let mut rec = json!({"thread": th, "msg": msg, "loc": loc});
        if let Some(g) = CURRENT.try_lock() {
            if let Some(env) = g.as_ref() {
                rec["header"] = env.header.clone();
                rec["events"] = Value::Array(env.sorted_events());
                if let (Some(l), Some(c)) = (env.store.log.try_lock(), env.store.content.try_lock()) {
                    rec["commits"] = Value::Array(decode_log(&l));
                    rec["final"] = decode_content(&c);
                }
            }
        }
        if let Some(mut g) = PANIC_FILE.try_lock() {
            if let Some(f) = g.as_mut() {
                let _ = writeln!(f, "{rec}");
                let _ = f.flush();
            }
        }
    }));
}

// ---------------------------------------------------------------------------
// shutdown with the DropDrains oracle
// ---------------------------------------------------------------------------

struct DropOutcome {
    panic: Option<String>,
    log: Vec<PhysicalCommit>,
    content: Content,
    ds: u64,
    de: u64,
}

/// Runs `drop(write_manager)` in its own thread; the store is snapshotted the
/// instant it returns.
fn spawn_drop(env: &Arc<Env>, done: &Arc<AtomicBool>) -> thread::JoinHandle<DropOutcome> {
    let env = env.clone();
    let done = done.clone();
    thread::Builder::new()
        .name("vh_drop".into())
        .spawn(move || {
            let wm = env.wm.write().take().expect("wm");
            let ds = env.tick();
            let r = catch_unwind(AssertUnwindSafe(move || drop(wm)));
            // one atomic snapshot (MemKv::commit takes content, then log)
            let (log, content) = {
                let c = env.store.content.lock();
                let l = env.store.log.lock();
                (l.clone(), c.clone())
            };
            let de = env.tick();
            done.store(true, Ordering::SeqCst);
            DropOutcome { panic: r.err().map(|e| panic_msg(&*e)), log, content, ds, de }
        })
        .unwrap()
}

const WATCHDOG: Duration = Duration::from_secs(60);

/// Wait until the committer is blocked at the gate or Drop returned.
/// Returns (drop_done, timed_out).
fn wait_gate_or_done(env: &Env, done: &AtomicBool) -> (bool, bool) {
    let t0 = Instant::now();
    loop {
        if done.load(Ordering::SeqCst) {
            return (true, false);
        }
        if env.store.commits_waiting.load(Ordering::SeqCst) > 0 {
            // a commit is blocked: Drop cannot have returned in a correct
            // implementation; sample the flag once more AFTER seeing the
            // blocked commit
            return (done.load(Ordering::SeqCst), false);
        }
        if t0.elapsed() > WATCHDOG {
            return (false, true);
        }
        thread::sleep(Duration::from_micros(50));
    }
}

fn finish_run(
    env: &Arc<Env>,
    out: &mut impl Write,
    outcome: Option<DropOutcome>,
    extra: Vec<Value>,
    early_return: bool,
    hang: bool,
    blocked: u32,
) {
    writeln!(out, "{}", env.header).unwrap();
    for e in env.sorted_events() {
        writeln!(out, "{e}").unwrap();
    }
    for e in extra {
        writeln!(out, "{e}").unwrap();
    }
    match outcome {
        Some(o) => {
            writeln!(out, "{}", json!({"e":"drop","ds":o.ds,"de":o.de,"panic":o.panic.clone().unwrap_or_default(),
                "early": early_return, "blocked": blocked})).unwrap();
            for c in decode_log(&o.log) {
                writeln!(out, "{c}").unwrap();
            }
            writeln!(out, "{}", decode_content(&o.content)).unwrap();
        }
        None => {
            writeln!(out, "{}", json!({"e":"hang","what": if hang {"drop did not return within the watchdog"} else {"no drop"}})).unwrap();
            for c in decode_log(&env.store.log_snapshot()) {
                writeln!(out, "{c}").unwrap();
            }
            writeln!(out, "{}", decode_content(&env.store.snapshot())).unwrap();
        }
    }
    writeln!(out, "{}", json!({"e":"end"})).unwrap();
    out.flush().unwrap();
}

/// leftover open batches are still `active`: dropping them panics by design,
/// so they are leaked
fn leak_open(env: &Env) {
    let mut g = env.open.lock();
    for (_, b) in g.drain() {
        std::mem::forget(b);
    }
}

// ---------------------------------------------------------------------------
// S->I: replay of TLC behaviours
// ---------------------------------------------------------------------------

/// Measured on the real MemKv: the limits `Grouping::Seeded(seed, n)` hands
/// to the first `len` physical batches.
fn limits_of_seed(seed: u64, n: usize, len: usize) -> Vec<usize> {
    let store = Store::new(Grouping::Seeded(seed, n));
    let db = MemKv::new(store, Plugin::default());
    (0..len)
        .map(|_| {
            let mut wb = db.write_batch();
            let mut k = 0;
            loop {
                wb.consume_serialization_buffer(db.serialization_buffer());
                k += 1;
                if !wb.should_write_more() || k > n + 1 {
                    break k;
                }
            }
        })
        .collect()
}

static SEEDS: Mutex<BTreeMap<(Vec<usize>, usize), Option<u64>>> = Mutex::new(BTreeMap::new());

fn find_seed(limits: &[usize], n: usize) -> Option<u64> {
    let key = (limits.to_vec(), n);
    if let Some(s) = SEEDS.lock().get(&key) {
        return *s;
    }
    let s = (0..2_000_000u64).find(|s| limits_of_seed(*s, n, limits.len()) == limits);
    SEEDS.lock().insert(key, s);
    s
}

enum Cmd {
    Create { id: u32 },
    Fill { id: u32, cell: Cell, v: i64 },
    Submit { id: u32 },
    Discard { id: u32 },
    Quit,
}

fn replay_case(case: &Value, idx: usize, out: &mut impl Write, res: &mut impl Write) {
    let nthreads = case["threads"].as_u64().unwrap_or(2) as u32;
    let sers = case["sers"].as_u64().unwrap_or(2) as usize;
    let maxgroup = case["maxgroup"].as_u64().unwrap_or(2) as usize;
    let gated = case["gated"].as_bool().unwrap_or(false);
    let limits: Vec<usize> = case["limits"].as_array().map(|a| a.iter().map(|x| x.as_u64().unwrap() as usize).collect()).unwrap_or_default();
    let grouping = if limits.is_empty() {
        Grouping::One
    } else {
        match find_seed(&limits, maxgroup) {
            Some(s) => Grouping::Seeded(s, maxgroup),
            None => {
                writeln!(res, "{}", json!({"case": idx, "harness_error": "no seed reproduces the limits"})).unwrap();
                return;
            }
        }
    };
    let store = Store::new(grouping);
    if gated {
        store.gate_close();
    }
    let header = json!({"e":"run","run":idx,"origin":case.get("origin").cloned().unwrap_or(json!("gen")),
        "threads":nthreads,"sers":sers,"grouping":format!("{grouping:?}"),"mode":"locked","gated":gated,
        "lazy": case["lazy"].as_bool().unwrap_or(false)});
    let env = Env::new(store.clone(), sers, header);
    *CURRENT.lock() = Some(env.clone());

    // worker threads 1..=nthreads execute exactly the calls TLC assigned to them
    let (ack_tx, ack_rx) = mpsc::channel::<()>();
    let mut txs = Vec::new();
    let mut handles = Vec::new();
    for t in 1..=nthreads {
        let (tx, rx) = mpsc::channel::<Cmd>();
        txs.push(tx);
        let env = env.clone();
        let ack = ack_tx.clone();
        handles.push(thread::Builder::new().name(format!("vh_sub_{t}")).spawn(move || {
            while let Ok(c) = rx.recv() {
                match c {
                    Cmd::Create { id } => {
                        let got = env.create(t, true);
                        assert_eq!(got, id, "harness: creation index differs from TLC's epoch");
                    }
                    Cmd::Fill { id, cell, v } => env.fill(t, id, cell, v),
                    Cmd::Submit { id } => env.submit(t, id),
                    Cmd::Discard { id } => env.discard(t, id),
                    Cmd::Quit => break,
                }
                ack.send(()).unwrap();
            }
        }).unwrap());
    }

    let done = Arc::new(AtomicBool::new(false));
    let mut drop_handle = None;
    let mut early = false;
    let mut hang = false;
    let mut blocked = 0u32;
    let extra = Vec::new();
    for a in case["actions"].as_array().unwrap() {
        let t = a.get("t").and_then(Value::as_u64).unwrap_or(1) as usize;
        let id = a.get("b").and_then(Value::as_u64).unwrap_or(0) as u32;
        let send = |c: Cmd| {
            txs[t - 1].send(c).unwrap();
            ack_rx.recv_timeout(WATCHDOG).expect("harness: worker did not ack");
        };
        match a["a"].as_str().unwrap() {
            "create" => send(Cmd::Create { id }),
            "fill" => {
                let k = a["k"].as_u64().unwrap() as u32;
                let put = a["o"].as_str().unwrap() == "put";
                // one model key = one wide cell and one set member
                send(Cmd::Fill { id, cell: Cell::W(k), v: if put { id as i64 } else { -1 } });
                send(Cmd::Fill { id, cell: Cell::S(k, 1), v: if put { 1 } else { -1 } });
            }
            "pass" => {}
            "submit" => send(Cmd::Submit { id }),
            "discard" => send(Cmd::Discard { id }),
            "sleep" => thread::sleep(Duration::from_millis(a["ms"].as_u64().unwrap_or(20))),
            "snapshot" => {
                // mid-run observation (gap scenarios): what is durable now
                let l = store.log_snapshot();
                let bs: Vec<Value> = decode_log(&l).iter().flat_map(|c| c["groups"].as_array().unwrap().iter()
                    .flat_map(|g| g["b"].as_array().unwrap().clone()).collect::<Vec<_>>()).collect();
                env.ev(env.tick(), json!({"e":"midsnap","durable":bs}));
            }
            "allow" => {
                if drop_handle.is_some() {
                    let (d, to) = wait_gate_or_done(&env, &done);
                    if to {
                        hang = true;
                        break;
                    }
                    if d && store.commits_waiting.load(Ordering::SeqCst) > 0 {
                        early = true;
                    }
                    if !d {
                        blocked += 1;
                    }
                }
                store.gate_allow(1);
            }
            "drop" => {
                drop_handle = Some(spawn_drop(&env, &done));
            }
            other => panic!("harness: unknown action {other}"),
        }
    }
    for tx in &txs {
        let _ = tx.send(Cmd::Quit);
    }
    for h in handles {
        let _ = h.join();
    }
    // TLC's behaviour ends with Drop returned, so every needed allowance was
    // given; more are needed only if the code groups differently (drift)
    let mut outcome = None;
    let mut extra_allows = 0u32;
    if let Some(h) = drop_handle {
        let t0 = Instant::now();
        while !h.is_finished() && !hang {
            if gated {
                let (d, to) = wait_gate_or_done(&env, &done);
                if to {
                    hang = true;
                } else if !d {
                    extra_allows += 1;
                    blocked += 1;
                    store.gate_allow(1);
                }
            }
            if t0.elapsed() > WATCHDOG {
                hang = true;
            }
            thread::sleep(Duration::from_micros(100));
        }
        if hang {
            // let the pipeline go so the process can terminate
            store.gate_open();
        }
        outcome = h.join().ok();
    }
    leak_open(&env);
    // expectation of the specification
    let mut result = json!({"case": idx, "hang": hang, "early_return": early, "extra_allows": extra_allows});
    if let Some(o) = &outcome {
        let got_log: Vec<Vec<u64>> = decode_log(&o.log).iter().map(|c| {
            c["groups"].as_array().unwrap().iter()
                .flat_map(|g| g["b"].as_array().unwrap().iter().map(|x| x.as_u64().unwrap()).collect::<Vec<_>>())
                .collect()
        }).collect();
        result["got_log"] = json!(got_log);
        let fc = decode_content(&o.content);
        let mut got_db: BTreeMap<String, i64> = BTreeMap::new();
        for c in fc["content"].as_array().unwrap() {
            got_db.insert(c["c"].as_str().unwrap().to_string(), c["v"].as_i64().unwrap());
        }
        result["got_db"] = json!(got_db);
        result["drop_panic"] = json!(o.panic);
        if let Some(exp) = case.get("expect") {
            let mut want_log: Vec<Vec<u64>> = serde_json::from_value(exp["log"].clone()).unwrap_or_default();
            if env.lazy {
                // never-filled batches carry no marker: invisible in the commit log
                let filled: std::collections::HashSet<u64> = case["actions"].as_array().unwrap().iter()
                    .filter(|a| a["a"] == "fill").map(|a| a["b"].as_u64().unwrap()).collect();
                for g in &mut want_log {
                    g.retain(|b| filled.contains(b));
                }
                want_log.retain(|g| !g.is_empty());
            }
            let mut want_db: BTreeMap<String, i64> = BTreeMap::new();
            for kv in exp["db"].as_array().unwrap() {
                let k = kv["k"].as_u64().unwrap() as u32;
                let v = kv["v"].as_i64().unwrap();
                if v >= 0 {
                    want_db.insert(Cell::W(k).name(), v);
                    want_db.insert(Cell::S(k, 1).name(), 1);
                }
            }
            let flat = |l: &Vec<Vec<u64>>| l.iter().flatten().copied().collect::<Vec<_>>();
            result["want_log"] = json!(want_log);
            result["want_db"] = json!(want_db);
            // P-layer: order and content; M-layer: exact grouping
            result["order_ok"] = json!(flat(&got_log) == flat(&want_log));
            result["db_ok"] = json!(got_db == want_db);
            result["grouping_ok"] = json!(got_log == want_log);
        }
    }
    writeln!(res, "{result}").unwrap();
    res.flush().unwrap();
    finish_run(&env, out, outcome, extra, early, hang, blocked);
    *CURRENT.lock() = None;
}

// ---------------------------------------------------------------------------
// I->S: free-running random runs
// ---------------------------------------------------------------------------

struct Plan {
    threads: u32,
    sers: usize,
    grouping: Grouping,
    locked: bool,
    batches_per_thread: Vec<usize>,
    wide_keys: u32,
    set_keys: u32,
    gate_mode: u32,
}

fn random_run(seed: u64, idx: usize, out: &mut impl Write, small: bool) {
    let mut rng = StdRng::seed_from_u64(seed);
    let threads = rng.gen_range(1..=8u32);
    let sers = rng.gen_range(1..=8usize);
    let grouping = match rng.gen_range(0..6) {
        0 => Grouping::One,
        1 => Grouping::UpTo(rng.gen_range(2..=4)),
        2 => Grouping::All,
        3 => Grouping::UpTo(rng.gen_range(5..=9)),
        _ => Grouping::Seeded(rng.r#gen(), rng.gen_range(2..=5)),
    };
    let total: usize = if small { rng.gen_range(2..=8) } else { rng.gen_range(4..=28) };
    let mut per = vec![0usize; threads as usize];
    for _ in 0..total {
        per[rng.gen_range(0..threads as usize)] += 1;
    }
    let plan = Plan {
        threads,
        sers,
        grouping,
        locked: rng.gen_bool(0.6),
        batches_per_thread: per,
        wide_keys: rng.gen_range(1..=3),
        set_keys: rng.gen_range(1..=2),
        gate_mode: rng.gen_range(0..4),
    };
    let lazy = rng.gen_bool(0.5);
    let store = Store::new(plan.grouping);
    // gate modes: 0 open all the time; 1 closed from the start, opened while
    // the submitters run; 2 closed from the start, still closed when Drop
    // starts; 3 closed mid-run, released commit by commit
    if plan.gate_mode == 1 || plan.gate_mode == 2 {
        store.gate_close();
    }
    let header = json!({"e":"run","run":idx,"origin":"random","seed":seed.to_string(),"threads":plan.threads,"sers":plan.sers,
        "grouping":format!("{:?}", plan.grouping),"mode": if plan.locked {"locked"} else {"racing"},
        "gate_mode":plan.gate_mode,"gated": plan.gate_mode != 0, "lazy": lazy});
    let env = Env::new(store.clone(), plan.sers, header);
    *CURRENT.lock() = Some(env.clone());

    let inbox: Arc<Vec<Mutex<Vec<u32>>>> = Arc::new((0..plan.threads).map(|_| Mutex::new(Vec::new())).collect());
    let barrier = Arc::new(Barrier::new(plan.threads as usize));
    let running = Arc::new(AtomicU32::new(plan.threads));
    let mut handles = Vec::new();
    for t in 1..=plan.threads {
        let env = env.clone();
        let inbox = inbox.clone();
        let barrier = barrier.clone();
        let running = running.clone();
        let n = plan.batches_per_thread[(t - 1) as usize];
        let (wk, sk, nt, locked) = (plan.wide_keys, plan.set_keys, plan.threads, plan.locked);
        let tseed = seed.wrapping_mul(0x9E37_79B9).wrapping_add(u64::from(t));
        handles.push(thread::Builder::new().name(format!("vh_sub_{t}")).spawn(move || {
            let mut rng = StdRng::seed_from_u64(tseed);
            let mut mine: Vec<u32> = Vec::new();
            let mut opn = 0i64;
            let mut created = 0usize;
            let pause = |rng: &mut StdRng| match rng.gen_range(0..6) {
                0 => thread::yield_now(),
                1 => thread::sleep(Duration::from_micros(rng.gen_range(1..200))),
                _ => {}
            };
            let fill_some = |rng: &mut StdRng, id: u32, opn: &mut i64| {
                for _ in 0..rng.gen_range(0..4) {
                    let cell = if rng.gen_bool(0.6) {
                        Cell::W(rng.gen_range(0..wk))
                    } else {
                        Cell::S(rng.gen_range(0..sk), rng.gen_range(0..2))
                    };
                    *opn += 1;
                    let v = if rng.gen_bool(0.7) { i64::from(id) * 1000 + *opn } else { -1 };
                    let v = if matches!(cell, Cell::S(..)) && v >= 0 { 1 } else { v };
                    env.fill(t, id, cell, v);
                }
            };
            while created < n || !mine.is_empty() {
                // adopt batches other threads handed over
                mine.append(&mut inbox[(t - 1) as usize].lock());
                let can_create = created < n;
                let choice = rng.gen_range(0..10);
                if can_create && (mine.is_empty() || choice < 4) {
                    let id = env.create(t, locked);
                    created += 1;
                    mine.push(id);
                } else if !mine.is_empty() {
                    let i = rng.gen_range(0..mine.len());
                    let id = mine[i];
                    match choice {
                        4 | 5 => fill_some(&mut rng, id, &mut opn),
                        6 if nt > 1 && created < n => {
                            // hand the batch to another thread (only while we
                            // are certain to reach the barrier after it)
                            mine.swap_remove(i);
                            let mut u = rng.gen_range(1..=nt);
                            if u == t {
                                u = u % nt + 1;
                            }
                            inbox[(u - 1) as usize].lock().push(id);
                        }
                        _ => {
                            fill_some(&mut rng, id, &mut opn);
                            mine.swap_remove(i);
                            env.submit(t, id);
                        }
                    }
                }
                pause(&mut rng);
            }
            // no hand-overs after the barrier: drain what was received
            barrier.wait();
            let rest: Vec<u32> = std::mem::take(&mut *inbox[(t - 1) as usize].lock());
            for id in rest {
                fill_some(&mut rng, id, &mut opn);
                env.submit(t, id);
            }
            running.fetch_sub(1, Ordering::SeqCst);
        }).unwrap());
    }
    // the gate controller (this thread)
    let mut grng = StdRng::seed_from_u64(seed ^ 0xABCD);
    match plan.gate_mode {
        1 => {
            thread::sleep(Duration::from_micros(grng.gen_range(0..3000)));
            store.gate_open();
        }
        3 => {
            thread::sleep(Duration::from_micros(grng.gen_range(0..1500)));
            store.gate_close();
            while running.load(Ordering::SeqCst) > 0 {
                thread::sleep(Duration::from_micros(grng.gen_range(10..400)));
                store.gate_allow(grng.gen_range(0..3));
            }
        }
        _ => {}
    }
    for h in handles {
        h.join().expect("harness: submitter thread panicked");
    }
    assert!(env.open.lock().is_empty(), "harness: batches left open");
    // shutdown; with a closed gate Drop must not return before it opens
    let done = Arc::new(AtomicBool::new(false));
    let h = spawn_drop(&env, &done);
    let mut early = false;
    let mut hang = false;
    let mut blocked = 0u32;
    if plan.gate_mode == 2 || plan.gate_mode == 3 {
        loop {
            let (d, to) = wait_gate_or_done(&env, &done);
            if to {
                hang = true;
                break;
            }
            if d {
                if store.commits_waiting.load(Ordering::SeqCst) > 0 {
                    early = true;
                }
                break;
            }
            // the committer is blocked and Drop has not returned: release
            blocked += 1;
            if grng.gen_bool(0.5) {
                store.gate_allow(1);
            } else {
                thread::sleep(Duration::from_micros(grng.gen_range(0..500)));
                store.gate_open();
            }
        }
    }
    let t0 = Instant::now();
    while !h.is_finished() && !hang {
        if t0.elapsed() > WATCHDOG {
            hang = true;
        }
        thread::sleep(Duration::from_micros(100));
    }
    if hang {
        store.gate_open();
    }
    let outcome = h.join().ok();
    finish_run(&env, out, outcome, Vec::new(), early, hang, blocked);
    *CURRENT.lock() = None;
}

fn main() {
    let a = args();
    let mode = arg_str(&a, "mode", "random").to_string();
    let out_path = arg_str(&a, "out", "/dev/stdout").to_string();
    let seed = arg_u64(&a, "seed", 1);
    let runs = arg_u64(&a, "runs", 50) as usize;
    install_hook();
    *PANIC_FILE.lock() = Some(std::fs::File::create(format!("{out_path}.panic")).expect("panic file"));
    let mut out = std::io::BufWriter::new(std::fs::File::create(&out_path).expect("out"));
    match mode.as_str() {
        "random" => {
            let small = arg_u64(&a, "small", 0) == 1;
            let runseed = arg_u64(&a, "runseed", 0);
            for i in 0..runs {
                // --runseed re-executes exactly one recorded run (replay files)
                let s = if runseed != 0 { runseed } else { seed.wrapping_mul(1_000_003).wrapping_add(i as u64) };
                random_run(s, i, &mut out, small);
            }
        }
        "replay" => {
            let inp = arg_str(&a, "in", "").to_string();
            let res_path = arg_str(&a, "res", "/dev/null").to_string();
            let mut res = std::io::BufWriter::new(std::fs::File::create(&res_path).expect("res"));
            let text = std::fs::read_to_string(&inp).expect("cases");
            for (i, line) in text.lines().filter(|l| !l.trim().is_empty()).enumerate() {
                let case: Value = serde_json::from_str(line).expect("case json");
                replay_case(&case, i, &mut out, &mut res);
            }
        }
        "limits" => {
            // debugging aid: the limits a seed produces
            println!("{:?}", limits_of_seed(seed, arg_u64(&a, "n", 2) as usize, 6));
        }
        other => panic!("unknown mode {other}"),
    }
    out.flush().unwrap();
    println!("{}", json!({"panics": PANICS.load(Ordering::SeqCst)}));
}
