//! Persistence driver (C07 clean restart, C08 crash cuts) over
//! `DbBacked<MemKv>`.
//!
//! Commit timing is driven by the harness so that a history has one outcome:
//! * regime `hold`: the commit gate stays closed while the engine works and is
//!   opened only for shutdown (everything becomes durable at once, in order);
//! * regime `settle`: after every action the gate is opened until the
//!   write-behind pipeline is idle (all after-commit notifications done), so
//!   cache entries are unpinned and evictable between actions.

use std::sync::{Arc, atomic::Ordering};

use rand::{Rng, SeedableRng, rngs::StdRng};
use vh::{
    dsl::{ABSENT, Ctx, Event, GenCfg, Kind, Program, gen_program, write_ndjson},
    eng::{Action, Driver, KvCfg, kv_engine, query_node, shutdown},
    hist::gen_history,
    memkv::{Grouping, Store},
    util::{arg_str, arg_u64, args},
};

fn settle(store: &Store) {
    use qbice_storage::verif::{AFTER_COMMIT_DONE, SUBMITTED};
    store.gate_open();
    let t0 = std::time::Instant::now();
    loop {
        if AFTER_COMMIT_DONE.load(Ordering::SeqCst) >= SUBMITTED.load(Ordering::SeqCst) {
            break;
        }
        std::thread::sleep(std::time::Duration::from_micros(50));
        assert!(t0.elapsed().as_secs() < 120, "vh: write-behind pipeline did not become idle");
    }
    store.gate_close();
}

#[derive(serde::Deserialize, serde::Serialize)]
struct Case {
    prog: Program,
    actions: Vec<Action>,
    cap: u64,
    grouping: u8,
    regime: String,
    crash: bool,
    cutseed: u64,
}

fn grouping_of(g: u8, seed: u64) -> Grouping {
    match g {
        0 => Grouping::One,
        1 => Grouping::UpTo(3),
        2 => Grouping::All,
        _ => Grouping::Seeded(seed, 4),
    }
}

async fn run_case(ctx: Arc<Ctx>, c: &Case) {
    let settle_mode = c.regime == "settle";
    let grouping = if settle_mode { Grouping::One } else { grouping_of(c.grouping, c.cutseed) };
    let store = Store::new(grouping);
    store.gate_close();
    let engine = kv_engine(&ctx, &store, c.cap, None).await;
    let mut d = Driver::<KvCfg>::new(ctx.clone(), engine);
    for a in &c.actions {
        if matches!(a, Action::Restart) {
            if d.session.is_some() {
                continue;
            }
            d.drop_handles();
            let e = d.engine.take().unwrap();
            store.gate_open();
            shutdown(e).await;
            store.gate_close();
            ctx.rec.push(Event::Restart);
            d.engine = Some(kv_engine(&ctx, &store, c.cap, None).await);
            continue;
        }
        d.step(a).await;
        if settle_mode && d.session.is_none() {
            settle(&store);
        }
    }
    d.drop_handles();
    let e = d.engine.take().unwrap();
    store.gate_open();
    shutdown(e).await;

    if !c.crash {
        return;
    }
    let log = store.log_snapshot();
    let n = log.len();
    let mut cuts: Vec<usize> = (0..=n).collect();
    if cuts.len() > 24 {
        let mut r = StdRng::seed_from_u64(c.cutseed);
        let mut pick = vec![0, n, n - 1, 1];
        while pick.len() < 24 {
            let k = r.gen_range(0..=n);
            if !pick.contains(&k) {
                pick.push(k);
            }
        }
        pick.sort_unstable();
        cuts = pick;
    }
    let prog = ctx.prog.clone();
    for cut in cuts {
        ctx.rec.push(Event::Crash { cut, of: n });
        let store2 = Store::from_prefix(&log, cut, Grouping::One);
        let ctx2 = ctx.clone();
        let prog2 = prog.clone();
        let cap = c.cap;
        // the order in which the reopened engine is interrogated varies with the cut: bottom-up
        // repairs everything on the way, top-down asks the consumers first (a lost dirty mark
        // above a repaired node only shows when the consumer is asked before the node below it)
        let mut order: Vec<usize> = (0..prog2.n()).collect();
        match (cut as u64 + c.cutseed) % 3 {
            0 => {}
            1 => order.reverse(),
            _ => {
                use rand::seq::SliceRandom;
                order.shuffle(&mut StdRng::seed_from_u64(c.cutseed ^ cut as u64));
            }
        }
        let h = tokio::spawn(async move {
            let engine = kv_engine(&ctx2, &store2, cap, None).await;
            {
                let te = engine.clone().tracked().await;
                // what inputs does the reopened engine show?
                ctx2.rec.quiet.store(true, Ordering::SeqCst);
                let mut seen = Vec::new();
                for i in prog2.inputs() {
                    seen.push((i + 1, query_node(&ctx2, &te, i).await));
                }
                ctx2.rec.quiet.store(false, Ordering::SeqCst);
                ctx2.rec.push(Event::Recovered { inputs: seen.clone() });
                ctx2.rec.push(Event::Tracked { t: 0 });
                if seen.iter().all(|(_, v)| *v != ABSENT) {
                    for &i in &order {
                        let v = query_node(&ctx2, &te, i).await;
                        ctx2.rec.push(Event::Query { t: 0, n: i + 1, v });
                    }
                }
                ctx2.rec.push(Event::Drop { t: 0 });
            }
            // life goes on: one more session, then every node again
            let mut d = Driver::<KvCfg>::new(ctx2.clone(), engine);
            d.step(&Action::Begin).await;
            for (k, i) in prog2.inputs().into_iter().enumerate() {
                d.step(&Action::Set { n: i + 1, v: (k as i64 + cut as i64) % prog2.m }).await;
            }
            d.step(&Action::Commit).await;
            for &i in order.iter().rev() {
                d.step(&Action::Query { t: 0, n: i + 1 }).await;
            }
            d.drop_handles();
            let e = d.engine.take().unwrap();
            shutdown(e).await;
        });
        if let Err(e) = h.await {
            ctx.rec.quiet.store(false, Ordering::SeqCst);
            ctx.rec.push(Event::CrashPanic { cut, msg: format!("{e}") });
        }
    }
}

fn main() {
    let a = args();
    let seed = arg_u64(&a, "seed", 1);
    let runs = arg_u64(&a, "runs", 20);
    let steps = arg_u64(&a, "steps", 40) as usize;
    let out = arg_str(&a, "out", "/dev/stdout").to_string();
    let mode = arg_str(&a, "mode", "random").to_string();
    let regime = arg_str(&a, "regime", "hold").to_string();
    let crash = arg_u64(&a, "crash", 0) == 1;
    let nofw = arg_u64(&a, "nofw", 0);
    let n_min = arg_u64(&a, "nmin", 5) as usize;
    let n_max = arg_u64(&a, "nmax", 12) as usize;
    let cap_arg = arg_u64(&a, "cap", 0);
    let sweep_regime = arg_u64(&a, "sweep", 0) == 1;
    vh::util::count_panics(true);

    let rt = tokio::runtime::Builder::new_current_thread().enable_all().build().unwrap();

    let mut cases: Vec<Case> = Vec::new();
    if mode == "replay" {
        let f = std::fs::read_to_string(arg_str(&a, "in", "")).expect("read --in");
        for line in f.lines().filter(|l| !l.trim().is_empty()) {
            cases.push(serde_json::from_str(line).expect("case"));
        }
    } else {
        for i in 0..runs {
            let s = seed.wrapping_mul(1_000_003).wrapping_add(i);
            let prog = gen_program(
                s,
                GenCfg { n_min, n_max, m: 3, externals: !crash, cyclic: false, groups: true, fw: nofw == 0 },
            );
            let mut r = StdRng::seed_from_u64(s ^ 0xABCD_EF01);
            // sweep regime: a witness per firewall is queried first after every commit, so the
            // call sites of the known findings are never reached (see hist.rs)
            let (prog, actions) = if sweep_regime {
                let mut prog = prog;
                let ws = vh::hist::add_witnesses(&mut prog);
                let acts = vh::hist::sweep(gen_history(&mut r, &prog, steps, !crash), &ws);
                (prog, acts)
            } else {
                let acts = gen_history(&mut r, &prog, steps, !crash);
                (prog, acts)
            };
            let cap = if cap_arg > 0 { cap_arg } else { [1u64, 2, 8, 64][(s % 4) as usize] };
            cases.push(Case {
                prog,
                actions,
                cap,
                grouping: (s / 4 % 4) as u8,
                regime: regime.clone(),
                crash,
                cutseed: s,
            });
        }
    }
    if let Some(path) = a.get("cases") {
        use std::io::Write;
        let mut f = std::io::BufWriter::new(std::fs::File::create(path).expect("cases file"));
        for c in &cases {
            serde_json::to_writer(&mut f, c).unwrap();
            f.write_all(b"\n").unwrap();
        }
    }

    let mut all: Vec<Event> = Vec::new();
    for c in &cases {
        let ctx = Ctx::new(c.prog.clone());
        for i in 0..c.prog.n() {
            if c.prog.kind(i) == Kind::Ex {
                ctx.world[i].store(0, Ordering::SeqCst);
            }
        }
        ctx.rec.push(Event::Prog {
            prog: c.prog.clone(),
            cfg: format!("kv cap={} regime={} grouping={}", c.cap, c.regime, c.grouping),
        });
        let ctx2 = ctx.clone();
        rt.block_on(async { run_case(ctx2, c).await });
        all.extend(ctx.rec.take());
        all.push(Event::Reset);
    }
    write_ndjson(std::path::Path::new(&out), &all).expect("write trace");
    eprintln!("eng_persist: wrote {} events to {}", all.len(), out);
}
