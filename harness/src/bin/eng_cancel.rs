//! C05 driver: cancellation at every suspension point, and executor panics.
//!
//! A case = program + prefix history + one fault:
//!   * `cancel n k`: the user query of node n is polled k times, then dropped
//!     (the engine is built with YieldFrequency::EveryNQuery(0), so every
//!     nested query is a suspension point, in addition to the JoinSet joins
//!     of firewall repair / unordered checks / backward projection and the
//!     dirty-propagation wait);
//!   * `cancel_commit k`: a session's commit() future is polled k times, then
//!     dropped;
//!   * `panic n`: the executor of node n panics when it next runs.
//! After the fault the engine must be fully usable: the driver queries every
//! node, runs one more session that flips every input, queries every node
//! again and shuts down (over DbBacked<MemKv>: the store must drain).
//! Single-threaded runtime: a case has one outcome.

use std::{
    sync::{Arc, atomic::Ordering},
    task::Poll,
    time::Duration,
};

use futures::FutureExt;
use rand::{Rng, SeedableRng, rngs::StdRng};
use vh::{
    dsl::{Ctx, Event, GenCfg, Program, gen_program, write_ndjson},
    eng::{Action, Driver, KvCfg, MemCfg, kv_engine, mem_engine, query_node, shutdown},
    memkv::{Grouping, Store},
    util::{arg_str, arg_u64, args},
};

#[derive(serde::Deserialize, serde::Serialize, Clone, Debug)]
#[serde(tag = "f")]
enum Fault {
    #[serde(rename = "cancel")]
    Cancel { n: usize, k: usize },
    #[serde(rename = "cancel_commit")]
    CancelCommit { k: usize, sets: Vec<(usize, i64)> },
    #[serde(rename = "panic")]
    Panic { n: usize, root: usize },
    /// change the outside world, call refresh(), drop it after k polls, then
    /// commit the session explicitly
    #[serde(rename = "cancel_refresh")]
    CancelRefresh { k: usize, world: Vec<(usize, i64)> },
}

#[derive(serde::Deserialize, serde::Serialize, Clone)]
struct Case {
    prog: Program,
    actions: Vec<Action>,
    fault: Fault,
    cfg: String,
}

async fn settle() {
    // let detached (guarded) publication tasks and spawned commits finish
    for _ in 0..200 {
        tokio::task::yield_now().await;
    }
    tokio::time::sleep(Duration::from_millis(1)).await;
    for _ in 0..50 {
        tokio::task::yield_now().await;
    }
}

/// Returns the number of polls the operation needed if it completed.
async fn run_fault<C: qbice::config::Config>(d: &mut Driver<C>, fault: &Fault) -> Option<usize> {
    let ctx = d.ctx.clone();
    match fault {
        Fault::Cancel { n, k } => {
            d.drop_tracked();
            let te = d.engine().clone().tracked().await;
            ctx.rec.push(Event::Tracked { t: 1 });
            let mut done_after = None;
            {
                let mut fut = Box::pin(query_node(&ctx, &te, n - 1));
                for i in 0..=*k {
                    if i == *k {
                        break;
                    }
                    match futures::poll!(fut.as_mut()) {
                        Poll::Ready(v) => {
                            ctx.rec.push(Event::Query { t: 1, n: *n, v });
                            done_after = Some(i + 1);
                            break;
                        }
                        Poll::Pending => tokio::task::yield_now().await,
                    }
                }
                if done_after.is_none() {
                    ctx.rec.push(Event::Cancel { n: *n, polls: *k });
                }
                drop(fut);
            }
            ctx.rec.push(Event::Drop { t: 1 });
            drop(te);
            done_after
        }
        Fault::CancelCommit { k, sets } => {
            d.drop_tracked();
            let mut s = d.engine().input_session().await;
            ctx.rec.push(Event::Begin);
            for (n, v) in sets {
                let r = vh::eng::set_node(&ctx, &mut s, n - 1, *v).await;
                ctx.rec.push(Event::Set { n: *n, v: *v, r: format!("{r:?}") });
            }
            // the commit takes effect even if the caller goes away (it is
            // guarded); log it before, as for a dropped session
            ctx.rec.push(Event::Commit);
            let mut fut = Box::pin(s.commit());
            let mut done_after = None;
            for i in 0..*k {
                match futures::poll!(fut.as_mut()) {
                    Poll::Ready(()) => {
                        done_after = Some(i + 1);
                        break;
                    }
                    Poll::Pending => tokio::task::yield_now().await,
                }
            }
            if done_after.is_none() {
                ctx.rec.push(Event::Cancel { n: 0, polls: *k });
            }
            drop(fut);
            done_after
        }
        Fault::CancelRefresh { k, world } => {
            d.drop_tracked();
            let mut s = d.engine().input_session().await;
            ctx.rec.push(Event::Begin);
            for (n, v) in world {
                ctx.world[n - 1].store(*v, Ordering::SeqCst);
                ctx.rec.push(Event::World { n: *n, v: *v });
            }
            // external executors take a few polls, so that refresh() is
            // suspended at its join while they are still running
            ctx.exec_yields.store(3, Ordering::SeqCst);
            ctx.rec.push(Event::RefreshStart);
            let mut done_after = None;
            {
                let mut fut = Box::pin(s.refresh::<vh::dsl::Ex>());
                for i in 0..*k {
                    match futures::poll!(fut.as_mut()) {
                        Poll::Ready(()) => {
                            done_after = Some(i + 1);
                            break;
                        }
                        Poll::Pending => tokio::task::yield_now().await,
                    }
                }
                if done_after.is_none() {
                    ctx.rec.push(Event::Cancel { n: 0, polls: *k });
                }
                drop(fut);
            }
            // the explicit commit follows at once (the detached remainder of
            // refresh may still be running)
            s.commit().await;
            ctx.exec_yields.store(0, Ordering::SeqCst);
            // logged after the call: every external executor run of the
            // refresh is in the log before it
            ctx.rec.push(Event::Commit);
            done_after
        }
        Fault::Panic { n, root } => {
            ctx.panic_node.store(*n as i64 - 1, Ordering::SeqCst);
            ctx.rec.push(Event::Arm { n: *n });
            d.step(&Action::Query { t: 0, n: *root }).await;
            ctx.panic_node.store(-1, Ordering::SeqCst);
            ctx.rec.push(Event::Disarm);
            Some(0)
        }
    }
}

async fn continuation<C: qbice::config::Config>(d: &mut Driver<C>, round: i64) {
    let prog = d.ctx.prog.clone();
    for i in 0..prog.n() {
        d.step(&Action::Query { t: 0, n: i + 1 }).await;
    }
    d.step(&Action::Begin).await;
    for (k, i) in prog.inputs().into_iter().enumerate() {
        d.step(&Action::Set { n: i + 1, v: (k as i64 + round) % prog.m }).await;
    }
    d.step(&Action::Commit).await;
    for i in 0..prog.n() {
        d.step(&Action::Query { t: 0, n: i + 1 }).await;
    }
}

async fn run_case(ctx: Arc<Ctx>, c: &Case) -> Option<usize> {
    let wd = Duration::from_secs(60);
    if c.cfg == "kv" {
        let store = Store::new(Grouping::One);
        let engine = kv_engine(&ctx, &store, 64, Some(0)).await;
        let mut d = Driver::<KvCfg>::new(ctx.clone(), engine);
        let body = async {
            for a in &c.actions {
                if !matches!(a, Action::Restart) {
                    d.step(a).await;
                }
            }
            let r = run_fault(&mut d, &c.fault).await;
            settle().await;
            continuation(&mut d, 1).await;
            r
        };
        let r = match tokio::time::timeout(wd, body).await {
            Ok(r) => r,
            Err(_) => {
                ctx.rec.push(Event::Hang { at: 0 });
                return None;
            }
        };
        d.drop_handles();
        let e = d.engine.take().unwrap();
        if tokio::time::timeout(wd, shutdown(e)).await.is_err() {
            ctx.rec.push(Event::Hang { at: 1 });
        }
        r
    } else {
        let engine = mem_engine(&ctx, Some(0)).await;
        let mut d = Driver::<MemCfg>::new(ctx.clone(), engine);
        let body = async {
            for a in &c.actions {
                if !matches!(a, Action::Restart) {
                    d.step(a).await;
                }
            }
            let r = run_fault(&mut d, &c.fault).await;
            settle().await;
            continuation(&mut d, 1).await;
            r
        };
        let r = match tokio::time::timeout(wd, body).await {
            Ok(r) => r,
            Err(_) => {
                ctx.rec.push(Event::Hang { at: 0 });
                return None;
            }
        };
        d.drop_handles();
        let e = d.engine.take().unwrap();
        if tokio::time::timeout(wd, shutdown(e)).await.is_err() {
            ctx.rec.push(Event::Hang { at: 1 });
        }
        r
    }
}

fn main() {
    let a = args();
    let seed = arg_u64(&a, "seed", 1);
    let progs = arg_u64(&a, "progs", 6);
    let out = arg_str(&a, "out", "/dev/stdout").to_string();
    let mode = arg_str(&a, "mode", "enumerate").to_string();
    let cfg = arg_str(&a, "cfg", "mem").to_string();
    let nofw = arg_u64(&a, "nofw", 0);
    let maxk = arg_u64(&a, "maxk", 200) as usize;
    let panics = vh::util::count_panics(arg_u64(&a, "loud", 0) == 0);
    let rt = tokio::runtime::Builder::new_current_thread().enable_all().build().unwrap();

    let mut all: Vec<Event> = Vec::new();
    let mut cases_out: Vec<Case> = Vec::new();
    let mut run = |c: &Case, all: &mut Vec<Event>| -> Option<usize> {
        let ctx = Ctx::new(c.prog.clone());
        ctx.rec.push(Event::Prog { prog: c.prog.clone(), cfg: format!("{} cancel {:?}", c.cfg, c.fault) });
        let ctx2 = ctx.clone();
        let r = match std::panic::catch_unwind(std::panic::AssertUnwindSafe(|| {
            rt.block_on(async { run_case(ctx2, c).await })
        })) {
            Ok(r) => r,
            Err(_) => {
                // a panic outside an injected executor panic escaped to the driver
                ctx.rec.quiet.store(false, Ordering::SeqCst);
                ctx.rec.push(Event::CrashPanic { cut: 0, msg: "panic escaped to the harness".into() });
                None
            }
        };
        all.extend(ctx.rec.take());
        all.push(Event::Reset);
        r
    };

    if mode == "replay" {
        let f = std::fs::read_to_string(arg_str(&a, "in", "")).expect("read --in");
        for line in f.lines().filter(|l| !l.trim().is_empty()) {
            let c: Case = serde_json::from_str(line).expect("case");
            run(&c, &mut all);
            cases_out.push(c);
        }
    } else {
        for pi in 0..progs {
            let s = seed.wrapping_mul(1_000_003).wrapping_add(pi);
            let mut r = StdRng::seed_from_u64(s);
            let prog = gen_program(
                s,
                GenCfg { n_min: 5, n_max: 10, m: 3, externals: arg_u64(&a, "ext", 0) == 1, cyclic: false, groups: true, fw: nofw == 0 },
            );
            // prefix: initial session, a few queries, a second session that changes inputs
            let mut pre = vec![Action::Begin];
            for i in prog.inputs() {
                pre.push(Action::Set { n: i + 1, v: r.gen_range(0..prog.m) });
            }
            pre.push(Action::Commit);
            for _ in 0..r.gen_range(0..4) {
                pre.push(Action::Query { t: 0, n: r.gen_range(0..prog.n()) + 1 });
            }
            if r.gen_bool(0.7) {
                pre.push(Action::Begin);
                for i in prog.inputs() {
                    if r.gen_bool(0.7) {
                        pre.push(Action::Set { n: i + 1, v: r.gen_range(0..prog.m) });
                    }
                }
                pre.push(Action::Commit);
            }
            let execs = prog.executables();
            // cancel every target at every k
            let targets: Vec<usize> = {
                let mut t = execs.clone();
                t.reverse();
                t.truncate(3);
                t
            };
            for n in targets {
                let mut k = 0;
                loop {
                    let c = Case {
                        prog: prog.clone(),
                        actions: pre.clone(),
                        fault: Fault::Cancel { n: n + 1, k },
                        cfg: cfg.clone(),
                    };
                    let done = run(&c, &mut all);
                    cases_out.push(c);
                    if done.is_some() || k >= maxk {
                        break;
                    }
                    k += 1;
                }
            }
            // cancel commit
            let mut k = 0;
            loop {
                let sets: Vec<(usize, i64)> =
                    prog.inputs().iter().map(|i| (i + 1, (k as i64 + 1) % prog.m)).collect();
                let c = Case {
                    prog: prog.clone(),
                    actions: pre.clone(),
                    fault: Fault::CancelCommit { k, sets },
                    cfg: cfg.clone(),
                };
                let done = run(&c, &mut all);
                cases_out.push(c);
                if done.is_some() || k >= maxk {
                    break;
                }
                k += 1;
            }
            // cancel refresh (only meaningful with external inputs that were sampled)
            if !prog.externals().is_empty() {
                let mut k = 0;
                loop {
                    let world: Vec<(usize, i64)> =
                        prog.externals().iter().map(|e| (e + 1, (k as i64 + 1) % prog.m)).collect();
                    let mut pre2 = pre.clone();
                    for i in 0..prog.n() {
                        pre2.push(Action::Query { t: 0, n: i + 1 });
                    }
                    let c = Case {
                        prog: prog.clone(),
                        actions: pre2,
                        fault: Fault::CancelRefresh { k, world },
                        cfg: cfg.clone(),
                    };
                    let done = run(&c, &mut all);
                    cases_out.push(c);
                    if done.is_some() || k >= maxk {
                        break;
                    }
                    k += 1;
                }
            }
            // every executor as the panicking one, queried through the last node
            for n in &execs {
                let c = Case {
                    prog: prog.clone(),
                    actions: pre.clone(),
                    fault: Fault::Panic { n: n + 1, root: *execs.last().unwrap() + 1 },
                    cfg: cfg.clone(),
                };
                run(&c, &mut all);
                cases_out.push(c);
            }
        }
    }
    if let Some(path) = a.get("cases") {
        use std::io::Write;
        let mut f = std::io::BufWriter::new(std::fs::File::create(path).expect("cases file"));
        for c in &cases_out {
            serde_json::to_writer(&mut f, c).unwrap();
            f.write_all(b"\n").unwrap();
        }
    }
    write_ndjson(std::path::Path::new(&out), &all).expect("write trace");
    eprintln!(
        "eng_cancel: {} cases, {} events, panics seen: {}",
        cases_out.len(),
        all.len(),
        panics.load(Ordering::SeqCst)
    );
    let _ = FutureExt::boxed(async {});
}
