//! C02 driver: concurrent querying on a multi-threaded runtime.
//!
//! Each run: a program, then `phases` epochs; in each epoch `tasks` tokio
//! tasks (each with its own tracked engine) query random nodes concurrently
//! while executors sleep a little between reads (wide overlap windows);
//! between epochs an input session changes inputs.  Finally the epilogue
//! flips every input in turn and queries every node sequentially: a
//! dependency edge lost during the concurrent phase shows up there as a
//! stale value.  Every request runs under a watchdog (hang = no progress).
//!
//! Programs: `normal` (random, Normal nodes only: no known finding applies),
//! `fanin` (one callee with K callers, K = 40 or 1100: crosses the 32-element
//! and 1024-element container thresholds), `mixed` (with firewalls; only
//! single-flight and progress are judged there, see checks/c02.py).

use std::{
    sync::{Arc, atomic::Ordering},
    time::Duration,
};

use rand::{Rng, SeedableRng, rngs::StdRng};
use vh::{
    dsl::{Ctx, Event, GenCfg, Item, Kind, Node, Program, gen_program, write_ndjson},
    eng::{KvCfg, MemCfg, kv_engine, mem_engine, query_node, set_node, shutdown},
    memkv::{Grouping, Store},
    util::{arg_str, arg_u64, args},
};

fn watchdog_secs() -> u64 {
    std::env::var("VH_WATCHDOG").ok().and_then(|v| v.parse().ok()).unwrap_or(90)
}

fn fanin_program(k: usize) -> Program {
    // 1: input A; 2: callee C = A + 1; 3..k+2: callers reading C; last: top reading 3 callers
    let mut nodes = vec![
        Node { kind: Kind::In, init: 0, code: vec![], post: 0, panic_if: -1 },
        Node {
            kind: Kind::Nm,
            init: 1,
            code: vec![Item { g: 0, gc: 0, mode: 0, deps: vec![1], w: 1, c: 0 }],
            post: 0,
            panic_if: -1,
        },
    ];
    for i in 0..k {
        nodes.push(Node {
            kind: Kind::Nm,
            init: (i % 3) as i64,
            code: vec![Item { g: 0, gc: 0, mode: 0, deps: vec![2], w: 1, c: (i % 2) as i64 }],
            post: 0,
            panic_if: -1,
        });
    }
    Program { m: 5, nodes }
}

async fn session<C: qbice::config::Config>(
    ctx: &Arc<Ctx>,
    engine: &Arc<qbice::Engine<C>>,
    sets: &[(usize, i64)],
) {
    let mut s = engine.input_session().await;
    ctx.rec.push(Event::Begin);
    for (n, v) in sets {
        let r = set_node(ctx, &mut s, *n, *v).await;
        ctx.rec.push(Event::Set { n: n + 1, v: *v, r: format!("{r:?}") });
    }
    ctx.rec.push(Event::Commit);
    s.commit().await;
}

async fn run_on<C: qbice::config::Config>(
    ctx: Arc<Ctx>,
    engine: Arc<qbice::Engine<C>>,
    r: &mut StdRng,
    phases: usize,
    tasks: usize,
    per_task: usize,
    roots: Option<Vec<usize>>,
) -> bool {
    let prog = ctx.prog.clone();
    let n = prog.n();
    let inputs = prog.inputs();
    let init: Vec<(usize, i64)> = inputs.iter().map(|i| (*i, r.gen_range(0..prog.m))).collect();
    session(&ctx, &engine, &init).await;
    let mut cur: Vec<i64> = vec![0; n];
    for (i, v) in &init {
        cur[*i] = *v;
    }
    let dbg = std::env::var("VH_TRACE").is_ok();
    for ph in 0..phases {
        if dbg {
            eprintln!("phase {ph} start");
        }
        let mut hs = Vec::new();
        for t in 0..tasks {
            let (ctx, engine) = (ctx.clone(), engine.clone());
            let slot = t % 16;
            let targets: Vec<usize> = match &roots {
                Some(v) => {
                    // every task takes an interleaved share of the roots
                    v.iter().copied().skip(t).step_by(tasks).collect()
                }
                None => (0..per_task).map(|_| r.gen_range(0..n)).collect(),
            };
            hs.push(tokio::spawn(async move {
                let te = engine.clone().tracked().await;
                // slots are reused by tasks of one phase only one after another:
                // tasks of a phase share their snapshot anyway (no session in between)
                ctx.rec.push(Event::Tracked { t: slot });
                for x in targets {
                    let v = query_node(&ctx, &te, x).await;
                    ctx.rec.push(Event::Query { t: slot, n: x + 1, v });
                }
                drop(te);
            }));
        }
        for h in hs {
            match tokio::time::timeout(Duration::from_secs(watchdog_secs()), h).await {
                Ok(Ok(())) => {}
                Ok(Err(e)) => {
                    ctx.rec.push(Event::QueryPanic { t: 0, n: 0 });
                    eprintln!("task failed: {e}");
                }
                Err(_) => {
                    ctx.rec.push(Event::Hang { at: ph });
                    return false;
                }
            }
        }
        for t in 0..tasks.min(16) {
            ctx.rec.push(Event::Drop { t });
        }
        if dbg {
            eprintln!("phase {ph} joined");
        }
        // next epoch
        let mut sets = Vec::new();
        for i in &inputs {
            if r.gen_bool(0.6) {
                let v = r.gen_range(0..prog.m);
                sets.push((*i, v));
                cur[*i] = v;
            }
        }
        session(&ctx, &engine, &sets).await;
    }
    // epilogue: flip each input in turn, then read everything sequentially
    ctx.exec_sleep_us.store(0, Ordering::SeqCst);
    if dbg {
        eprintln!("epilogue");
    }
    for i in &inputs {
        let v = (cur[*i] + 1) % prog.m;
        cur[*i] = v;
        session(&ctx, &engine, &[(*i, v)]).await;
        let te = engine.clone().tracked().await;
        ctx.rec.push(Event::Tracked { t: 0 });
        for x in 0..n {
            if dbg {
                eprintln!("epilogue query {x}");
            }
            let v = query_node(&ctx, &te, x).await;
            ctx.rec.push(Event::Query { t: 0, n: x + 1, v });
        }
        ctx.rec.push(Event::Drop { t: 0 });
        drop(te);
    }
    true
}

fn main() {
    let a = args();
    let seed = arg_u64(&a, "seed", 1);
    let runs = arg_u64(&a, "runs", 10);
    let kind = arg_str(&a, "kind", "normal").to_string();
    let out = arg_str(&a, "out", "/dev/stdout").to_string();
    let workers = arg_u64(&a, "workers", 8) as usize;
    let tasks = arg_u64(&a, "tasks", 12) as usize;
    let phases = arg_u64(&a, "phases", 3) as usize;
    let per_task = arg_u64(&a, "pertask", 6) as usize;
    let fan = arg_u64(&a, "fan", 40) as usize;
    let storage = arg_str(&a, "cfg", "mem").to_string();
    let sleep_us = arg_u64(&a, "sleepus", 200);
    vh::util::count_panics(false);

    let mut all: Vec<Event> = Vec::new();
    for i in 0..runs {
        let s = seed.wrapping_mul(1_000_003).wrapping_add(i);
        let mut r = StdRng::seed_from_u64(s);
        if std::env::var("VH_TRACE").is_ok() {
            eprintln!("=== run {i}");
        }
        let from_file: Option<Vec<Program>> = a.get("progs").map(|f| {
            std::fs::read_to_string(f)
                .expect("read --progs")
                .lines()
                .filter(|l| !l.trim().is_empty())
                .map(|l| {
                    #[derive(serde::Deserialize)]
                    struct P {
                        prog: Program,
                    }
                    serde_json::from_str::<P>(l).expect("prog line").prog
                })
                .collect()
        });
        let (prog, roots) = match kind.as_str() {
            "file" => {
                let ps = from_file.as_ref().expect("--progs");
                (ps[(i as usize) % ps.len()].clone(), None)
            }
            "fanin" => {
                let p = fanin_program(fan);
                let roots: Vec<usize> = (2..p.n()).collect();
                (p, Some(roots))
            }
            "mixed" => (
                gen_program(s, GenCfg { n_min: 8, n_max: 16, m: 3, externals: false, cyclic: false, groups: true, fw: true }),
                None,
            ),
            _ => (
                gen_program(s, GenCfg { n_min: 8, n_max: 18, m: 3, externals: false, cyclic: false, groups: true, fw: false }),
                None,
            ),
        };
        let ctx = Ctx::new(prog.clone());
        ctx.exec_sleep_us.store(if kind == "fanin" { 0 } else { sleep_us }, Ordering::SeqCst);
        ctx.rec.push(Event::Prog { prog: prog.clone(), cfg: format!("{storage} conc {kind} workers={workers} tasks={tasks}") });
        let rt = tokio::runtime::Builder::new_multi_thread()
            .worker_threads(workers)
            .enable_all()
            .build()
            .unwrap();
        let ctx2 = ctx.clone();
        let storage2 = storage.clone();
        rt.block_on(async move {
            if storage2 == "kv" {
                let store = Store::new(Grouping::One);
                let engine = kv_engine(&ctx2, &store, 1 << 16, None).await;
                let fine = run_on::<KvCfg>(ctx2.clone(), engine.clone(), &mut r, phases, tasks, per_task, roots).await;
                if fine {
                    shutdown(engine).await;
                } else {
                    std::mem::forget(engine);
                }
            } else {
                let engine = mem_engine(&ctx2, None).await;
                let fine = run_on::<MemCfg>(ctx2.clone(), engine.clone(), &mut r, phases, tasks, per_task, roots).await;
                if fine {
                    shutdown(engine).await;
                } else {
                    std::mem::forget(engine);
                }
            }
        });
        rt.shutdown_timeout(Duration::from_secs(2));
        all.extend(ctx.rec.take());
        all.push(Event::Reset);
    }
    write_ndjson(std::path::Path::new(&out), &all).expect("write trace");
    eprintln!("eng_conc: wrote {} events to {}", all.len(), out);
}
