//! C08, real-process crash leg: the engine runs over `DbBacked<RocksDB>` /
//! `DbBacked<Fjall>` in a child process that is killed with SIGKILL; another
//! process reopens the store and is interrogated.  The parent merges what the
//! processes logged into ONE ndjson trace in the event vocabulary of
//! `eng_persist` (judged by specs/EngineObsTrace.tla, unchanged).
//!
//! Roles (one binary):
//! * `--role child  --dir D --backend rocksdb|fjall --plan P [--events F] [--progress F]`
//!   executes the sessions / queries of plan file P.  After every `commit()`
//!   it appends the DSL events of that session to `D/../events.ndjson`
//!   (chunk terminated by an `act` marker line, fsync) and the line
//!   `committed <idx>` to `D/../progress` (fsync).  At the end: `closing`,
//!   normal engine shutdown, `done`.
//! * `--role reopen --dir D --backend B --plan P --events F` opens the store,
//!   reads back every input (`recovered`), queries every node, runs one more
//!   session that changes every input, queries every node again.  Events are
//!   flushed step by step, so whatever was observed before an abort is kept.
//! * `--role parent --work R --out T --meta M --backend B --strategy a|b|c
//!   --seed S ...` warm-up child (clean shutdown) -> heavy child, killed ->
//!   reopen child -> trace T and the statistics of the run M.
//!
//! Program: K blob-valued inputs `BlobIn(k)` (a string of `blob` equal bytes,
//! DSL value = that byte), `Head(k)` = value of `BlobIn(k)` mod m, `Sum` = sum
//! of all heads mod m.  As a DSL program: nodes 1..K `In`, K+1..2K `Nm` with
//! the single item {deps:[k], w:1, c:0}, 2K+1 `Nm` with one item per head.

use std::{
    collections::BTreeSet,
    io::Write,
    panic::AssertUnwindSafe,
    path::{Path, PathBuf},
    sync::{Arc, atomic::Ordering},
    time::{Duration, Instant},
};

use futures::FutureExt;
use parking_lot::Mutex;
use qbice::{
    Decode, Encode, Engine, Identifiable, StableHash, TrackedEngine,
    config::Config,
    executor::Executor,
    query::Query,
    stable_hash::{SeededStableHasherBuilder, Sip128Hasher},
    storage::{
        kv_database::{fjall::Fjall, rocksdb::RocksDB},
        storage_engine::db_backed::{Configuration, DbBackedFactory},
    },
};
use rand::{Rng, SeedableRng, rngs::StdRng};
use serde::{Deserialize, Serialize};
use vh::{
    dsl::{ABSENT, Ctx, Event, Item, Kind, Node, Program, write_ndjson},
    eng::{FjallCfg, RocksCfg, build_engine, shutdown},
    util::{arg_str, arg_u64, args},
};

/// DSL value of a blob that is neither absent nor one of ours (torn value)
const CORRUPT: i64 = -7;

// ---------------------------------------------------------------------------
// query types and executors
// ---------------------------------------------------------------------------

macro_rules! key_type {
    ($name:ident, $val:ty) => {
        #[derive(
            Debug,
            Clone,
            Copy,
            PartialEq,
            Eq,
            PartialOrd,
            Ord,
            Hash,
            StableHash,
            Encode,
            Decode,
            Identifiable,
        )]
        pub struct $name(pub u16);

        impl Query for $name {
            type Value = $val;
        }
    };
}

// the blob is a string (bulk encoding / hashing in the serializer): `blob`
// copies of one byte < 128
key_type!(BlobIn, String);
key_type!(Head, i64);
key_type!(Sum, i64);

#[derive(Debug)]
struct Sh {
    ctx: Arc<Ctx>,
    k: usize,
    blob: usize,
}

fn value_of(s: &str, blob: usize) -> i64 {
    let b = s.as_bytes();
    if b.is_empty() {
        ABSENT
    } else if b.len() == blob && b.iter().all(|x| *x == b[0]) {
        i64::from(b[0])
    } else {
        CORRUPT
    }
}

fn blob_of(v: i64, blob: usize) -> String {
    assert!((0..128).contains(&v));
    String::from_utf8(vec![v as u8; blob]).expect("ascii")
}

/// never-set input: the probe's placeholder (the empty blob = ABSENT), a
/// Normal query without reads, like `dsl::InExec`
#[derive(Debug, Clone)]
struct BlobInExec;

impl<C: Config> Executor<BlobIn, C> for BlobInExec {
    async fn execute(&self, _q: &BlobIn, _e: &TrackedEngine<C>) -> String { String::new() }
}

struct RunGuard<'a> {
    sh: &'a Sh,
    n: usize,
    x: u64,
    reads: Mutex<Vec<(usize, i64)>>,
    done: bool,
}

impl Drop for RunGuard<'_> {
    fn drop(&mut self) {
        if !self.done {
            let reads = std::mem::take(&mut *self.reads.lock());
            self.sh.ctx.rec.push(Event::Exec { n: self.n + 1, x: self.x, reads, out: -1, ok: false });
        }
    }
}

/// same logging convention as `dsl::run_node`: enter, one `read` per
/// dependency the moment the value is handed over, exec with the read list
async fn run_logged<C: Config>(sh: &Sh, engine: &TrackedEngine<C>, n: usize) -> i64 {
    let ctx = &sh.ctx;
    let x = ctx.rec.exec_seq.fetch_add(1, Ordering::SeqCst);
    ctx.rec.push(Event::Enter { n: n + 1, x });
    let mut guard = RunGuard { sh, n, x, reads: Mutex::new(Vec::new()), done: false };
    let node = &ctx.prog.nodes[n];
    let mut acc = node.init;
    for it in &node.code {
        for (i, d) in it.deps.iter().enumerate() {
            let d0 = d - 1;
            let v = if d0 < sh.k {
                let s = engine.query(&BlobIn(d0 as u16)).await;
                value_of(&s, sh.blob)
            } else {
                engine.query(&Head((d0 - sh.k) as u16)).await
            };
            ctx.rec.push(Event::Read { n: n + 1, x, d: *d, v });
            guard.reads.lock().push((*d, v));
            acc = ctx.prog.step(it, i, acc, v);
        }
    }
    let out = Program::post(node, acc);
    guard.done = true;
    let reads = std::mem::take(&mut *guard.reads.lock());
    ctx.rec.push(Event::Exec { n: n + 1, x, reads, out, ok: true });
    out
}

#[derive(Debug, Clone)]
struct HeadExec(Arc<Sh>);

impl<C: Config> Executor<Head, C> for HeadExec {
    async fn execute(&self, q: &Head, e: &TrackedEngine<C>) -> i64 {
        run_logged(&self.0, e, self.0.k + q.0 as usize).await
    }
}

#[derive(Debug, Clone)]
struct SumExec(Arc<Sh>);

impl<C: Config> Executor<Sum, C> for SumExec {
    async fn execute(&self, _q: &Sum, e: &TrackedEngine<C>) -> i64 { run_logged(&self.0, e, 2 * self.0.k).await }
}

fn blob_program(k: usize, m: i64) -> Program {
    let mut nodes = Vec::new();
    for _ in 0..k {
        nodes.push(Node { kind: Kind::In, init: 0, code: vec![], post: 0, panic_if: -1 });
    }
    for i in 0..k {
        nodes.push(Node {
            kind: Kind::Nm,
            init: 0,
            code: vec![Item { g: 0, gc: 0, mode: 0, deps: vec![i + 1], w: 1, c: 0 }],
            post: 0,
            panic_if: -1,
        });
    }
    nodes.push(Node {
        kind: Kind::Nm,
        init: 0,
        code: (0..k).map(|i| Item { g: 0, gc: 0, mode: 0, deps: vec![k + i + 1], w: 1, c: 0 }).collect(),
        post: 0,
        panic_if: -1,
    });
    Program { m, nodes }
}

async fn query_node<C: Config>(sh: &Sh, te: &TrackedEngine<C>, n: usize) -> i64 {
    if n < sh.k {
        value_of(&te.query(&BlobIn(n as u16)).await, sh.blob)
    } else if n < 2 * sh.k {
        te.query(&Head((n - sh.k) as u16)).await
    } else {
        te.query(&Sum(0)).await
    }
}

// ---------------------------------------------------------------------------
// plan
// ---------------------------------------------------------------------------

#[derive(Debug, Clone, Serialize, Deserialize)]
struct Sess {
    /// global index of the session (warm-up sessions first)
    idx: usize,
    /// (1-based input node, value)
    sets: Vec<(usize, i64)>,
    /// 1-based nodes queried after the commit
    queries: Vec<usize>,
}

#[derive(Debug, Clone, Serialize, Deserialize)]
struct Plan {
    k: usize,
    blob: usize,
    m: i64,
    cap: u64,
    sessions: Vec<Sess>,
}

// ---------------------------------------------------------------------------
// files
// ---------------------------------------------------------------------------

struct Appender {
    f: std::fs::File,
}

impl Appender {
    fn open(p: &Path) -> Self {
        Self { f: std::fs::OpenOptions::new().create(true).append(true).open(p).expect("open log file") }
    }

    fn line(&mut self, s: &str) {
        self.f.write_all(format!("{s}\n").as_bytes()).expect("write log");
        self.f.sync_data().expect("fsync log");
    }

    /// one chunk = the events, then an `act` marker; a chunk without its
    /// marker is ignored by the reader
    fn chunk(&mut self, events: &[Event], mark: usize) {
        let mut buf = Vec::new();
        for e in events {
            serde_json::to_writer(&mut buf, e).unwrap();
            buf.push(b'\n');
        }
        serde_json::to_writer(&mut buf, &Event::Act { i: mark }).unwrap();
        buf.push(b'\n');
        self.f.write_all(&buf).expect("write events");
        self.f.sync_data().expect("fsync events");
    }
}

/// complete chunks of an events file: (events, marker)
fn read_chunks(p: &Path) -> Vec<(Vec<Event>, usize)> {
    let Ok(s) = std::fs::read_to_string(p) else { return Vec::new() };
    let mut out = Vec::new();
    let mut cur = Vec::new();
    for l in s.lines() {
        match serde_json::from_str::<Event>(l) {
            Ok(Event::Act { i }) => out.push((std::mem::take(&mut cur), i)),
            Ok(e) => cur.push(e),
            Err(_) => break, // torn last line
        }
    }
    out
}

// ---------------------------------------------------------------------------
// engine over the real backends
// ---------------------------------------------------------------------------

fn configuration(cap: u64) -> Configuration {
    Configuration::builder().cache_capacity(cap).default_shard_amount(4).build()
}

fn add_executors<C: Config>(mut e: Arc<Engine<C>>, sh: &Arc<Sh>) -> Arc<Engine<C>> {
    {
        let m = Arc::get_mut(&mut e).expect("fresh engine is not shared");
        m.register_executor::<BlobIn, _>(Arc::new(BlobInExec));
        m.register_executor::<Head, _>(Arc::new(HeadExec(sh.clone())));
        m.register_executor::<Sum, _>(Arc::new(SumExec(sh.clone())));
    }
    e
}

async fn open_rocks(dir: &Path, sh: &Arc<Sh>, cap: u64) -> Arc<Engine<RocksCfg>> {
    let f = DbBackedFactory::builder()
        .configuration(configuration(cap))
        .db_factory(RocksDB::factory(dir.to_path_buf()))
        .build();
    add_executors(build_engine::<RocksCfg, _>(f, &sh.ctx, None).await, sh)
}

async fn open_fjall(dir: &Path, sh: &Arc<Sh>, cap: u64) -> Arc<Engine<FjallCfg>> {
    let f = DbBackedFactory::builder()
        .configuration(configuration(cap))
        .db_factory(Fjall::factory(dir.to_path_buf()))
        .build();
    add_executors(build_engine::<FjallCfg, _>(f, &sh.ctx, None).await, sh)
}

// ---------------------------------------------------------------------------
// child: run the plan
// ---------------------------------------------------------------------------

async fn run_sessions<C>(engine: Arc<Engine<C>>, sh: Arc<Sh>, plan: &Plan, ev: &mut Appender, pr: &mut Appender)
where
    C: Config<BuildStableHasher = SeededStableHasherBuilder<Sip128Hasher>>,
{
    let rec = &sh.ctx.rec;
    let mut te: Option<TrackedEngine<C>> = None;
    for s in &plan.sessions {
        if te.take().is_some() {
            rec.push(Event::Drop { t: 0 });
        }
        let mut sess = engine.input_session().await;
        rec.push(Event::Begin);
        for (n, v) in &s.sets {
            let r = sess.set_input(BlobIn((*n - 1) as u16), blob_of(*v, sh.blob)).await;
            rec.push(Event::Set { n: *n, v: *v, r: format!("{r:?}") });
        }
        sess.commit().await;
        rec.push(Event::Commit);
        ev.chunk(&rec.take(), 2 * s.idx);
        pr.line(&format!("committed {}", s.idx));
        if !s.queries.is_empty() {
            te = Some(engine.clone().tracked().await);
            rec.push(Event::Tracked { t: 0 });
            for n in &s.queries {
                let v = query_node(&sh, te.as_ref().unwrap(), *n - 1).await;
                rec.push(Event::Query { t: 0, n: *n, v });
            }
            ev.chunk(&rec.take(), 2 * s.idx + 1);
        }
    }
    if te.take().is_some() {
        rec.push(Event::Drop { t: 0 });
        ev.chunk(&rec.take(), usize::MAX / 2);
    }
    let t = Instant::now();
    pr.line("closing");
    shutdown(engine).await;
    pr.line("done");
    eprintln!("eng_crash child: shutdown took {} us", t.elapsed().as_micros());
}

// ---------------------------------------------------------------------------
// reopen: what does an engine opened on the store left behind show?
// ---------------------------------------------------------------------------

async fn reopen<C>(engine: Arc<Engine<C>>, sh: Arc<Sh>, ev: &mut Appender)
where
    C: Config<BuildStableHasher = SeededStableHasherBuilder<Sip128Hasher>>,
{
    let rec = &sh.ctx.rec;
    let n_all = sh.ctx.prog.n();
    let mut mark = 0;
    let mut flush = |ev: &mut Appender| {
        ev.chunk(&rec.take(), mark);
        mark += 1;
    };
    let mut seen = Vec::new();
    {
        let te = engine.clone().tracked().await;
        rec.quiet.store(true, Ordering::SeqCst);
        for i in 0..sh.k {
            seen.push((i + 1, query_node(&sh, &te, i).await));
        }
        rec.quiet.store(false, Ordering::SeqCst);
        rec.push(Event::Recovered { inputs: seen.clone() });
        rec.push(Event::Tracked { t: 0 });
        flush(ev);
        if seen.iter().all(|(_, v)| *v != ABSENT) {
            // top-down: the derived values are asked for before anything below
            // them was touched by this process
            for i in (0..n_all).rev() {
                match AssertUnwindSafe(query_node(&sh, &te, i)).catch_unwind().await {
                    Ok(v) => rec.push(Event::Query { t: 0, n: i + 1, v }),
                    Err(_) => rec.push(Event::QueryPanic { t: 0, n: i + 1 }),
                }
                flush(ev);
            }
        }
        rec.push(Event::Drop { t: 0 });
    }
    // life goes on: one more session changes every input, then every node again
    let m = sh.ctx.prog.m;
    let mut sess = engine.input_session().await;
    rec.push(Event::Begin);
    for (i, (n, old)) in seen.iter().enumerate() {
        let v = if *old >= 0 { (*old + 1 + i as i64).rem_euclid(m) } else { (1 + i as i64).rem_euclid(m) };
        let r = sess.set_input(BlobIn((*n - 1) as u16), blob_of(v, sh.blob)).await;
        rec.push(Event::Set { n: *n, v, r: format!("{r:?}") });
    }
    sess.commit().await;
    rec.push(Event::Commit);
    flush(ev);
    {
        let te = engine.clone().tracked().await;
        rec.push(Event::Tracked { t: 0 });
        for i in (0..n_all).rev() {
            match AssertUnwindSafe(query_node(&sh, &te, i)).catch_unwind().await {
                Ok(v) => rec.push(Event::Query { t: 0, n: i + 1, v }),
                Err(_) => rec.push(Event::QueryPanic { t: 0, n: i + 1 }),
            }
            flush(ev);
        }
        rec.push(Event::Drop { t: 0 });
        flush(ev);
    }
    shutdown(engine).await;
}

fn child_main(a: &std::collections::HashMap<String, String>, role: &str) {
    let dir = PathBuf::from(arg_str(a, "dir", ""));
    assert!(!dir.as_os_str().is_empty(), "--dir");
    let up = dir.parent().expect("parent of --dir").to_path_buf();
    let backend = arg_str(a, "backend", "rocksdb").to_string();
    let plan: Plan =
        serde_json::from_str(&std::fs::read_to_string(arg_str(a, "plan", "")).expect("read --plan")).expect("plan");
    let events = a.get("events").map_or_else(|| up.join("events.ndjson"), PathBuf::from);
    let progress = a.get("progress").map_or_else(|| up.join("progress"), PathBuf::from);
    let ctx = Ctx::new(blob_program(plan.k, plan.m));
    let sh = Arc::new(Sh { ctx, k: plan.k, blob: plan.blob });
    let mut ev = Appender::open(&events);
    let mut pr = Appender::open(&progress);
    let rt = tokio::runtime::Builder::new_current_thread().enable_all().build().unwrap();
    rt.block_on(async {
        match (backend.as_str(), role) {
            ("rocksdb", "child") => {
                let e = open_rocks(&dir, &sh, plan.cap).await;
                run_sessions(e, sh.clone(), &plan, &mut ev, &mut pr).await;
            }
            ("fjall", "child") => {
                let e = open_fjall(&dir, &sh, plan.cap).await;
                run_sessions(e, sh.clone(), &plan, &mut ev, &mut pr).await;
            }
            ("rocksdb", _) => {
                let e = open_rocks(&dir, &sh, plan.cap).await;
                pr.line("opened");
                reopen(e, sh.clone(), &mut ev).await;
                pr.line("done");
            }
            ("fjall", _) => {
                let e = open_fjall(&dir, &sh, plan.cap).await;
                pr.line("opened");
                reopen(e, sh.clone(), &mut ev).await;
                pr.line("done");
            }
            _ => panic!("unknown backend {backend}"),
        }
    });
}

// ---------------------------------------------------------------------------
// parent
// ---------------------------------------------------------------------------

fn list_files(dir: &Path, out: &mut Vec<(PathBuf, u64)>) {
    let Ok(rd) = std::fs::read_dir(dir) else { return };
    for e in rd.flatten() {
        let p = e.path();
        match e.metadata() {
            Ok(md) if md.is_dir() => list_files(&p, out),
            Ok(md) => out.push((p, md.len())),
            Err(_) => {}
        }
    }
}

/// data files of the backend (RocksDB: *.sst; Fjall: keyspaces/*/tables/*)
fn data_files(dir: &Path, backend: &str) -> BTreeSet<PathBuf> {
    let mut v = Vec::new();
    list_files(dir, &mut v);
    v.into_iter()
        .map(|(p, _)| p)
        .filter(|p| {
            let s = p.to_string_lossy();
            if backend == "rocksdb" { s.ends_with(".sst") } else { s.contains("/tables/") }
        })
        .collect()
}

/// a value that changes when a flush is installed (RocksDB: bytes of
/// MANIFEST-*; Fjall: bytes and number of the keyspaces' version files)
fn manifest_size(dir: &Path, backend: &str) -> u64 {
    let mut v = Vec::new();
    list_files(dir, &mut v);
    v.into_iter()
        .filter(|(p, _)| {
            let s = p.file_name().map(|x| x.to_string_lossy().to_string()).unwrap_or_default();
            if backend == "rocksdb" {
                s.starts_with("MANIFEST")
            } else {
                p.to_string_lossy().contains("/keyspaces/") && !p.to_string_lossy().contains("/tables/")
            }
        })
        .map(|(_, l)| l + 1_000_000)
        .sum()
}

fn dir_size(dir: &Path) -> u64 {
    let mut v = Vec::new();
    list_files(dir, &mut v);
    v.into_iter().map(|(_, l)| l).sum()
}

fn progress_lines(p: &Path) -> Vec<String> {
    std::fs::read_to_string(p).unwrap_or_default().lines().map(str::to_string).collect()
}

fn spawn_role(role: &str, db: &Path, backend: &str, plan: &Path, events: &Path, progress: &Path, log: &Path) -> std::process::Child {
    let exe = std::env::current_exe().expect("current exe");
    let lf = std::fs::File::create(log).expect("log file");
    let lf2 = lf.try_clone().unwrap();
    std::process::Command::new(exe)
        .args(["--role", role, "--backend", backend])
        .arg("--dir")
        .arg(db)
        .arg("--plan")
        .arg(plan)
        .arg("--events")
        .arg(events)
        .arg("--progress")
        .arg(progress)
        .stdin(std::process::Stdio::null())
        .stdout(lf)
        .stderr(lf2)
        .spawn()
        .expect("spawn child")
}

fn tool_error(msg: &str) -> ! {
    eprintln!("eng_crash: TOOL ERROR: {msg}");
    std::process::exit(2);
}

#[derive(Debug, Default, Serialize)]
struct Meta {
    backend: String,
    strategy: String,
    seed: u64,
    k: usize,
    blob: usize,
    warm: usize,
    heavy: usize,
    /// what triggered the kill
    trigger: String,
    killed: bool,
    kill_after_ms: u64,
    /// sessions (global count) the children reported committed
    cut: usize,
    of: usize,
    /// session whose input state the reopened engine shows (-1 nothing,
    /// -2 not a committed state, -3 reopen died before showing inputs)
    recovered_session: i64,
    durable_heavy_sessions: i64,
    lost_reported_sessions: i64,
    partial_durability: bool,
    new_data_files_at_kill: usize,
    manifest_grew_before_kill: bool,
    db_bytes_at_kill: u64,
    reopen_rc: i32,
    reopen_hung: bool,
    t_warm_ms: u64,
    t_heavy_ms: u64,
    t_reopen_ms: u64,
    events: usize,
}

#[allow(clippy::too_many_lines)]
fn parent_main(a: &std::collections::HashMap<String, String>) {
    let seed = arg_u64(a, "seed", 1);
    let backend = arg_str(a, "backend", "rocksdb").to_string();
    let strategy = arg_str(a, "strategy", "b").to_string();
    let k = arg_u64(a, "k", 4) as usize;
    let blob = arg_u64(a, "blob", 1 << 20) as usize;
    let m = arg_u64(a, "m", 127) as i64;
    let cap = arg_u64(a, "cap", 64);
    let warm = arg_u64(a, "warm", 2) as usize;
    let heavy_default = if strategy == "c" { 6 } else { 60 };
    let heavy = arg_u64(a, "heavy", heavy_default) as usize;
    let amax = arg_u64(a, "amax", 8000);
    let cap_ms = arg_u64(a, "capms", 30_000);
    let keep = arg_u64(a, "keep", 0) == 1;
    let out = PathBuf::from(arg_str(a, "out", "trace.ndjson"));
    let meta_path = a.get("meta").map(PathBuf::from);
    let work = PathBuf::from(arg_str(a, "work", "/verif/work/C08real/run"));
    assert!(k >= 2 && m <= 127 && (warm + heavy) < (m * m) as usize);
    if work.starts_with("/tmp") {
        tool_error("--work must not be under /tmp");
    }
    let _ = std::fs::remove_dir_all(&work);
    std::fs::create_dir_all(&work).expect("work dir");
    let db = work.join("db");
    let mut r = StdRng::seed_from_u64(seed ^ 0xC08C_0DE5);

    // ---- plans: session s sets input 1 to s mod m and input 2 to s / m (the
    // input vector identifies the session), the other inputs are seeded
    let n_all = 2 * k + 1;
    let mut sessions = Vec::new();
    for s in 0..warm + heavy {
        let mut sets = vec![(1usize, (s as i64 + 1) % m), (2usize, (s as i64 + 1) / m)];
        for i in 2..k {
            // sometimes unchanged, sometimes skipped
            match r.gen_range(0..8) {
                0 if s > 0 => {}
                _ => sets.push((i + 1, r.gen_range(0..m))),
            }
        }
        if s == 0 {
            sets = (0..k).map(|i| (i + 1, if i == 0 { 1 } else if i == 1 { 0 } else { r.gen_range(0..m) })).collect();
        }
        let queries: Vec<usize> = if s < warm {
            (1..=n_all).rev().collect()
        } else {
            match r.gen_range(0..4) {
                0 => (1..=n_all).rev().collect(),
                1 => vec![n_all],
                _ => vec![],
            }
        };
        sessions.push(Sess { idx: s, sets, queries });
    }
    let plan_of = |ss: &[Sess]| Plan { k, blob, m, cap, sessions: ss.to_vec() };
    let p_warm = work.join("plan_warm.json");
    let p_heavy = work.join("plan_heavy.json");
    let p_re = work.join("plan_reopen.json");
    std::fs::write(&p_warm, serde_json::to_vec(&plan_of(&sessions[..warm])).unwrap()).unwrap();
    std::fs::write(&p_heavy, serde_json::to_vec(&plan_of(&sessions[warm..])).unwrap()).unwrap();
    std::fs::write(&p_re, serde_json::to_vec(&plan_of(&[])).unwrap()).unwrap();

    let mut meta = Meta {
        backend: backend.clone(),
        strategy: strategy.clone(),
        seed,
        k,
        blob,
        warm,
        heavy,
        of: warm + heavy,
        ..Meta::default()
    };

    // ---- 1. warm-up child, clean shutdown
    let t0 = Instant::now();
    let (ev_w, pr_w) = (work.join("events_warm.ndjson"), work.join("progress_warm"));
    let mut c = spawn_role("child", &db, &backend, &p_warm, &ev_w, &pr_w, &work.join("warm.log"));
    let st = loop {
        if let Some(st) = c.try_wait().expect("wait") {
            break st;
        }
        if t0.elapsed() > Duration::from_secs(120) {
            let _ = c.kill();
            tool_error("warm-up child did not finish in 120 s");
        }
        std::thread::sleep(Duration::from_millis(5));
    };
    meta.t_warm_ms = t0.elapsed().as_millis() as u64;
    if !st.success() || progress_lines(&pr_w).last().map(String::as_str) != Some("done") {
        eprintln!("{}", std::fs::read_to_string(work.join("warm.log")).unwrap_or_default());
        // the code under test brought the process down in a fault-free run
        eprintln!("eng_crash: warm-up child died: {st:?}");
        std::process::exit(3);
    }

    // ---- 2. heavy child, killed
    let before = data_files(&db, &backend);
    let man0 = manifest_size(&db, &backend);
    let (ev_h, pr_h) = (work.join("events_heavy.ndjson"), work.join("progress_heavy"));
    let t1 = Instant::now();
    let mut c = spawn_role("child", &db, &backend, &p_heavy, &ev_h, &pr_h, &work.join("heavy.log"));
    // seeded decisions
    let a_commits = r.gen_range(0..heavy);
    let a_delay = r.gen_range(0..=amax);
    let mut a_at: Option<Instant> = None;
    let nth_file = [1usize, 1, 2, 3, 5][r.gen_range(0..5)];
    let wait_manifest = r.gen_range(0..3) != 0;
    let nth_manifest = [1u64, 1, 2, 3][r.gen_range(0..4)];
    let extra_ms = if strategy == "c" { [0u64, 1, 2, 3, 5, 8][r.gen_range(0..6)] } else { [0u64, 1, 2, 5, 10, 20, 50, 100, 200][r.gen_range(0..9)] };
    // the close-time flush lasts about as long as the warm-up child's shutdown did
    let close_us = std::fs::read_to_string(work.join("warm.log"))
        .unwrap_or_default()
        .lines()
        .find_map(|l| l.strip_prefix("eng_crash child: shutdown took ")?.strip_suffix(" us")?.parse::<u64>().ok())
        .unwrap_or(40_000);
    let c_delay = r.gen_range(0..=close_us + close_us / 4);
    let c_mode = r.gen_range(0..3); // 0: delay after closing, 1/2: files + manifest after closing
    let mut closing_at: Option<Instant> = None;
    let mut files_at: Option<Instant> = None;
    let mut man_at: Option<Instant> = None;
    let mut man_last = man0;
    let mut man_steps = 0u64;
    let mut exited = None;
    loop {
        if let Some(st) = c.try_wait().expect("wait") {
            exited = Some(st);
            break;
        }
        let el = t1.elapsed();
        if el > Duration::from_millis(cap_ms) {
            meta.trigger = "cap".into();
            break;
        }
        let watch_files = strategy == "b" || (strategy == "c" && closing_at.is_some() && c_mode != 0);
        if strategy == "c" && closing_at.is_none() && progress_lines(&pr_h).iter().any(|l| l == "closing") {
            closing_at = Some(Instant::now());
        }
        if watch_files {
            if files_at.is_none() {
                let now = data_files(&db, &backend);
                if now.difference(&before).count() >= nth_file {
                    files_at = Some(Instant::now());
                }
            } else if man_at.is_none() {
                let ms = manifest_size(&db, &backend);
                if ms != man_last {
                    man_last = ms;
                    man_steps += 1;
                    if man_steps >= nth_manifest {
                        man_at = Some(Instant::now());
                    }
                }
            }
        }
        let fire = match strategy.as_str() {
            "a" => {
                if a_at.is_none()
                    && progress_lines(&pr_h).iter().filter(|l| l.starts_with("committed ")).count() >= a_commits
                {
                    a_at = Some(Instant::now());
                }
                a_at.is_some_and(|t| t.elapsed() >= Duration::from_micros(a_delay))
            }
            "c" if c_mode == 0 => closing_at.is_some_and(|t| t.elapsed() >= Duration::from_micros(c_delay)),
            _ => {
                if wait_manifest {
                    man_at.is_some_and(|t| t.elapsed() >= Duration::from_millis(extra_ms.min(20)))
                        // a flush that is never installed (killed too early elsewhere): give up waiting
                        || files_at.is_some_and(|t| t.elapsed() >= Duration::from_millis(3000))
                } else {
                    files_at.is_some_and(|t| t.elapsed() >= Duration::from_millis(extra_ms))
                }
            }
        };
        if fire {
            meta.trigger = match strategy.as_str() {
                "a" => format!("random moment: {a_commits} commits reported + {a_delay} us"),
                "c" if c_mode == 0 => format!("closing + {c_delay} us"),
                s => format!(
                    "{}new data file #{nth_file}{}",
                    if s == "c" { "closing, " } else { "" },
                    if wait_manifest {
                        format!(", manifest change #{nth_manifest} + {} ms", extra_ms.min(20))
                    } else {
                        format!(" + {extra_ms} ms")
                    }
                ),
            };
            break;
        }
        std::thread::sleep(Duration::from_micros(if strategy == "c" { 200 } else if watch_files { 2000 } else { 1000 }));
    }
    if exited.is_none() {
        let _ = c.kill(); // SIGKILL
        let _ = c.wait();
        meta.killed = true;
    } else if !exited.unwrap().success() {
        eprintln!("{}", std::fs::read_to_string(work.join("heavy.log")).unwrap_or_default());
        eprintln!("eng_crash: heavy child died by itself: {exited:?}");
        std::process::exit(3);
    } else {
        meta.trigger = "child completed before the kill".into();
    }
    meta.kill_after_ms = t1.elapsed().as_millis() as u64;
    meta.t_heavy_ms = meta.kill_after_ms;
    meta.new_data_files_at_kill = data_files(&db, &backend).difference(&before).count();
    meta.manifest_grew_before_kill = manifest_size(&db, &backend) != man0;
    meta.db_bytes_at_kill = dir_size(&db);
    let reported = progress_lines(&pr_h).iter().filter(|l| l.starts_with("committed ")).count();
    meta.cut = warm + reported;

    // ---- 3. reopen in a third process
    let t2 = Instant::now();
    let (ev_r, pr_r) = (work.join("events_reopen.ndjson"), work.join("progress_reopen"));
    let mut c = spawn_role("reopen", &db, &backend, &p_re, &ev_r, &pr_r, &work.join("reopen.log"));
    let st = loop {
        if let Some(st) = c.try_wait().expect("wait") {
            break Some(st);
        }
        if t2.elapsed() > Duration::from_secs(180) {
            let _ = c.kill();
            let _ = c.wait();
            meta.reopen_hung = true;
            break None;
        }
        std::thread::sleep(Duration::from_millis(5));
    };
    meta.t_reopen_ms = t2.elapsed().as_millis() as u64;
    meta.reopen_rc = st.map_or(-1, |s| s.code().unwrap_or(-9));

    // ---- 4. one trace
    let mut all: Vec<Event> = Vec::new();
    all.push(Event::Prog {
        prog: blob_program(k, m),
        cfg: format!("real backend={backend} strategy={strategy} seed={seed} k={k} blob={blob} cap={cap}"),
    });
    for (evs, _) in read_chunks(&ev_w) {
        all.extend(evs);
    }
    all.push(Event::Restart);
    // the heavy child's complete chunks
    let mut logged_sessions = 0usize;
    let mut live = false;
    for (evs, mark) in read_chunks(&ev_h) {
        if mark < usize::MAX / 2 && mark % 2 == 0 {
            logged_sessions += 1;
        }
        for e in &evs {
            match e {
                Event::Tracked { .. } => live = true,
                Event::Drop { .. } => live = false,
                _ => {}
            }
        }
        all.extend(evs);
    }
    if logged_sessions < reported {
        tool_error("progress file is ahead of the events file");
    }
    // the session in flight (the child logs session s before it starts s+1):
    // taken from the plan, with the set results the model expects
    let mut cur: Vec<Option<i64>> = vec![None; k];
    for s in &sessions[..warm + logged_sessions] {
        for (n, v) in &s.sets {
            cur[n - 1] = Some(*v);
        }
    }
    if meta.killed && warm + logged_sessions < sessions.len() {
        let s = &sessions[warm + logged_sessions];
        if live {
            all.push(Event::Drop { t: 0 });
        }
        all.push(Event::Begin);
        for (n, v) in &s.sets {
            let r = match cur[n - 1] {
                None => "Fresh",
                Some(x) if x == *v => "Unchanged",
                Some(_) => "Updated",
            };
            all.push(Event::Set { n: *n, v: *v, r: r.into() });
        }
        all.push(Event::Commit);
    }
    all.push(Event::Crash { cut: meta.cut, of: meta.of });
    let re_chunks = read_chunks(&ev_r);
    let mut recovered: Option<Vec<(usize, i64)>> = None;
    for (evs, _) in re_chunks {
        for e in &evs {
            if let Event::Recovered { inputs } = e {
                recovered = Some(inputs.clone());
            }
        }
        all.extend(evs);
    }
    let opened = progress_lines(&pr_r).iter().any(|l| l == "opened");
    if meta.reopen_hung {
        all.push(Event::Hang { at: 0 });
    } else if meta.reopen_rc != 0 {
        let log = std::fs::read_to_string(work.join("reopen.log")).unwrap_or_default();
        let tail: String = log.lines().rev().take(6).collect::<Vec<_>>().into_iter().rev().collect::<Vec<_>>().join(" | ");
        all.push(Event::CrashPanic {
            cut: meta.cut,
            msg: format!("reopen process rc={} opened={opened}: {}", meta.reopen_rc, tail.chars().take(600).collect::<String>()),
        });
    }
    all.push(Event::Reset);
    meta.events = all.len();

    // which session does the reopened engine show?
    meta.recovered_session = match &recovered {
        None => -3,
        Some(obs) if obs.iter().all(|(_, v)| *v == ABSENT) => -1,
        Some(obs) => {
            let mut cur: Vec<i64> = vec![ABSENT; k];
            let mut found = -2;
            for s in &sessions {
                for (n, v) in &s.sets {
                    cur[n - 1] = *v;
                }
                if obs.iter().all(|(n, v)| cur[n - 1] == *v) {
                    found = s.idx as i64;
                }
            }
            found
        }
    };
    if meta.recovered_session >= 0 {
        meta.durable_heavy_sessions = meta.recovered_session + 1 - warm as i64;
        meta.lost_reported_sessions = meta.cut as i64 - (meta.recovered_session + 1);
        meta.partial_durability = meta.durable_heavy_sessions >= 1 && meta.lost_reported_sessions >= 1;
    }
    write_ndjson(&out, &all).expect("write trace");
    if let Some(mp) = meta_path {
        std::fs::write(mp, serde_json::to_vec_pretty(&meta).unwrap()).expect("write meta");
    }
    eprintln!(
        "eng_crash: {backend}/{strategy} seed={seed}: {} | killed={} after {} ms, db {} MB, reported {} of {}, recovered session {} (partial={}), reopen rc={} | {} events",
        meta.trigger,
        meta.killed,
        meta.kill_after_ms,
        meta.db_bytes_at_kill >> 20,
        meta.cut,
        meta.of,
        meta.recovered_session,
        meta.partial_durability,
        meta.reopen_rc,
        all.len()
    );
    if !keep {
        let _ = std::fs::remove_dir_all(&db);
    }
}

fn main() {
    let a = args();
    let role = arg_str(&a, "role", "parent").to_string();
    match role.as_str() {
        "parent" => parent_main(&a),
        "child" | "reopen" => child_main(&a, &role),
        _ => panic!("unknown --role {role}"),
    }
}
