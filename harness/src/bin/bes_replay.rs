//! Direct conformance driver for the tiered backward-edge set
//! (`CompressedBackwardEdgeSet`, re-exported under `--cfg qbice_verif`).
//!
//! * `--mode schedules --in FILE`: behaviours of specs/BackwardEdgeSet.tla
//!   (`{"steps":[{"t":thread,"s":"insert"|"insert_begin"|"insert_end"|"iter"}..]}`),
//!   executed by one OS thread per model thread; the upgrade window is
//!   reached through the point `bes_upgrade_window`.  The model's threshold
//!   is 2, the code's 32: the set is pre-filled with 30 elements.
//! * `--mode stress`: free-running inserters + an iterating thread.
//! * `--mode mapstress`: the map level (`InMemoryKeyOfSetMap`, callee ->
//!   set of callers): several threads record the FIRST element of a fresh
//!   key at the same moment (the set is created by whoever comes first; a
//!   concurrent reader may create it too); afterwards every recorded element
//!   must be a member.
//!
//! Output: ndjson for specs/BackwardEdgeSetTrace.tla.

use std::{
    cell::Cell,
    sync::{
        Arc,
        atomic::{AtomicBool, AtomicU64, Ordering},
    },
    time::{Duration, Instant},
};

use parking_lot::{Condvar, Mutex};
use qbice::{query::QueryID, storage::key_of_set_map::ConcurrentSet, verif::CompressedBackwardEdgeSet};
use serde_json::json;
use vh::util::{arg_str, arg_u64, args};

type Set = CompressedBackwardEdgeSet<fxhash::FxBuildHasher>;

fn qid(x: u64) -> QueryID { QueryID::from_parts(7u128.into(), u128::from(x).into()) }
fn unq(q: &QueryID) -> u64 { q.hash_128() as u64 }

#[derive(serde::Deserialize, Clone)]
struct Step {
    t: usize,
    s: String,
}
#[derive(serde::Deserialize)]
struct Behaviour {
    steps: Vec<Step>,
}

struct Ctl {
    steps: Vec<Step>,
    turn: Mutex<usize>,
    cv: Condvar,
    hung: AtomicBool,
    drift: AtomicBool,
}
impl Ctl {
    fn wait(&self, task: usize, step: &str) -> bool {
        let mut g = self.turn.lock();
        let t0 = Instant::now();
        loop {
            if self.hung.load(Ordering::SeqCst) || self.drift.load(Ordering::SeqCst) || *g >= self.steps.len() {
                return false;
            }
            if self.steps[*g].t == task && self.steps[*g].s == step {
                return true;
            }
            if self.cv.wait_for(&mut g, Duration::from_millis(100)).timed_out()
                && t0.elapsed() > Duration::from_secs(20)
            {
                self.hung.store(true, Ordering::SeqCst);
                self.cv.notify_all();
                return false;
            }
        }
    }
    fn peek(&self) -> Option<Step> { self.steps.get(*self.turn.lock()).cloned() }
    fn advance(&self) {
        *self.turn.lock() += 1;
        self.cv.notify_all();
    }
}

thread_local! { static TASK: Cell<usize> = const { Cell::new(usize::MAX) }; }

struct Log(Mutex<Vec<serde_json::Value>>);
impl Log {
    fn push(&self, v: serde_json::Value) { self.0.lock().push(v); }
}

fn run_schedule(b: &Behaviour, log: &Arc<Log>) {
    let set: Set = Set::default();
    for i in 0..30u64 {
        set.insert_element(qid(1000 + i));
        log.push(json!({"e":"ins_end","x":1000 + i}));
    }
    let ctl = Arc::new(Ctl {
        steps: b.steps.clone(),
        turn: Mutex::new(0),
        cv: Condvar::new(),
        hung: AtomicBool::new(false),
        drift: AtomicBool::new(false),
    });
    {
        let ctl = ctl.clone();
        qbice::verif::set_hook(Some(Arc::new(move |label: &'static str| {
            if label != "bes_upgrade_window" {
                return;
            }
            let task = TASK.with(Cell::get);
            if task == usize::MAX {
                return;
            }
            match ctl.peek() {
                Some(st) if st.t == task && st.s == "insert_begin" => {
                    ctl.advance();
                    ctl.wait(task, "insert_end");
                }
                _ => {
                    // the code reached the window where the model did not
                    ctl.drift.store(true, Ordering::SeqCst);
                    ctl.cv.notify_all();
                }
            }
        })));
    }
    let mut threads: Vec<usize> = b.steps.iter().map(|s| s.t).filter(|t| *t != 0).collect();
    threads.sort_unstable();
    threads.dedup();
    let mut hs = Vec::new();
    for t in threads {
        let (ctl, set, log) = (ctl.clone(), set.clone(), log.clone());
        let my: Vec<Step> = b.steps.iter().filter(|s| s.t == t).cloned().collect();
        hs.push(std::thread::spawn(move || {
            TASK.with(|c| c.set(t));
            let mut k = 0u64;
            for st in my {
                match st.s.as_str() {
                    "insert" | "insert_begin" => {
                        if !ctl.wait(t, &st.s) {
                            return;
                        }
                        k += 1;
                        let x = t as u64 * 10 + k;
                        log.push(json!({"e":"ins_start","x":x}));
                        let at = *ctl.turn.lock();
                        set.insert_element(qid(x));
                        log.push(json!({"e":"ins_end","x":x}));
                        if st.s == "insert_begin" && *ctl.turn.lock() == at {
                            // the model expected the window, the code did not go there
                            ctl.drift.store(true, Ordering::SeqCst);
                            ctl.cv.notify_all();
                            return;
                        }
                        ctl.advance();
                    }
                    _ => {}
                }
            }
        }));
    }
    // task 0 = the iterating thread (this one)
    for st in b.steps.iter().filter(|s| s.t == 0) {
        if st.s == "iter" {
            if !ctl.wait(0, "iter") {
                break;
            }
            log.push(json!({"e":"iter_start"}));
            let seen: Vec<u64> = set.iter().map(|q| unq(&q)).collect();
            log.push(json!({"e":"iter","seen":seen}));
            ctl.advance();
        }
    }
    for h in hs {
        let _ = h.join();
    }
    qbice::verif::set_hook(None);
    if ctl.drift.load(Ordering::SeqCst) || ctl.hung.load(Ordering::SeqCst) {
        log.push(json!({"e":"drift"}));
    } else {
        log.push(json!({"e":"iter_start"}));
        let seen: Vec<u64> = set.iter().map(|q| unq(&q)).collect();
        log.push(json!({"e":"iter","seen":seen}));
    }
    log.push(json!({"e":"reset"}));
}

fn run_stress(seed: u64, threads: usize, per_thread: u64, prefill: u64, log: &Arc<Log>) {
    let set: Set = Set::default();
    for i in 0..prefill {
        set.insert_element(qid(1_000_000 + i));
        log.push(json!({"e":"ins_end","x":1_000_000 + i}));
    }
    let go = Arc::new(std::sync::Barrier::new(threads + 1));
    let stop = Arc::new(AtomicBool::new(false));
    let _ = seed;
    let mut hs = Vec::new();
    for t in 0..threads {
        let (set, log, go) = (set.clone(), log.clone(), go.clone());
        hs.push(std::thread::spawn(move || {
            go.wait();
            for k in 0..per_thread {
                let x = (t as u64 + 1) * 100_000 + k;
                set.insert_element(qid(x));
                log.push(json!({"e":"ins_end","x":x}));
            }
        }));
    }
    let it = {
        let (set, log, go, stop) = (set.clone(), log.clone(), go.clone(), stop.clone());
        std::thread::spawn(move || {
            go.wait();
            let n = AtomicU64::new(0);
            while !stop.load(Ordering::Relaxed) && n.fetch_add(1, Ordering::Relaxed) < 40 {
                // the start marker and the snapshot of "completed" are taken by TLC
                // from the log position, so log the marker first
                log.push(json!({"e":"iter_start"}));
                let seen: Vec<u64> = set.iter().map(|q| unq(&q)).collect();
                log.push(json!({"e":"iter","seen":seen}));
            }
        })
    };
    for h in hs {
        let _ = h.join();
    }
    stop.store(true, Ordering::SeqCst);
    let _ = it.join();
    log.push(json!({"e":"iter_start"}));
    let seen: Vec<u64> = set.iter().map(|q| unq(&q)).collect();
    log.push(json!({"e":"iter","seen":seen}));
    log.push(json!({"e":"reset"}));
}

#[derive(Debug, Clone, Copy, PartialEq, Eq, PartialOrd, Ord, Hash, qbice::Identifiable)]
struct BackCol;
impl qbice::storage::kv_database::KeyOfSetColumn for BackCol {
    type Key = u64;
    type Element = QueryID;
}

fn run_map_stress(seed: u64, threads: usize, keys: u64, log: &Arc<Log>) {
    use qbice::storage::{key_of_set_map::{KeyOfSetMap, in_memory::InMemoryKeyOfSetMap}, write_batch::FauxWriteBatch};
    let map: Arc<InMemoryKeyOfSetMap<BackCol, Set>> = Arc::new(InMemoryKeyOfSetMap::new());
    let go = Arc::new(std::sync::Barrier::new(threads + 1));
    let end = Arc::new(std::sync::Barrier::new(threads + 1));
    let mut hs = Vec::new();
    for t in 0..threads {
        let (map, log, go, end) = (map.clone(), log.clone(), go.clone(), end.clone());
        hs.push(std::thread::spawn(move || {
            let mut wb = FauxWriteBatch;
            for k in 0..keys {
                go.wait();
                let key = seed * 1_000_000 + k;
                if t == 0 && k % 3 == 0 {
                    // a reader of the same fresh key races with the writers
                    let _ = futures::executor::block_on(map.get(&key)).count();
                }
                let x = key * 100 + t as u64;
                futures::executor::block_on(map.insert(key, qid(x), &mut wb));
                log.push(json!({"e":"ins_end","x":x}));
                end.wait();
            }
        }));
    }
    for k in 0..keys {
        go.wait();
        end.wait();
        let key = seed * 1_000_000 + k;
        log.push(json!({"e":"iter_start"}));
        let seen: Vec<u64> = futures::executor::block_on(map.get(&key)).map(|q| unq(&q)).collect();
        log.push(json!({"e":"iter","seen":seen}));
        log.push(json!({"e":"reset"}));
    }
    for h in hs {
        let _ = h.join();
    }
}

fn main() {
    let a = args();
    let mode = arg_str(&a, "mode", "schedules").to_string();
    let out = arg_str(&a, "out", "/dev/stdout").to_string();
    let seed = arg_u64(&a, "seed", 1);
    let log = Arc::new(Log(Mutex::new(Vec::new())));
    if mode == "probe" {
        // does the code drain the vector before it takes the exclusive lock?
        let set: Set = Set::default();
        for i in 0..32u64 {
            set.insert_element(qid(i));
        }
        let seen = Arc::new(Mutex::new(None::<usize>));
        let (s2, set2) = (seen.clone(), set.clone());
        qbice::verif::set_hook(Some(Arc::new(move |l: &'static str| {
            if l == "bes_upgrade_window" {
                *s2.lock() = Some(set2.len());
            }
        })));
        set.insert_element(qid(99));
        qbice::verif::set_hook(None);
        println!(
            "{}",
            match *seen.lock() {
                Some(0) => "drain_before_lock",
                Some(_) => "upgrade_under_lock",
                None => "unknown",
            }
        );
        return;
    }
    if mode == "schedules" {
        let f = std::fs::read_to_string(arg_str(&a, "in", "")).expect("read --in");
        for line in f.lines().filter(|l| !l.trim().is_empty()) {
            let b: Behaviour = serde_json::from_str(line).expect("behaviour");
            run_schedule(&b, &log);
        }
    } else if mode == "mapstress" {
        let keys = arg_u64(&a, "keys", 500);
        for (i, threads) in [2usize, 3, 8, 16].iter().enumerate() {
            run_map_stress(seed * 10 + i as u64, *threads, keys, &log);
        }
    } else {
        let rounds = arg_u64(&a, "rounds", 50);
        for i in 0..rounds {
            // around the 32 threshold: 30 or 31 pre-filled, several racing threads
            run_stress(seed + i, 2 + (i % 7) as usize, 3, 29 + i % 3, &log);
        }
    }
    use std::io::Write;
    let mut f = std::io::BufWriter::new(std::fs::File::create(&out).expect("out"));
    for v in log.0.lock().iter() {
        serde_json::to_writer(&mut f, v).unwrap();
        f.write_all(b"\n").unwrap();
    }
    f.flush().unwrap();
    eprintln!("bes_replay: wrote {} events", log.0.lock().len());
}
