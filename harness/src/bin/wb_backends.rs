//! C10 on the real backends: `WriteBehind<RocksDB>` / `WriteBehind<Fjall>` behind the public storage
//! engine.  There is no commit log to look at; what is decided is the P-level statement alone: once the
//! write manager has been dropped, the store - closed and REOPENED through the raw `KvDatabase` API -
//! holds exactly what applying every submitted batch in creation order gives (specs/WriteBehindTrace.tla,
//! `nolog` runs: `final_content`).
//!
//! One run = several writer sessions over one directory.  A session creates N batches one after another
//! (ids = creation order), fills them with puts / removes of overlapping cells - ordinary cells, the
//! single cell of a column whose key AND discriminant encode to nothing (the shape of the engine's own
//! timestamp column), set members -, leaves some batches without any operation, occasionally adds a
//! multi-megabyte value so that the committer flushes in mid-stream, submits them in a seeded order from
//! several threads and drops the write manager.
//!
//! `--out TRACE --seed S --runs N [--backends rocksdb,fjall] [--tmp DIR]`
use std::{collections::BTreeMap, io::Write, path::Path, sync::Arc};

use dashmap::DashSet;
use futures::executor::block_on;
use qbice_serialize::Plugin;
use qbice_stable_type_id::Identifiable;
use qbice_storage::{
    key_of_set_map::KeyOfSetMap,
    kv_database::{
        DiscriminantEncoding, KeyOfSetColumn, KvDatabase, KvDatabaseFactory, WideColumn, WideColumnValue,
        fjall::Fjall, rocksdb::RocksDB,
    },
    single_map::SingleMap,
    storage_engine::{
        StorageEngine, StorageEngineFactory,
        db_backed::{Configuration, DbBackedFactory},
    },
};
use rand::{Rng, SeedableRng, rngs::StdRng, seq::SliceRandom};
use serde_json::{Value, json};
use vh::util::{arg_str, arg_u64, args};

#[derive(Debug, Clone, Copy, PartialEq, Eq, PartialOrd, Ord, Hash, Identifiable)]
pub struct CellCol;
impl WideColumn for CellCol {
    type Key = u32;
    type Discriminant = ();
    fn discriminant_encoding() -> DiscriminantEncoding { DiscriminantEncoding::Prefixed }
}
#[derive(Debug, Clone, PartialEq, Eq, qbice_serialize::Encode, qbice_serialize::Decode)]
#[serialize_crate(qbice_serialize)]
pub struct Val(u64, Vec<u8>);
impl WideColumnValue<CellCol> for Val {
    fn discriminant() {}
}

/// a column with exactly one cell: key and discriminant both encode to nothing
#[derive(Debug, Clone, Copy, PartialEq, Eq, PartialOrd, Ord, Hash, Identifiable)]
pub struct OneCol;
impl WideColumn for OneCol {
    type Key = ();
    type Discriminant = ();
    fn discriminant_encoding() -> DiscriminantEncoding { DiscriminantEncoding::Prefixed }
}
impl WideColumnValue<OneCol> for u64 {
    fn discriminant() {}
}

#[derive(Debug, Clone, Copy, PartialEq, Eq, PartialOrd, Ord, Hash, Identifiable)]
pub struct SetCol;
impl KeyOfSetColumn for SetCol {
    type Key = u32;
    type Element = u32;
}

#[derive(Clone, Copy)]
enum Cell {
    W(u32),
    One,
    S(u32, u32),
}
impl Cell {
    fn name(self) -> String {
        match self {
            Cell::W(k) => format!("w{k}"),
            Cell::One => "one".into(),
            Cell::S(k, e) => format!("s{k}_{e}"),
        }
    }
}

const NW: u32 = 4;
const NS: u32 = 2;
const NE: u32 = 3;

fn session<F>(factory: F, rng: &mut StdRng, next_id: &mut u32, ev: &mut Vec<Value>)
where
    F: KvDatabaseFactory,
    F::KvDatabase: KvDatabase + 'static,
    F::Error: std::fmt::Debug,
{
    let eng = DbBackedFactory::builder()
        .configuration(Configuration::builder().cache_capacity(1 << 10).serialization_workers(rng.gen_range(1..4)).default_shard_amount(4).build())
        .db_factory(factory)
        .build()
        .open(Plugin::default())
        .expect("open engine");
    let cells = eng.new_single_map::<CellCol, Val>();
    let one = eng.new_single_map::<OneCol, u64>();
    let sets = eng.new_key_of_set_map::<SetCol, Arc<DashSet<u32>>>();
    let wm = eng.new_write_manager();
    let n = rng.gen_range(1..6u32);
    let mut open = Vec::new();
    let mut stamp = ev.len() as u64 * 4 + 1;
    for _ in 0..n {
        let id = *next_id;
        *next_id += 1;
        let mut b = wm.new_write_batch();
        ev.push(json!({"e":"create","b":id,"t":0,"cs":stamp,"ce":stamp + 1}));
        stamp += 2;
        // what the batch does: nothing / one operation on the singleton only / a mix
        let shape = rng.gen_range(0..10);
        let nops = match shape { 0 => 0, 1 | 2 | 3 => 1, _ => rng.gen_range(1..6) };
        for _ in 0..nops {
            let cell = if shape <= 3 || rng.gen_range(0..4) == 0 { Cell::One } else if rng.gen_bool(0.6) { Cell::W(rng.gen_range(0..NW)) } else { Cell::S(rng.gen_range(0..NS), rng.gen_range(0..NE)) };
            let put = rng.gen_bool(0.55);
            let v: i64 = if put { rng.gen_range(0..1000) } else { -1 };
            match (cell, put) {
                (Cell::W(k), true) => {
                    // now and then a value of several megabytes: the committer flushes in mid-stream
                    let blob = if rng.gen_range(0..40) == 0 { vec![7u8; 5 << 20] } else { vec![] };
                    block_on(cells.insert(k, Val(v as u64, blob), &mut b));
                }
                (Cell::W(k), false) => block_on(cells.remove(&k, &mut b)),
                (Cell::One, true) => block_on(one.insert((), v as u64, &mut b)),
                (Cell::One, false) => block_on(one.remove(&(), &mut b)),
                (Cell::S(k, e), true) => block_on(sets.insert(k, e, &mut b)),
                (Cell::S(k, e), false) => block_on(sets.remove(&k, &e, &mut b)),
            }
            // set membership has no value: present = 1
            let vv = if matches!(cell, Cell::S(..)) && put { 1 } else { v };
            ev.push(json!({"e":"fill","b":id,"t":0,"c":cell.name(),"v":vv}));
        }
        open.push((id, b));
    }
    // submit in a seeded order, from two threads
    open.shuffle(rng);
    let (a, bq): (Vec<_>, Vec<_>) = open.into_iter().enumerate().partition(|(i, _)| i % 2 == 0);
    for (_, (id, _)) in a.iter().chain(bq.iter()) {
        ev.push(json!({"e":"submit","b":id,"t":0}));
    }
    std::thread::scope(|s| {
        let wm = &wm;
        s.spawn(move || for (_, (_, b)) in a { wm.submit_write_batch(b); });
        s.spawn(move || for (_, (_, b)) in bq { wm.submit_write_batch(b); });
    });
    drop(wm);
    drop((cells, one, sets));
    drop(eng);
}

fn read_back<D: KvDatabase>(db: &D) -> Vec<Value> {
    let mut content = BTreeMap::new();
    for k in 0..NW {
        if let Some(v) = db.get_wide_column::<CellCol, Val>(&k) {
            content.insert(Cell::W(k).name(), v.0 as i64);
        }
    }
    if let Some(v) = db.get_wide_column::<OneCol, u64>(&()) {
        content.insert(Cell::One.name(), v as i64);
    }
    for k in 0..NS {
        for e in db.scan_members::<SetCol>(&k) {
            content.insert(Cell::S(k, e).name(), 1);
        }
    }
    content.into_iter().map(|(c, v)| json!({"c": c, "v": v})).collect()
}

fn one_run(backend: &str, seed: u64, run: usize, dir: &Path, out: &mut impl Write) {
    let mut rng = StdRng::seed_from_u64(seed);
    let mut ev: Vec<Value> = vec![json!({"e":"run","run":run,"mode":"backend","backend":backend,"seed":seed,"lazy":false})];
    let mut next_id = 0u32;
    let sessions = rng.gen_range(1..4);
    for _ in 0..sessions {
        match backend {
            "rocksdb" => session(RocksDB::factory(dir.to_path_buf()), &mut rng, &mut next_id, &mut ev),
            _ => session(Fjall::factory(dir.to_path_buf()), &mut rng, &mut next_id, &mut ev),
        }
    }
    ev.push(json!({"e":"drop","early":false,"panic":"","blocked":0}));
    let content = match backend {
        "rocksdb" => read_back(&RocksDB::open(dir, Plugin::default()).expect("reopen rocksdb")),
        _ => read_back(&Fjall::open(dir, Plugin::default()).expect("reopen fjall")),
    };
    ev.push(json!({"e":"final","nolog":true,"content":content,"marks":[]}));
    ev.push(json!({"e":"end"}));
    for e in ev {
        writeln!(out, "{e}").unwrap();
    }
}

fn main() {
    let a = args();
    let out_path = arg_str(&a, "out", "/dev/stdout").to_string();
    let seed = arg_u64(&a, "seed", 1);
    let runs = arg_u64(&a, "runs", 20) as usize;
    let tmp = arg_str(&a, "tmp", "/tmp").to_string();
    let mut out = std::io::BufWriter::new(std::fs::File::create(&out_path).expect("out"));
    let mut run = 0;
    for backend in arg_str(&a, "backends", "rocksdb,fjall").split(',') {
        for i in 0..runs {
            let dir = tempfile::Builder::new().prefix("vh-c10-").tempdir_in(&tmp).expect("tempdir");
            one_run(backend, seed.wrapping_mul(1_000_003).wrapping_add(i as u64), run, dir.path(), &mut out);
            run += 1;
        }
    }
    out.flush().unwrap();
    println!("{}", json!({"runs": run}));
}
