//! C07 leg over a real backend: the clean-restart histories of `eng_persist`
//! (same `Case` lines) run on the engine over `DbBacked<RocksDB>`; a restart
//! is a normal engine shutdown followed by opening the same directory again.
//! No commit gate here: the write-behind pipeline and RocksDB run at their own
//! pace, the history has one outcome because it is sequential.  The recorded
//! events use the vocabulary of `eng_persist` (judged by EngineObsTrace).

use std::{path::Path, sync::Arc, sync::atomic::Ordering};

use qbice::{
    Engine,
    storage::{
        kv_database::rocksdb::RocksDB,
        storage_engine::db_backed::{Configuration, DbBackedFactory},
    },
};
use vh::{
    dsl::{Ctx, Event, Kind, Program, write_ndjson},
    eng::{Action, Driver, RocksCfg, build_engine, shutdown},
    util::{arg_str, arg_u64, args},
};

#[derive(serde::Deserialize, serde::Serialize)]
struct Case {
    prog: Program,
    actions: Vec<Action>,
    cap: u64,
    #[serde(default)]
    grouping: u8,
    #[serde(default)]
    regime: String,
    #[serde(default)]
    crash: bool,
    #[serde(default)]
    cutseed: u64,
}

async fn open(dir: &Path, ctx: &Arc<Ctx>, cap: u64) -> Arc<Engine<RocksCfg>> {
    let f = DbBackedFactory::builder()
        .configuration(Configuration::builder().cache_capacity(cap).default_shard_amount(4).build())
        .db_factory(RocksDB::factory(dir.to_path_buf()))
        .build();
    build_engine::<RocksCfg, _>(f, ctx, None).await
}

async fn run_case(ctx: Arc<Ctx>, c: &Case, dir: &Path) -> usize {
    let mut restarts = 0;
    let engine = open(dir, &ctx, c.cap).await;
    let mut d = Driver::<RocksCfg>::new(ctx.clone(), engine);
    for a in &c.actions {
        if matches!(a, Action::Restart) {
            if d.session.is_some() {
                continue;
            }
            d.drop_handles();
            let e = d.engine.take().unwrap();
            shutdown(e).await;
            ctx.rec.push(Event::Restart);
            restarts += 1;
            d.engine = Some(open(dir, &ctx, c.cap).await);
            continue;
        }
        d.step(a).await;
    }
    d.drop_handles();
    let e = d.engine.take().unwrap();
    shutdown(e).await;
    restarts
}

fn main() {
    let a = args();
    let out = arg_str(&a, "out", "/dev/stdout").to_string();
    let work = arg_str(&a, "work", "").to_string();
    let max = arg_u64(&a, "max", u64::MAX) as usize;
    assert!(!work.is_empty(), "--work <scratch directory> is required");
    vh::util::count_panics(true);
    let rt = tokio::runtime::Builder::new_current_thread().enable_all().build().unwrap();

    let f = std::fs::read_to_string(arg_str(&a, "in", "")).expect("read --in");
    let cases: Vec<Case> =
        f.lines().filter(|l| !l.trim().is_empty()).take(max).map(|l| serde_json::from_str(l).expect("case")).collect();

    let mut all: Vec<Event> = Vec::new();
    let mut restarts = 0;
    for (k, c) in cases.iter().enumerate() {
        let dir = Path::new(&work).join(format!("db{k}"));
        let _ = std::fs::remove_dir_all(&dir);
        std::fs::create_dir_all(&dir).expect("scratch dir");
        let ctx = Ctx::new(c.prog.clone());
        for i in 0..c.prog.n() {
            if c.prog.kind(i) == Kind::Ex {
                ctx.world[i].store(0, Ordering::SeqCst);
            }
        }
        ctx.rec.push(Event::Prog { prog: c.prog.clone(), cfg: format!("rocksdb cap={}", c.cap) });
        let ctx2 = ctx.clone();
        restarts += rt.block_on(async { run_case(ctx2, c, &dir).await });
        all.extend(ctx.rec.take());
        all.push(Event::Reset);
        let _ = std::fs::remove_dir_all(&dir);
    }
    write_ndjson(Path::new(&out), &all).expect("write trace");
    eprintln!("eng_persist_real: {} cases, {} restarts, wrote {} events to {}", cases.len(), restarts, all.len(), out);
}
