//! C02 schedule replay: behaviours of specs/EngineConcGen.tla (schedules of
//! the single-flight protocol) are forced on the real engine.
//!
//! One OS thread per model task; every task blocks at the cfg-guarded points
//! of the engine (`qbice::verif::point_query`: q_start, q_fast,
//! q_scc_wait, q_lock_wait, q_publish) and at the harness-level executor
//! point (`x_exec`) until the controller grants it the next step of the
//! schedule.  After each step the point the task really reached is compared
//! with the frame TLC predicted (drift = the code left the specification;
//! from there on everything runs freely).  A step that neither reaches a
//! point nor finishes within the watchdog makes the replay let go of the
//! schedule too; only if the tasks do not complete even when running freely
//! is it a hang (no progress).
//!
//! `--in FILE`: one case per line {"deps":[[..],..],"roots":[..],"steps":[{"t","a","q","pc"},..]}
//! `--out FILE`: ndjson events for specs/EngineObsTrace.tla (values, overlap, double execution)
//! `--res FILE`: one result per case {"case","steps","followed","drift","hang"}

use std::{
    cell::Cell,
    collections::HashMap,
    io::Write,
    sync::Arc,
    time::{Duration, Instant},
};

use parking_lot::{Condvar, Mutex};
use serde_json::{Value, json};
use vh::{
    dsl::{Ctx, EXEC_POINT, Event, Item, Kind, Node, Program, write_ndjson},
    eng::{mem_engine, node_query_id, query_node, set_node, shutdown},
    util::{arg_str, arg_u64, args},
};

#[derive(serde::Deserialize, Clone, Debug)]
struct Step {
    t: usize,
    a: String,
    q: usize,
    pc: String,
}

#[derive(serde::Deserialize, Clone, Debug)]
struct Case {
    deps: Vec<Vec<usize>>,
    roots: Vec<usize>,
    steps: Vec<Step>,
}

#[derive(Clone, Debug, PartialEq)]
enum Reached {
    Point(String, usize),
    Done,
}

#[derive(Default)]
struct St {
    at: Vec<Option<Reached>>,
    grant: Vec<bool>,
    /// what the executor of the task has to do when it is let go: 0 go on, 1 panic, 2 suspend
    order: Vec<u8>,
    /// the request of the task is being abandoned: its points no longer block
    abandoning: Vec<bool>,
    free: bool,
}

struct Ctl {
    st: Mutex<St>,
    cv: Condvar,
    watchdog: Duration,
}

impl Ctl {
    /// task side: report the point and block until granted
    fn at_point(&self, task: usize, pc: &str, q: usize) -> u8 {
        let mut g = self.st.lock();
        if g.free || g.abandoning[task] {
            return 0;
        }
        g.at[task] = Some(Reached::Point(pc.to_string(), q));
        self.cv.notify_all();
        while !g.grant[task] && !g.free {
            self.cv.wait(&mut g);
        }
        g.grant[task] = false;
        if !g.free {
            g.at[task] = None;
        }
        let o = g.order[task];
        if o != 0 {
            g.abandoning[task] = true;
        }
        o
    }

    fn abandon(&self, t: usize, order: u8) {
        self.st.lock().order[t] = order;
    }

    fn done(&self, task: usize) {
        let mut g = self.st.lock();
        g.at[task] = Some(Reached::Done);
        self.cv.notify_all();
    }

    /// controller side: wait until task `t` is blocked at a point (or done)
    fn wait_for(&self, t: usize) -> Option<Reached> {
        let mut g = self.st.lock();
        let t0 = Instant::now();
        loop {
            if let Some(r) = &g.at[t] {
                return Some(r.clone());
            }
            if t0.elapsed() > self.watchdog {
                return None;
            }
            self.cv.wait_for(&mut g, Duration::from_millis(100));
        }
    }

    fn grant(&self, t: usize) {
        let mut g = self.st.lock();
        g.at[t] = None;
        g.grant[t] = true;
        self.cv.notify_all();
    }

    fn release_all(&self) {
        let mut g = self.st.lock();
        g.free = true;
        self.cv.notify_all();
    }
}

thread_local! {
    static TASK: Cell<usize> = const { Cell::new(usize::MAX) };
}

fn program(deps: &[Vec<usize>]) -> Program {
    // node i = query i (Normal, sequential reads); the last node is an input nobody reads.
    // Cyclic dependency tables (some dependency has an id >= its reader) put all reads into one
    // item: the family restriction of Program.tla (CycWellFormed) wants every item but the last
    // to read sources only.
    let cyclic = deps.iter().enumerate().any(|(i, ds)| ds.iter().any(|d| *d >= i + 1));
    let mut nodes: Vec<Node> = deps
        .iter()
        .enumerate()
        .map(|(i, ds)| Node {
            kind: Kind::Nm,
            init: (i % 3) as i64,
            code: if cyclic {
                if ds.is_empty() { vec![] } else { vec![Item { g: 0, gc: 0, mode: 0, deps: ds.clone(), w: 1, c: 1 }] }
            } else {
                ds.iter().map(|d| Item { g: 0, gc: 0, mode: 0, deps: vec![*d], w: 1, c: 1 }).collect()
            },
            post: 0,
            panic_if: -1,
        })
        .collect();
    nodes.push(Node { kind: Kind::In, init: 0, code: vec![], post: 0, panic_if: -1 });
    Program { m: 7, nodes }
}

fn pc_of_label(l: &str) -> Option<&'static str> {
    Some(match l {
        "q_start" => "start",
        "q_fast" => "fast",
        "q_scc_wait" => "scc_wait",
        "q_lock_wait" => "lock_wait",
        "q_publish" => "publish",
        _ => return None,
    })
}

fn run_case(rt: &tokio::runtime::Runtime, idx: usize, case: &Case, all: &mut Vec<Event>, watchdog: Duration) -> Value {
    let prog = program(&case.deps);
    let nq = case.deps.len();
    let ctx = Ctx::new(prog.clone());
    ctx.rec.push(Event::Prog { prog: prog.clone(), cfg: "mem conc-schedule".into() });
    let engine = rt.block_on(mem_engine(&ctx, None));
    rt.block_on(async {
        let mut s = engine.input_session().await;
        ctx.rec.push(Event::Begin);
        let r = set_node(&ctx, &mut s, nq, 1).await;
        ctx.rec.push(Event::Set { n: nq + 1, v: 1, r: format!("{r:?}") });
        s.commit().await;
        ctx.rec.push(Event::Commit);
    });
    let ids: HashMap<qbice::query::QueryID, usize> = (0..nq).map(|i| (node_query_id(&prog, i), i + 1)).collect();
    let ntasks = case.roots.len();
    let ctl = Arc::new(Ctl {
        st: Mutex::new(St {
            at: vec![None; ntasks + 1],
            grant: vec![false; ntasks + 1],
            order: vec![0; ntasks + 1],
            abandoning: vec![false; ntasks + 1],
            free: false,
        }),
        cv: Condvar::new(),
        watchdog,
    });
    {
        let ctl1 = ctl.clone();
        qbice::verif::set_hook(Some(Arc::new(move |label: &'static str| {
            let task = TASK.with(Cell::get);
            if task == usize::MAX {
                return;
            }
            let Some(pc) = pc_of_label(label) else { return };
            let q = qbice::verif::current_query().and_then(|id| ids.get(&id).copied()).unwrap_or(0);
            let _ = ctl1.at_point(task, pc, q);
        })));
        let ctl2 = ctl.clone();
        *EXEC_POINT.write() = Some(Arc::new(move |n1: usize| {
            let task = TASK.with(Cell::get);
            if task != usize::MAX { ctl2.at_point(task, "exec", n1) } else { 0 }
        }));
    }
    // tracked engines are handed out before the tasks start (no points inside)
    let tes: Vec<_> = (0..ntasks).map(|_| rt.block_on(engine.clone().tracked())).collect();
    for t in 1..=ntasks {
        ctx.rec.push(Event::Tracked { t });
    }
    let mut handles = Vec::new();
    let cancels: Vec<Arc<tokio::sync::Notify>> = (0..=ntasks).map(|_| Arc::new(tokio::sync::Notify::new())).collect();
    for (i, te) in tes.into_iter().enumerate() {
        let t = i + 1;
        let (ctl, ctx, h) = (ctl.clone(), ctx.clone(), rt.handle().clone());
        let root = case.roots[i];
        let cancel = cancels[t].clone();
        handles.push(std::thread::Builder::new().name(format!("vh_task_{t}")).spawn(move || {
            TASK.with(|c| c.set(t));
            // the request can be abandoned: its future dropped (cancel) or unwound by an executor panic
            let r = std::panic::catch_unwind(std::panic::AssertUnwindSafe(|| {
                h.block_on(async {
                    tokio::select! {
                        v = query_node(&ctx, &te, root - 1) => Some(v),
                        () = cancel.notified() => None,
                    }
                })
            }));
            match r {
                Ok(Some(v)) => ctx.rec.push(Event::Query { t, n: root, v }),
                Ok(None) => ctx.rec.push(Event::Cancel { n: root, polls: 0 }),
                Err(_) => {
                    ctx.rec.push(Event::QueryPanic { t, n: root });
                    ctx.rec.push(Event::Disarm);
                }
            }
            TASK.with(|c| c.set(usize::MAX));
            drop(te);
            ctx.rec.push(Event::Drop { t });
            ctl.done(t);
        }).unwrap());
    }
    let mut hang = false;
    let mut blocked = false;
    let mut drift = Value::Null;
    let mut followed = 0usize;
    // every task first blocks at q_start of its root
    for t in 1..=ntasks {
        match ctl.wait_for(t) {
            Some(Reached::Point(pc, q)) if pc == "start" && q == case.roots[t - 1] => {}
            Some(r) => {
                drift = json!({"at": 0, "t": t, "want": ["start", case.roots[t - 1]], "got": format!("{r:?}")});
            }
            None => blocked = true,
        }
    }
    if drift.is_null() && !blocked {
        for (k, st) in case.steps.iter().enumerate() {
            match st.a.as_str() {
                "AbandonCancel" => {
                    ctl.abandon(st.t, 2);
                    cancels[st.t].notify_one();
                }
                "AbandonPanic" => {
                    // the executor the task is suspended in (the top frame of the model) panics
                    let top = match &ctl.st.lock().at[st.t] {
                        Some(Reached::Point(_, q)) => *q,
                        _ => 0,
                    };
                    ctx.rec.push(Event::Arm { n: top });
                    ctl.abandon(st.t, 1);
                }
                _ => {}
            }
            ctl.grant(st.t);
            let want = if st.pc == "done" { Reached::Done } else { Reached::Point(st.pc.clone(), st.q) };
            match ctl.wait_for(st.t) {
                Some(r) if r == want => followed = k + 1,
                Some(r) => {
                    drift = json!({"at": k + 1, "t": st.t, "action": st.a, "want": format!("{want:?}"), "got": format!("{r:?}")});
                    break;
                }
                None => {
                    // blocked under the schedule: a hang only if it does not complete when run freely
                    blocked = true;
                    drift = json!({"at": k + 1, "t": st.t, "action": st.a, "want": format!("{want:?}"), "got": "nothing (watchdog)"});
                    break;
                }
            }
        }
    }
    // let everything run to completion
    ctl.release_all();
    let t0 = Instant::now();
    for t in 1..=ntasks {
        loop {
            let done = matches!(ctl.st.lock().at[t], Some(Reached::Done));
            if done {
                break;
            }
            if t0.elapsed() > watchdog * 2 {
                hang = true;
                break;
            }
            std::thread::sleep(Duration::from_millis(2));
        }
    }
    qbice::verif::set_hook(None);
    *EXEC_POINT.write() = None;
    if hang {
        ctx.rec.push(Event::Hang { at: followed });
        // the stuck threads (and the engine they hold) are abandoned
        std::mem::forget(handles);
        std::mem::forget(engine);
    } else {
        for h in handles {
            let _ = h.join();
        }
        rt.block_on(shutdown(engine));
    }
    all.extend(ctx.rec.take());
    all.push(Event::Reset);
    json!({"case": idx, "steps": case.steps.len(), "followed": followed, "drift": drift, "hang": hang, "blocked": blocked})
}

fn main() {
    // injected executor panics are part of the schedules: keep stderr readable
    let default_hook = std::panic::take_hook();
    std::panic::set_hook(Box::new(move |info| {
        let msg = info.payload().downcast_ref::<String>().cloned()
            .or_else(|| info.payload().downcast_ref::<&str>().map(|s| (*s).to_string())).unwrap_or_default();
        if !msg.starts_with("vh: injected") {
            default_hook(info);
        }
    }));
    let a = args();
    let input = arg_str(&a, "in", "");
    let out = arg_str(&a, "out", "/dev/null");
    let res = arg_str(&a, "res", "/dev/null");
    let watchdog = Duration::from_secs(arg_u64(&a, "watchdog", 6));
    let max_hangs = arg_u64(&a, "max-hangs", 2);
    let rt = tokio::runtime::Builder::new_multi_thread().worker_threads(2).enable_all().build().unwrap();
    let text = std::fs::read_to_string(&input).expect("read --in");
    let mut all = Vec::new();
    let mut rf = std::io::BufWriter::new(std::fs::File::create(&res).expect("create --res"));
    let (mut n, mut drifts, mut hangs) = (0u64, 0u64, 0u64);
    for (i, line) in text.lines().filter(|l| !l.trim().is_empty()).enumerate() {
        let case: Case = serde_json::from_str(line).expect("case");
        let r = run_case(&rt, i, &case, &mut all, watchdog);
        n += 1;
        if !r["drift"].is_null() {
            drifts += 1;
        }
        if r["hang"].as_bool().unwrap_or(false) {
            hangs += 1;
        }
        writeln!(rf, "{r}").unwrap();
        if hangs >= max_hangs {
            // every hang leaves stuck threads behind and costs a watchdog period: enough evidence
            break;
        }
    }
    rf.flush().unwrap();
    write_ndjson(std::path::Path::new(&out), &all).expect("write --out");
    println!("{}", json!({"cases": n, "drift": drifts, "hangs": hangs, "events": all.len()}));
}
