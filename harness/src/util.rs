//! Small helpers shared by the harness binaries.

use std::collections::HashMap;

/// `--key value` argument parsing (no external crates).
pub fn args() -> HashMap<String, String> {
    let mut m = HashMap::new();
    let a: Vec<String> = std::env::args().skip(1).collect();
    let mut i = 0;
    while i < a.len() {
        if let Some(k) = a[i].strip_prefix("--") {
            if i + 1 < a.len() && !a[i + 1].starts_with("--") {
                m.insert(k.to_string(), a[i + 1].clone());
                i += 2;
            } else {
                m.insert(k.to_string(), "1".to_string());
                i += 1;
            }
        } else {
            i += 1;
        }
    }
    m
}

pub fn arg_u64(m: &HashMap<String, String>, k: &str, d: u64) -> u64 {
    m.get(k).and_then(|v| v.parse().ok()).unwrap_or(d)
}

pub fn arg_str<'a>(m: &'a HashMap<String, String>, k: &str, d: &'a str) -> &'a str {
    m.get(k).map_or(d, String::as_str)
}

/// Install a panic hook that counts panics (the default hook still prints
/// unless `quiet`). Returns the counter.
pub fn count_panics(quiet: bool) -> std::sync::Arc<std::sync::atomic::AtomicU64> {
    let c = std::sync::Arc::new(std::sync::atomic::AtomicU64::new(0));
    let c2 = c.clone();
    let prev = std::panic::take_hook();
    std::panic::set_hook(Box::new(move |info| {
        c2.fetch_add(1, std::sync::atomic::Ordering::SeqCst);
        if !quiet {
            prev(info);
        }
    }));
    c
}
