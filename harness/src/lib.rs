//! Verification harness for Simmypeet/qbice (see /verif/DESIGN.md).
#![allow(clippy::all)]

pub mod codec;
pub mod dsl;
pub mod eng;
pub mod hist;
pub mod memkv;
pub mod util;
pub mod typeid;
