//! C14 - type and query identities (see specs/TypeId.tla, checks/c14.py).
//!
//! * the derived types of the type universe (`tools/typeid_sig.json` refers to
//!   them by path; the name the derive gives them is
//!   `"vh@0.1.0::" module_path!() "::" Name`),
//! * `eval_tree`: evaluates an identifier tree printed by TLC
//!   (`N(l,r)` / `L(name)` / `S(n)`) with the real, public
//!   `StableTypeID::from_unique_type_name` / `combine` / `from_raw_parts`,
//! * the query types of `bin/typeid_query.rs`.

use std::marker::PhantomData;

use qbice::{
    Decode, Encode, Identifiable, StableHash, TrackedEngine,
    config::Config,
    executor::Executor,
    query::Query,
    stable_type_id::StableTypeID,
};

// ---------------------------------------------------------------------------
// derived types of the universe
// ---------------------------------------------------------------------------

pub mod ma {
    use qbice::Identifiable;

    #[derive(Debug, Clone, Identifiable)]
    pub struct S;

    #[derive(Debug, Clone, Identifiable)]
    pub enum E {
        A,
        B(u8),
    }

    #[derive(Debug, Clone, Identifiable)]
    pub struct W<T>(pub T);
}

pub mod mb {
    use qbice::Identifiable;

    #[derive(Debug, Clone, Identifiable)]
    pub struct S;

    #[derive(Debug, Clone, Identifiable)]
    pub enum E {
        A,
        B(u8),
    }

    #[derive(Debug, Clone, Identifiable)]
    pub struct W<T>(pub T);
}

#[derive(Debug, Clone, Identifiable)]
pub struct Top;

#[derive(Debug, Clone, Identifiable)]
pub struct G1<T>(pub T);

#[derive(Debug, Clone, Identifiable)]
pub struct G2<A, B>(pub A, pub B);

#[derive(Debug, Clone, Identifiable)]
pub struct G3<A, B, C>(pub A, pub B, pub C);

#[derive(Debug, Clone, Identifiable)]
pub enum GE<T> {
    None,
    Some(T),
}

/// Two DISTINCT types named `Local`, declared in two function bodies of one
/// module: `module_path!()` is `vh::typeid::local` for both.
pub mod local {
    use qbice::Identifiable;

    pub trait HasLocal {
        type T: Identifiable;
    }
    pub struct TagA;
    pub struct TagB;

    #[allow(private_interfaces, dead_code, non_local_definitions)]
    pub fn scope_a() -> &'static str {
        #[derive(Debug, Clone, Identifiable)]
        pub struct Local;
        impl HasLocal for TagA {
            type T = Local;
        }
        std::any::type_name::<Local>()
    }

    #[allow(private_interfaces, dead_code, non_local_definitions)]
    pub fn scope_b() -> &'static str {
        #[derive(Debug, Clone, Identifiable)]
        pub struct Local(pub u8);
        impl HasLocal for TagB {
            type T = Local;
        }
        std::any::type_name::<Local>()
    }
}

// ---------------------------------------------------------------------------
// the scheme, evaluated with the real H and combine
// ---------------------------------------------------------------------------

fn h(name: &str) -> StableTypeID {
    // from_unique_type_name takes &'static str
    StableTypeID::from_unique_type_name(Box::leak(name.to_string().into_boxed_str()))
}

/// Evaluates `N(l,r)`, `L(name)`, `S(n)`. Leaf names contain no `(`, `)`, `,`.
pub fn eval_tree(s: &str) -> Result<StableTypeID, String> {
    fn go(b: &[u8], pos: &mut usize) -> Result<StableTypeID, String> {
        let tag = *b.get(*pos).ok_or("unexpected end")?;
        if b.get(*pos + 1) != Some(&b'(') {
            return Err(format!("expected '(' at {}", *pos + 1));
        }
        *pos += 2;
        let r = match tag {
            b'N' => {
                let l = go(b, pos)?;
                if b.get(*pos) != Some(&b',') {
                    return Err(format!("expected ',' at {pos}"));
                }
                *pos += 1;
                let r = go(b, pos)?;
                l.combine(r)
            }
            b'L' | b'S' => {
                let start = *pos;
                while *pos < b.len() && b[*pos] != b')' {
                    *pos += 1;
                }
                let txt = std::str::from_utf8(&b[start..*pos]).map_err(|e| e.to_string())?;
                if tag == b'L' {
                    h(txt)
                } else {
                    let n: u64 = txt.parse().map_err(|_| format!("bad size {txt}"))?;
                    unsafe { StableTypeID::from_raw_parts(n, 0) }
                }
            }
            x => return Err(format!("bad tag {}", x as char)),
        };
        if b.get(*pos) != Some(&b')') {
            return Err(format!("expected ')' at {pos}"));
        }
        *pos += 1;
        Ok(r)
    }
    let mut pos = 0;
    let r = go(s.as_bytes(), &mut pos)?;
    if pos != s.len() {
        return Err(format!("trailing input at {pos}"));
    }
    Ok(r)
}

/// One row of the generated table of `bin/typeid_terms.rs`.
pub struct TermRow {
    pub term: &'static str,
    pub tree: &'static str,
    pub rust: &'static str,
    pub id: u128,
}

/// Prints the table as ndjson (one process = one run).
pub fn dump_terms(rows: &[TermRow], out: &str, run: u64) -> std::io::Result<()> {
    use std::io::Write;
    let mut f = std::io::BufWriter::new(std::fs::File::create(out)?);
    for r in rows {
        let scheme = match eval_tree(r.tree) {
            Ok(x) => format!("{:032x}", x.as_u128()),
            Err(e) => format!("error: {e}"),
        };
        writeln!(
            f,
            "{}",
            serde_json::json!({"k": "type", "run": run, "term": r.term, "tree": r.tree, "rust": r.rust,
                               "id": format!("{:032x}", r.id), "scheme": scheme})
        )?;
    }
    writeln!(
        f,
        "{}",
        serde_json::json!({"k": "end", "run": run, "pid": std::process::id(), "n": rows.len(),
                           "local_a": local::scope_a(), "local_b": local::scope_b(),
                           "cwd": std::env::current_dir().map(|p| p.display().to_string()).unwrap_or_default()})
    )?;
    f.flush()
}

// ---------------------------------------------------------------------------
// query types (bin/typeid_query.rs)
// ---------------------------------------------------------------------------

macro_rules! q {
    ($(#[$m:meta])* $v:vis struct $name:ident $(<$($g:ident),*>)? ($($f:ty),*)) => {
        $(#[$m])*
        #[derive(Debug, Clone, PartialEq, Eq, Hash, StableHash, Encode, Decode, Identifiable)]
        $v struct $name $(<$($g),*>)? ($(pub $f),*);
    };
}

q!(pub struct QA(u16));
q!(pub struct QB(u16));
q!(pub struct QU64(u64));
q!(pub struct QStr(String));
q!(pub struct QPair(String, String));
q!(pub struct QVecs(Vec<u8>, Vec<u8>));
q!(pub struct QBytes(Vec<u8>));
q!(pub struct QOpt(Option<Option<u8>>));
q!(pub struct QNest((u8, (u8, u8)), Vec<Vec<u8>>));
/// differs from `GQ<i16>` only in the type argument (same key bytes)
q!(pub struct GQ<T>(T));
/// differs only in a phantom type argument
q!(pub struct PQ<M>(u16, PhantomData<M>));

pub mod qa {
    use qbice::{Decode, Encode, Identifiable, StableHash};
    #[derive(Debug, Clone, PartialEq, Eq, Hash, StableHash, Encode, Decode, Identifiable)]
    pub struct Q(pub u16);
    #[derive(Debug, Clone, PartialEq, Eq, Hash, StableHash, Encode, Decode, Identifiable)]
    pub struct M;
}
pub mod qb {
    use qbice::{Decode, Encode, Identifiable, StableHash};
    #[derive(Debug, Clone, PartialEq, Eq, Hash, StableHash, Encode, Decode, Identifiable)]
    pub struct Q(pub u16);
    #[derive(Debug, Clone, PartialEq, Eq, Hash, StableHash, Encode, Decode, Identifiable)]
    pub struct M;
}

macro_rules! simple_query {
    ($($t:ty),* $(,)?) => { $( impl Query for $t { type Value = String; } )* };
}
simple_query!(QA, QB, QU64, QStr, QPair, QVecs, QBytes, QOpt, QNest, qa::Q, qb::Q);
simple_query!(GQ<u16>, GQ<i16>, PQ<qa::M>, PQ<qb::M>);

/// The value of every harness query: its own type name and key, prefixed by a
/// per-run tag - whoever receives it can tell which (type, key, run) produced it.
#[derive(Debug, Clone)]
pub struct Exec {
    pub tag: String,
    pub runs: std::sync::Arc<std::sync::atomic::AtomicU64>,
}

impl<Q: Query<Value = String>, C: Config> Executor<Q, C> for Exec {
    async fn execute(&self, query: &Q, _engine: &TrackedEngine<C>) -> String {
        self.runs.fetch_add(1, std::sync::atomic::Ordering::SeqCst);
        format!("{}|{}|{:?}", self.tag, std::any::type_name::<Q>(), query)
    }
}

// ---------------------------------------------------------------------------
// type-erased query cases
// ---------------------------------------------------------------------------

use std::{future::Future, pin::Pin, sync::Arc};

use qbice::{
    Engine,
    query::QueryID,
    stable_hash::{BuildStableHasher, SeededStableHasherBuilder, Sip128Hasher, StableHasher},
};

use crate::eng::KvCfg;

/// The id of `q` computed the way `Engine::new_query_with_id` does: the
/// engine's stable hasher (same builder, same seed) over the key, plus the
/// stable type id of the query type.
pub fn query_id<Q: Query>(q: &Q, hseed: u64) -> QueryID {
    let b = SeededStableHasherBuilder::<Sip128Hasher>::new(hseed);
    let mut h = b.build_stable_hasher();
    q.stable_hash(&mut h);
    QueryID::new::<Q>(h.finish().into())
}

pub trait AnyQ: Send + Sync {
    /// `std::any::type_name` of the query type: distinct for distinct Rust types.
    fn ty(&self) -> String;
    fn key(&self) -> String;
    fn id(&self, hseed: u64) -> QueryID;
    fn register(&self, engine: &mut Engine<KvCfg>, exec: &Exec);
    fn query<'a>(&'a self, te: &'a TrackedEngine<KvCfg>) -> Pin<Box<dyn Future<Output = String> + 'a>>;
}

pub struct W<Q>(pub Q);

pub fn clean(s: &str) -> String {
    s.chars()
        .map(|c| match c {
            '"' => '\'',
            '\\' => '/',
            '|' => '!',
            c if c.is_control() => '?',
            c => c,
        })
        .collect()
}

impl<Q: Query<Value = String>> AnyQ for W<Q> {
    fn ty(&self) -> String { std::any::type_name::<Q>().to_string() }

    fn key(&self) -> String { clean(&format!("{:?}", self.0)) }

    fn id(&self, hseed: u64) -> QueryID { query_id(&self.0, hseed) }

    fn register(&self, engine: &mut Engine<KvCfg>, exec: &Exec) {
        engine.register_executor::<Q, Exec>(Arc::new(exec.clone()));
    }

    fn query<'a>(&'a self, te: &'a TrackedEngine<KvCfg>) -> Pin<Box<dyn Future<Output = String> + 'a>> {
        Box::pin(async move { te.query(&self.0).await })
    }
}

pub fn case<Q: Query<Value = String>>(q: Q) -> Box<dyn AnyQ> { Box::new(W(q)) }

/// Two DISTINCT query types named `LocalQ`, local to two functions.
pub mod lq {
    use qbice::{Decode, Encode, Identifiable, StableHash, query::Query};

    use super::{AnyQ, case};

    pub fn scope_a(k: u16) -> Box<dyn AnyQ> {
        #[derive(Debug, Clone, PartialEq, Eq, Hash, StableHash, Encode, Decode, Identifiable)]
        struct LocalQ(u16);
        impl Query for LocalQ {
            type Value = String;
        }
        case(LocalQ(k))
    }

    pub fn scope_b(k: u16) -> Box<dyn AnyQ> {
        #[derive(Debug, Clone, PartialEq, Eq, Hash, StableHash, Encode, Decode, Identifiable)]
        struct LocalQ(u16);
        impl Query for LocalQ {
            type Value = String;
        }
        case(LocalQ(k))
    }
}

/// The query universe of `bin/typeid_query.rs`.
pub fn query_cases(with_local: bool) -> Vec<Box<dyn AnyQ>> {
    let s = |x: &str| x.to_string();
    let mut v: Vec<Box<dyn AnyQ>> = vec![
        // different types, equal key values
        case(QA(0)), case(QA(1)), case(QA(256)), case(QB(0)), case(QB(1)), case(QB(256)),
        case(qa::Q(1)), case(qb::Q(1)),
        case(GQ::<u16>(1)), case(GQ::<i16>(1)), case(GQ::<u16>(0)), case(GQ::<i16>(0)),
        case(PQ::<qa::M>(1, PhantomData)), case(PQ::<qb::M>(1, PhantomData)),
        // one type, keys that are zero / extreme / byte-shifted
        case(QU64(0)), case(QU64(1)), case(QU64(256)), case(QU64(1 << 32)), case(QU64(u64::MAX)),
        // empty / prefix related strings
        case(QStr(s(""))), case(QStr(s("a"))), case(QStr(s("ab"))), case(QStr(s("a\0"))), case(QStr(s("\0"))),
        case(QPair(s(""), s(""))), case(QPair(s("ab"), s("c"))), case(QPair(s("a"), s("bc"))),
        case(QPair(s("abc"), s(""))), case(QPair(s(""), s("abc"))),
        // same flattening, different grouping
        case(QVecs(vec![1, 2], vec![3])), case(QVecs(vec![1], vec![2, 3])), case(QVecs(vec![1, 2, 3], vec![])),
        case(QVecs(vec![], vec![1, 2, 3])), case(QVecs(vec![], vec![])),
        case(QBytes(vec![])), case(QBytes(vec![0])), case(QBytes(vec![0, 0])), case(QBytes(vec![1, 2, 3])),
        case(QOpt(None)), case(QOpt(Some(None))), case(QOpt(Some(Some(0)))), case(QOpt(Some(Some(1)))),
        case(QNest((1, (2, 3)), vec![vec![1, 2], vec![3]])), case(QNest((1, (2, 3)), vec![vec![1], vec![2, 3]])),
        case(QNest((1, (2, 3)), vec![vec![1, 2, 3]])), case(QNest((1, (2, 3)), vec![vec![], vec![1, 2, 3]])),
        case(QNest((1, (2, 3)), vec![])), case(QNest((3, (2, 1)), vec![])),
    ];
    if with_local {
        v.push(lq::scope_a(1));
        v.push(lq::scope_b(1));
        v.push(lq::scope_a(2));
    }
    v
}
