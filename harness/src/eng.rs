//! Engine configurations and the action driver.

use std::sync::{Arc, atomic::Ordering};

use qbice::{
    Engine, Identifiable, InputSession, TrackedEngine,
    config::Config,
    engine::{EngineOptions, YieldFrequency},
    serialize::Plugin,
    stable_hash::{SeededStableHasherBuilder, Sip128Hasher},
    storage::storage_engine::{
        StorageEngineFactory,
        db_backed::{Configuration, DbBacked, DbBackedFactory},
        in_memory::{InMemoryStorageEngine, InMemoryStorageEngineFactory},
    },
};
use futures::FutureExt;
use serde::{Deserialize, Serialize};

use crate::{
    dsl::{Ctx, Event, Ex, ExExec, Fw, FwExec, In, InExec, Kind, Nm, NmExec, Pj, PjExec, read},
    memkv::{MemKv, MemKvFactory, Store},
};

macro_rules! config_type {
    ($name:ident, $se:ty) => {
        #[derive(
            Debug, Clone, Copy, PartialEq, Eq, PartialOrd, Ord, Hash, Default, Identifiable,
        )]
        pub struct $name;

        impl Config for $name {
            type StorageEngine = $se;
            type BuildStableHasher = SeededStableHasherBuilder<Sip128Hasher>;
            type BuildHasher = fxhash::FxBuildHasher;
        }
    };
}

config_type!(MemCfg, InMemoryStorageEngine);
config_type!(KvCfg, DbBacked<MemKv>);
#[cfg(feature = "backends")]
config_type!(RocksCfg, DbBacked<qbice::storage::kv_database::rocksdb::RocksDB>);
#[cfg(feature = "backends")]
config_type!(FjallCfg, DbBacked<qbice::storage::kv_database::fjall::Fjall>);

pub const HASH_SEED: u64 = 0;

pub async fn build_engine<C, F>(factory: F, ctx: &Arc<Ctx>, yield_every: Option<usize>) -> Arc<Engine<C>>
where
    C: Config<BuildStableHasher = SeededStableHasherBuilder<Sip128Hasher>>,
    F: StorageEngineFactory<StorageEngine = C::StorageEngine>,
    F::Error: std::fmt::Debug,
{
    let opts = EngineOptions::builder()
        .yield_frequency(match yield_every {
            Some(n) => YieldFrequency::EveryNQuery(n),
            None => YieldFrequency::Never,
        })
        .build();
    let mut engine = Engine::<C>::new_with_options()
        .serialization_plugin(Plugin::default())
        .storage_engine_factory(factory)
        .stable_hasher(SeededStableHasherBuilder::<Sip128Hasher>::new(HASH_SEED))
        .options(opts)
        .build()
        .await
        .expect("engine open");
    engine.register_executor::<In, _>(Arc::new(InExec(ctx.clone())));
    engine.register_executor::<Nm, _>(Arc::new(NmExec(ctx.clone())));
    engine.register_executor::<Fw, _>(Arc::new(FwExec(ctx.clone())));
    engine.register_executor::<Pj, _>(Arc::new(PjExec(ctx.clone())));
    engine.register_executor::<Ex, _>(Arc::new(ExExec(ctx.clone())));
    if ctx.cyc_events.load(std::sync::atomic::Ordering::SeqCst) {
        let ids: std::collections::HashMap<qbice::query::QueryID, usize> =
            (0..ctx.prog.n()).map(|i| (node_query_id(&ctx.prog, i), i + 1)).collect();
        let ctx2 = ctx.clone();
        qbice::verif::set_cycle_hook(Some(Arc::new(move |p: &qbice::verif::CycleProbe| {
            let n = |q: &qbice::query::QueryID| ids.get(q).copied().unwrap_or(0);
            ctx2.rec.push(crate::dsl::Event::Cyc {
                callee: n(&p.callee),
                target: n(&p.target),
                edges: p.edges.iter().map(|(a, bs)| (n(a), bs.iter().map(&n).collect())).collect(),
                found: p.found,
            });
        })));
    } else {
        qbice::verif::set_cycle_hook(None);
    }
    Arc::new(engine)
}

pub async fn mem_engine(ctx: &Arc<Ctx>, yield_every: Option<usize>) -> Arc<Engine<MemCfg>> {
    build_engine::<MemCfg, _>(InMemoryStorageEngineFactory, ctx, yield_every).await
}

pub async fn kv_engine(
    ctx: &Arc<Ctx>,
    store: &Arc<Store>,
    cache_capacity: u64,
    yield_every: Option<usize>,
) -> Arc<Engine<KvCfg>> {
    build_engine::<KvCfg, _>(
        DbBackedFactory::builder()
            .configuration(
                Configuration::builder()
                    .cache_capacity(cache_capacity)
                    .default_shard_amount(4)
                    .build(),
            )
            .db_factory(MemKvFactory { store: store.clone() })
            .build(),
        ctx,
        yield_every,
    )
    .await
}

/// Drop an engine and wait until every clone of it is gone (spawned
/// publication tasks may still hold one for a moment).
pub async fn shutdown<C: Config>(engine: Arc<Engine<C>>) {
    let mut engine = engine;
    for _ in 0..10_000 {
        match Arc::try_unwrap(engine) {
            Ok(e) => {
                // Database::drop blocks on spawn_blocking tasks; run it off
                // the async workers.
                tokio::task::spawn_blocking(move || drop(e)).await.expect("drop engine");
                return;
            }
            Err(e) => {
                engine = e;
                tokio::task::yield_now().await;
                tokio::time::sleep(std::time::Duration::from_micros(200)).await;
            }
        }
    }
    panic!("vh: engine still shared after waiting; cannot shut down cleanly");
}

// ---------------------------------------------------------------------------
// actions
// ---------------------------------------------------------------------------

#[derive(Debug, Clone, PartialEq, Serialize, Deserialize)]
#[serde(tag = "a")]
pub enum Action {
    /// open an input session
    #[serde(rename = "begin")]
    Begin,
    #[serde(rename = "set")]
    Set { n: usize, v: i64 },
    /// change the outside world seen by external node n
    #[serde(rename = "world")]
    World { n: usize, v: i64 },
    /// refresh all external inputs in the open session
    #[serde(rename = "refresh")]
    Refresh,
    #[serde(rename = "commit")]
    Commit,
    /// obtain a fresh tracked engine for slot t (default slot 0 is renewed
    /// automatically after each commit)
    #[serde(rename = "tracked")]
    Tracked { t: usize },
    #[serde(rename = "query")]
    Query {
        #[serde(default)]
        t: usize,
        n: usize,
    },
    #[serde(rename = "restart")]
    Restart,
}

pub async fn query_node<C: Config>(ctx: &Ctx, te: &TrackedEngine<C>, n: usize) -> i64 {
    read(ctx, te, n).await
}

pub async fn set_node<C: Config>(
    ctx: &Ctx,
    s: &mut InputSession<C>,
    n: usize,
    v: i64,
) -> qbice::SetInputResult {
    // a value may also be committed for a query that an executor computed so far ("pinning"): the query is an
    // input from then on
    match ctx.prog.kind(n) {
        Kind::In => s.set_input(In(n as u16), v).await,
        Kind::Nm => s.set_input(Nm(n as u16), v).await,
        k => panic!("set on a node of kind {k:?}"),
    }
}

/// The engine's id of program node `i` (same hasher seed as the engine).
pub fn node_query_id(prog: &crate::dsl::Program, i: usize) -> qbice::query::QueryID {
    use qbice::stable_hash::{BuildStableHasher, StableHash, StableHasher};
    fn id<Q: qbice::query::Query>(q: &Q) -> qbice::query::QueryID {
        let b = SeededStableHasherBuilder::<Sip128Hasher>::new(HASH_SEED);
        let mut h = b.build_stable_hasher();
        q.stable_hash(&mut h);
        qbice::query::QueryID::new::<Q>(h.finish().into())
    }
    let k = i as u16;
    match prog.kind(i) {
        Kind::In => id(&In(k)),
        Kind::Nm => id(&Nm(k)),
        Kind::Fw => id(&Fw(k)),
        Kind::Pj => id(&Pj(k)),
        Kind::Ex => id(&Ex(k)),
    }
}

/// Sequential driver state over one engine.
pub struct Driver<C: Config> {
    pub ctx: Arc<Ctx>,
    pub engine: Option<Arc<Engine<C>>>,
    pub session: Option<InputSession<C>>,
    pub tracked: Vec<Option<TrackedEngine<C>>>,
}

impl<C: Config> Driver<C> {
    pub fn new(ctx: Arc<Ctx>, engine: Arc<Engine<C>>) -> Self {
        Self { ctx, engine: Some(engine), session: None, tracked: vec![None, None, None, None] }
    }

    pub fn engine(&self) -> &Arc<Engine<C>> { self.engine.as_ref().expect("engine") }

    /// Executes one action (everything but `Restart`, which needs the
    /// backend-specific reopen and is handled by the caller).
    pub async fn step(&mut self, a: &Action) {
        let ctx = self.ctx.clone();
        match a {
            Action::Begin => {
                // tracked engines hold the phase read lock: drop them first
                self.drop_tracked();
                assert!(self.session.is_none());
                self.session = Some(self.engine().input_session().await);
                ctx.rec.push(Event::Begin);
            }
            Action::Set { n, v } => {
                let s = self.session.as_mut().expect("open session");
                let r = set_node(&ctx, s, n - 1, *v).await;
                ctx.rec.push(Event::Set { n: *n, v: *v, r: format!("{r:?}") });
            }
            Action::World { n, v } => {
                ctx.world[n - 1].store(*v, Ordering::SeqCst);
                ctx.rec.push(Event::World { n: *n, v: *v });
            }
            Action::Refresh => {
                let s = self.session.as_mut().expect("open session");
                ctx.rec.push(Event::RefreshStart);
                s.refresh::<Ex>().await;
                ctx.rec.push(Event::Refresh);
            }
            Action::Commit => {
                let s = self.session.take().expect("open session");
                s.commit().await;
                ctx.rec.push(Event::Commit);
            }
            Action::Tracked { t } => {
                if self.tracked[*t].is_some() {
                    ctx.rec.push(Event::Drop { t: *t });
                    self.tracked[*t] = None;
                }
                let te = self.engine().clone().tracked().await;
                self.tracked[*t] = Some(te);
                ctx.rec.push(Event::Tracked { t: *t });
            }
            Action::Query { t, n } => {
                if self.tracked[*t].is_none() {
                    let te = self.engine().clone().tracked().await;
                    self.tracked[*t] = Some(te);
                    ctx.rec.push(Event::Tracked { t: *t });
                }
                let te = self.tracked[*t].as_ref().unwrap();
                // a panic that reaches the user is data (C05/C06), not a harness crash
                match std::panic::AssertUnwindSafe(query_node(&ctx, te, n - 1)).catch_unwind().await {
                    Ok(v) => ctx.rec.push(Event::Query { t: *t, n: *n, v }),
                    Err(_) => ctx.rec.push(Event::QueryPanic { t: *t, n: *n }),
                }
            }
            Action::Restart => unreachable!("restart handled by caller"),
        }
    }

    /// Record what the engine has stored about every node (drift
    /// measurement against specs/EngineSeq.tla; never a verdict).
    pub async fn dump_all(&self) {
        let prog = &self.ctx.prog;
        let ids: Vec<_> = (0..prog.n()).map(|i| node_query_id(prog, i)).collect();
        let node_of = |q: &qbice::query::QueryID| ids.iter().position(|x| x == q).map_or(0, |p| p + 1);
        for i in 0..prog.n() {
            let d = self.engine().verif_dump(&ids[i]).await;
            let mut tfc: Vec<usize> = d.transitive_firewall_callees.iter().map(node_of).collect();
            let mut dirty: Vec<usize> = d.dirty.iter().map(node_of).collect();
            let mut back: Vec<usize> = d.backward.iter().map(node_of).collect();
            tfc.sort_unstable();
            dirty.sort_unstable();
            back.sort_unstable();
            self.ctx.rec.push(Event::Dump {
                n: i + 1,
                lv: d.last_verified.map_or(-1, |x| x as i64),
                cur: d.current_timestamp as i64,
                fwd: d.forward.iter().map(node_of).collect(),
                tfc,
                dirty,
                back,
                pbp: d.pending_backward_projection.map_or(-1, |x| x as i64),
            });
        }
    }

    pub fn drop_tracked(&mut self) {
        for (i, t) in self.tracked.iter_mut().enumerate() {
            if t.is_some() {
                // logged before the handle is really dropped (see DESIGN 5/C04)
                self.ctx.rec.push(Event::Drop { t: i });
                *t = None;
            }
        }
    }

    pub fn drop_handles(&mut self) {
        self.session = None;
        self.drop_tracked();
    }
}
