//! `MemKv`: an in-process implementation of the public `KvDatabase` trait.
//!
//! It is the harness' reference key-value store: every physical commit is
//! applied atomically and appended to an ordered log, the commit can be gated
//! by the driver, reads can be stalled *after* the value was read (the window
//! between a cache miss and the cache fill), and a store can be rebuilt from
//! any prefix of the log (crash cuts).

use std::{
    collections::{BTreeMap, BTreeSet},
    marker::PhantomData,
    sync::{
        Arc,
        atomic::{AtomicU64, AtomicUsize, Ordering},
    },
};

use parking_lot::{Condvar, Mutex};
use qbice_serialize::{
    Decode, Decoder, Encode, Encoder, Plugin, PostcardDecoder, PostcardEncoder,
};
use qbice_stable_type_id::Identifiable;
use qbice_storage::kv_database::{
    DiscriminantEncoding, KeyOfSetColumn, KvDatabase, KvDatabaseFactory,
    SerializationBuffer, WideColumn, WideColumnValue, WriteBatch,
};

/// Identifies a wide-column cell: column type id, discriminant bytes, key
/// bytes (kept separate on purpose: the reference store must not depend on
/// how a backend concatenates them).
pub type WideKey = (u128, Vec<u8>, Vec<u8>);
/// Identifies a set: column type id, key bytes.
pub type SetKey = (u128, Vec<u8>);

#[derive(Debug, Clone, PartialEq, Eq, serde::Serialize, serde::Deserialize)]
pub enum Op {
    Put { k: WideKey, v: Vec<u8> },
    Del { k: WideKey },
    Ins { k: SetKey, e: Vec<u8> },
    Rem { k: SetKey, e: Vec<u8> },
}

#[derive(Debug, Clone, Default, PartialEq, Eq)]
pub struct Content {
    pub wide: BTreeMap<WideKey, Vec<u8>>,
    pub sets: BTreeMap<SetKey, BTreeSet<Vec<u8>>>,
}

impl Content {
    pub fn apply(&mut self, op: &Op) {
        match op {
            Op::Put { k, v } => {
                self.wide.insert(k.clone(), v.clone());
            }
            Op::Del { k } => {
                self.wide.remove(k);
            }
            Op::Ins { k, e } => {
                self.sets.entry(k.clone()).or_default().insert(e.clone());
            }
            Op::Rem { k, e } => {
                if let Some(s) = self.sets.get_mut(k) {
                    s.remove(e);
                    if s.is_empty() {
                        self.sets.remove(k);
                    }
                }
            }
        }
    }

    pub fn from_commits<'a>(
        commits: impl IntoIterator<Item = &'a PhysicalCommit>,
    ) -> Self {
        let mut c = Self::default();
        for pc in commits {
            for op in &pc.ops {
                c.apply(op);
            }
        }
        c
    }
}

/// One physical commit: the ops of `groups` logical serialization buffers,
/// in consumption order.
#[derive(Debug, Clone, Default, PartialEq, Eq)]
pub struct PhysicalCommit {
    pub ops: Vec<Op>,
    /// number of ops contributed by each consumed serialization buffer
    pub groups: Vec<usize>,
}

/// How the store decides `should_write_more` (= keep grouping logical batches
/// into the current physical batch).
#[derive(Debug, Clone, Copy, PartialEq, Eq)]
pub enum Grouping {
    /// every logical batch is its own physical commit
    One,
    /// group up to `n` logical batches
    UpTo(usize),
    /// group everything until shutdown
    All,
    /// pseudo random group sizes 1..=n derived from the seed
    Seeded(u64, usize),
}

type ReadHook = Arc<dyn Fn(&ReadEvent) + Send + Sync>;

#[derive(Debug, Clone)]
pub enum ReadEvent {
    Wide { key: WideKey, found: bool },
    Scan { key: SetKey, n: usize },
}

pub struct Store {
    pub content: Mutex<Content>,
    pub log: Mutex<Vec<PhysicalCommit>>,
    pub grouping: Mutex<Grouping>,
    group_counter: AtomicU64,
    /// commit gate: when `Some(n)`, at most `n` further commits may proceed.
    gate: Mutex<Option<usize>>,
    gate_cv: Condvar,
    pub commits_waiting: AtomicUsize,
    read_hook: Mutex<Option<ReadHook>>,
    pub reads: AtomicU64,
}

impl std::fmt::Debug for Store {
    fn fmt(&self, f: &mut std::fmt::Formatter<'_>) -> std::fmt::Result {
        f.debug_struct("Store").finish_non_exhaustive()
    }
}

impl Store {
    pub fn new(grouping: Grouping) -> Arc<Self> {
        Arc::new(Self {
            content: Mutex::new(Content::default()),
            log: Mutex::new(Vec::new()),
            grouping: Mutex::new(grouping),
            group_counter: AtomicU64::new(0),
            gate: Mutex::new(None),
            gate_cv: Condvar::new(),
            commits_waiting: AtomicUsize::new(0),
            read_hook: Mutex::new(None),
            reads: AtomicU64::new(0),
        })
    }

    /// A fresh store whose content is the result of the first `n` physical
    /// commits of `log` (crash cut).
    pub fn from_prefix(log: &[PhysicalCommit], n: usize, g: Grouping) -> Arc<Self> {
        let s = Self::new(g);
        *s.content.lock() = Content::from_commits(&log[..n]);
        *s.log.lock() = log[..n].to_vec();
        s
    }

    pub fn snapshot(&self) -> Content { self.content.lock().clone() }

    pub fn log_snapshot(&self) -> Vec<PhysicalCommit> { self.log.lock().clone() }

    pub fn set_read_hook(&self, h: Option<ReadHook>) { *self.read_hook.lock() = h; }

    /// Close the gate: commits block until `allow` is called.
    pub fn gate_close(&self) { *self.gate.lock() = Some(0); }

    /// Let `n` more commits through a closed gate.
    pub fn gate_allow(&self, n: usize) {
        let mut g = self.gate.lock();
        if let Some(x) = g.as_mut() {
            *x += n;
        }
        self.gate_cv.notify_all();
    }

    /// Open the gate entirely.
    pub fn gate_open(&self) {
        *self.gate.lock() = None;
        self.gate_cv.notify_all();
    }

    fn pass_gate(&self) {
        let mut g = self.gate.lock();
        self.commits_waiting.fetch_add(1, Ordering::SeqCst);
        loop {
            match g.as_mut() {
                None => break,
                Some(n) if *n > 0 => {
                    *n -= 1;
                    break;
                }
                Some(_) => self.gate_cv.wait(&mut g),
            }
        }
        self.commits_waiting.fetch_sub(1, Ordering::SeqCst);
    }

    fn commit(&self, pc: PhysicalCommit) {
        if pc.ops.is_empty() && pc.groups.is_empty() {
            // the commit worker always commits a (possibly empty) trailing
            // batch at shutdown; it carries no information
            return;
        }
        self.pass_gate();
        let mut content = self.content.lock();
        for op in &pc.ops {
            content.apply(op);
        }
        self.log.lock().push(pc);
    }

    fn group_limit(&self) -> usize {
        match *self.grouping.lock() {
            Grouping::One => 1,
            Grouping::UpTo(n) => n.max(1),
            Grouping::All => usize::MAX,
            Grouping::Seeded(seed, n) => {
                let c = self.group_counter.load(Ordering::SeqCst);
                let mut x = seed ^ c.wrapping_mul(0x9E37_79B9_7F4A_7C15);
                x ^= x >> 31;
                x = x.wrapping_mul(0xBF58_476D_1CE4_E5B9);
                x ^= x >> 29;
                1 + (x as usize) % n.max(1)
            }
        }
    }
}

#[derive(Clone)]
pub struct MemKv {
    pub store: Arc<Store>,
    plugin: Arc<Plugin>,
}

impl std::fmt::Debug for MemKv {
    fn fmt(&self, f: &mut std::fmt::Formatter<'_>) -> std::fmt::Result {
        f.debug_struct("MemKv").finish_non_exhaustive()
    }
}

impl MemKv {
    pub fn new(store: Arc<Store>, plugin: Plugin) -> Self {
        Self { store, plugin: Arc::new(plugin) }
    }
}

pub fn enc<T: Encode>(plugin: &Plugin, v: &T) -> Vec<u8> {
    let mut buf = Vec::new();
    let mut e = PostcardEncoder::new(&mut buf);
    e.encode(v, plugin).expect("encode");
    buf
}

pub fn dec<T: Decode>(plugin: &Plugin, b: &[u8]) -> T {
    let mut d = PostcardDecoder::new(std::io::Cursor::new(b));
    d.decode::<T>(plugin).expect("decode")
}

fn wide_key<W: WideColumn, C: WideColumnValue<W>>(
    plugin: &Plugin,
    key: &W::Key,
) -> WideKey {
    // the encoding mode only matters to backends that concatenate
    let _ = W::discriminant_encoding() == DiscriminantEncoding::Prefixed;
    (W::STABLE_TYPE_ID.as_u128(), enc(plugin, &C::discriminant()), enc(plugin, key))
}

fn set_key<C: KeyOfSetColumn>(plugin: &Plugin, key: &C::Key) -> SetKey {
    (<C as Identifiable>::STABLE_TYPE_ID.as_u128(), enc(plugin, key))
}

#[derive(Debug)]
pub struct MemSerBuf {
    ops: Vec<Op>,
    plugin: Arc<Plugin>,
}

impl SerializationBuffer for MemSerBuf {
    fn put<W: WideColumn, C: WideColumnValue<W>>(&mut self, key: &W::Key, value: &C) {
        self.ops.push(Op::Put {
            k: wide_key::<W, C>(&self.plugin, key),
            v: enc(&self.plugin, value),
        });
    }

    fn delete<W: WideColumn, C: WideColumnValue<W>>(&mut self, key: &W::Key) {
        self.ops.push(Op::Del { k: wide_key::<W, C>(&self.plugin, key) });
    }

    fn insert_member<C: KeyOfSetColumn>(&mut self, key: &C::Key, value: &C::Element) {
        self.ops.push(Op::Ins {
            k: set_key::<C>(&self.plugin, key),
            e: enc(&self.plugin, value),
        });
    }

    fn delete_member<C: KeyOfSetColumn>(&mut self, key: &C::Key, value: &C::Element) {
        self.ops.push(Op::Rem {
            k: set_key::<C>(&self.plugin, key),
            e: enc(&self.plugin, value),
        });
    }
}

#[derive(Debug)]
pub struct MemBatch {
    store: Arc<Store>,
    plugin: Arc<Plugin>,
    pc: PhysicalCommit,
    limit: usize,
}

impl WriteBatch for MemBatch {
    type SerializationBuffer = MemSerBuf;

    fn put<W: WideColumn, C: WideColumnValue<W>>(&mut self, key: &W::Key, value: &C) {
        self.pc.ops.push(Op::Put {
            k: wide_key::<W, C>(&self.plugin, key),
            v: enc(&self.plugin, value),
        });
    }

    fn delete<W: WideColumn, C: WideColumnValue<W>>(&mut self, key: &W::Key) {
        self.pc.ops.push(Op::Del { k: wide_key::<W, C>(&self.plugin, key) });
    }

    fn insert_member<C: KeyOfSetColumn>(&mut self, key: &C::Key, value: &C::Element) {
        self.pc.ops.push(Op::Ins {
            k: set_key::<C>(&self.plugin, key),
            e: enc(&self.plugin, value),
        });
    }

    fn delete_member<C: KeyOfSetColumn>(&mut self, key: &C::Key, value: &C::Element) {
        self.pc.ops.push(Op::Rem {
            k: set_key::<C>(&self.plugin, key),
            e: enc(&self.plugin, value),
        });
    }

    fn consume_serialization_buffer(&mut self, buffer: Self::SerializationBuffer) {
        self.pc.groups.push(buffer.ops.len());
        self.pc.ops.extend(buffer.ops);
    }

    fn commit(self) { self.store.commit(self.pc); }

    fn should_write_more(&self) -> bool { self.pc.groups.len() < self.limit }
}

pub struct MemScan<C: KeyOfSetColumn> {
    items: std::vec::IntoIter<Vec<u8>>,
    plugin: Arc<Plugin>,
    _m: PhantomData<fn() -> C>,
}

impl<C: KeyOfSetColumn> Iterator for MemScan<C> {
    type Item = C::Element;

    fn next(&mut self) -> Option<Self::Item> {
        self.items.next().map(|b| dec::<C::Element>(&self.plugin, &b))
    }
}

impl KvDatabase for MemKv {
    type WriteBatch = MemBatch;
    type SerializationBuffer = MemSerBuf;
    type ScanMemberIterator<C: KeyOfSetColumn> = MemScan<C>;

    fn get_wide_column<W: WideColumn, C: WideColumnValue<W>>(
        &self,
        key: &W::Key,
    ) -> Option<C> {
        let k = wide_key::<W, C>(&self.plugin, key);
        let bytes = self.store.content.lock().wide.get(&k).cloned();
        self.store.reads.fetch_add(1, Ordering::Relaxed);
        let hook = self.store.read_hook.lock().clone();
        if let Some(h) = hook {
            h(&ReadEvent::Wide { key: k, found: bytes.is_some() });
        }
        bytes.map(|b| dec::<C>(&self.plugin, &b))
    }

    fn scan_members<C: KeyOfSetColumn>(&self, key: &C::Key) -> MemScan<C> {
        let k = set_key::<C>(&self.plugin, key);
        let items: Vec<Vec<u8>> = self
            .store
            .content
            .lock()
            .sets
            .get(&k)
            .map(|s| s.iter().cloned().collect())
            .unwrap_or_default();
        self.store.reads.fetch_add(1, Ordering::Relaxed);
        let hook = self.store.read_hook.lock().clone();
        if let Some(h) = hook {
            h(&ReadEvent::Scan { key: k, n: items.len() });
        }
        MemScan { items: items.into_iter(), plugin: self.plugin.clone(), _m: PhantomData }
    }

    fn write_batch(&self) -> Self::WriteBatch {
        let limit = self.store.group_limit();
        self.store.group_counter.fetch_add(1, Ordering::SeqCst);
        MemBatch {
            store: self.store.clone(),
            plugin: self.plugin.clone(),
            pc: PhysicalCommit::default(),
            limit,
        }
    }

    fn serialization_buffer(&self) -> Self::SerializationBuffer {
        MemSerBuf { ops: Vec::new(), plugin: self.plugin.clone() }
    }
}

#[derive(Debug, Clone)]
pub struct MemKvFactory {
    pub store: Arc<Store>,
}

impl KvDatabaseFactory for MemKvFactory {
    type KvDatabase = MemKv;
    type Error = std::convert::Infallible;

    fn open(self, plugin: Plugin) -> Result<MemKv, Self::Error> {
        Ok(MemKv::new(self.store, plugin))
    }
}
