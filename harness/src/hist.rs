//! Seeded random histories over a program.

use rand::{Rng, rngs::StdRng};

use crate::{dsl::Program, eng::Action};

pub fn gen_history(r: &mut StdRng, prog: &Program, steps: usize, restarts: bool) -> Vec<Action> {
    let mut acts = vec![Action::Begin];
    for i in prog.inputs() {
        acts.push(Action::Set { n: i + 1, v: r.gen_range(0..prog.m) });
    }
    for i in prog.externals() {
        acts.push(Action::World { n: i + 1, v: r.gen_range(0..prog.m) });
    }
    acts.push(Action::Commit);
    let n = prog.n();
    let inputs = prog.inputs();
    let exts = prog.externals();
    let mut k = 0;
    while k < steps {
        match r.gen_range(0..100) {
            0..=59 => {
                acts.push(Action::Query { t: 0, n: r.gen_range(0..n) + 1 });
                k += 1;
            }
            60..=89 => {
                acts.push(Action::Begin);
                let ns = r.gen_range(0..=3);
                for _ in 0..ns {
                    if inputs.is_empty() {
                        break;
                    }
                    let i = inputs[r.gen_range(0..inputs.len())];
                    acts.push(Action::Set { n: i + 1, v: r.gen_range(0..prog.m) });
                }
                if !exts.is_empty() && r.gen_bool(0.6) {
                    for &e in &exts {
                        if r.gen_bool(0.6) {
                            acts.push(Action::World { n: e + 1, v: r.gen_range(0..prog.m) });
                        }
                    }
                    if r.gen_bool(0.8) {
                        acts.push(Action::Refresh);
                    }
                }
                acts.push(Action::Commit);
                k += 1;
            }
            90..=94 if !exts.is_empty() => {
                // world changes without refresh must stay invisible
                let e = exts[r.gen_range(0..exts.len())];
                acts.push(Action::World { n: e + 1, v: r.gen_range(0..prog.m) });
            }
            _ => {
                if restarts {
                    acts.push(Action::Restart);
                }
                k += 1;
            }
        }
    }
    // closing sweep: query every node
    for i in 0..n {
        acts.push(Action::Query { t: 0, n: i + 1 });
    }
    acts
}

