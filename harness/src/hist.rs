//! Seeded random histories over a program.

use rand::{Rng, rngs::StdRng};

use crate::{dsl::Program, eng::Action};

/// Appends to `prog` one witness node per firewall (a Normal node reading just
/// that firewall) and returns their 0-based ids in firewall order.
pub fn add_witnesses(prog: &mut Program) -> Vec<usize> {
    use crate::dsl::{Item, Kind, Node};
    let fws: Vec<usize> = (0..prog.n()).filter(|&i| prog.kind(i) == Kind::Fw).collect();
    let mut ws = Vec::new();
    for f in fws {
        prog.nodes.push(Node {
            kind: Kind::Nm,
            init: 0,
            code: vec![Item { g: 0, gc: 0, mode: 0, deps: vec![f + 1], w: 1, c: 0 }],
            post: 0,
            panic_if: -1,
        });
        ws.push(prog.n() - 1);
    }
    ws
}

/// "Sweep" regime: after every commit the witnesses of all firewalls are
/// queried first, in firewall order, so that every firewall is re-verified by
/// a transitive-firewall repair of a user-level request before anything else
/// runs in the epoch (the call sites of KF_TFC / KF_PBP are never reached).
pub fn sweep(actions: Vec<Action>, witnesses: &[usize]) -> Vec<Action> {
    let mut out = Vec::new();
    for a in actions {
        let is_commit = matches!(a, Action::Commit);
        let is_restart = matches!(a, Action::Restart);
        out.push(a);
        if is_commit || is_restart {
            for w in witnesses {
                out.push(Action::Query { t: 0, n: w + 1 });
            }
        }
    }
    out
}

pub fn gen_history(r: &mut StdRng, prog: &Program, steps: usize, restarts: bool) -> Vec<Action> {
    let mut acts = vec![Action::Begin];
    for i in prog.inputs() {
        acts.push(Action::Set { n: i + 1, v: r.gen_range(0..prog.m) });
    }
    for i in prog.externals() {
        acts.push(Action::World { n: i + 1, v: r.gen_range(0..prog.m) });
    }
    acts.push(Action::Commit);
    let n = prog.n();
    let inputs = prog.inputs();
    let exts = prog.externals();
    let mut k = 0;
    while k < steps {
        match r.gen_range(0..100) {
            0..=59 => {
                acts.push(Action::Query { t: 0, n: r.gen_range(0..n) + 1 });
                k += 1;
            }
            60..=89 => {
                acts.push(Action::Begin);
                // half of the sessions change exactly one input (the common
                // case in real use, and the one in which a single missing
                // invalidation is not masked by another change)
                let ns = if r.gen_bool(0.5) { 1 } else { r.gen_range(0..=3) };
                for _ in 0..ns {
                    if inputs.is_empty() {
                        break;
                    }
                    let i = inputs[r.gen_range(0..inputs.len())];
                    acts.push(Action::Set { n: i + 1, v: r.gen_range(0..prog.m) });
                }
                if !exts.is_empty() && r.gen_bool(0.6) {
                    for &e in &exts {
                        if r.gen_bool(0.6) {
                            acts.push(Action::World { n: e + 1, v: r.gen_range(0..prog.m) });
                        }
                    }
                    if r.gen_bool(0.8) {
                        acts.push(Action::Refresh);
                    }
                }
                acts.push(Action::Commit);
                // often ask for the topmost nodes first: what sits above
                // everything else is verified before anything below it has
                // been re-verified by another request
                if r.gen_bool(0.5) {
                    let top = r.gen_range(1..=3.min(n));
                    for j in 0..top {
                        acts.push(Action::Query { t: 0, n: n - j });
                    }
                }
                k += 1;
            }
            90..=94 if !exts.is_empty() => {
                // world changes without refresh must stay invisible
                let e = exts[r.gen_range(0..exts.len())];
                acts.push(Action::World { n: e + 1, v: r.gen_range(0..prog.m) });
            }
            _ => {
                if restarts {
                    acts.push(Action::Restart);
                }
                k += 1;
            }
        }
    }
    // closing sweep: query every node
    for i in 0..n {
        acts.push(Action::Query { t: 0, n: i + 1 });
    }
    acts
}

