//! Program DSL shared with the TLA+ specifications (`specs/Program.tla`).
//!
//! A program is a list of nodes; node `i` (0-based here, 1-based in JSON and
//! TLA+) is realised by the query type matching its kind carrying `i` as key,
//! so several query *types* share key values.

use std::sync::{
    Arc,
    atomic::{AtomicI64, AtomicU64, Ordering},
};

use futures::future::join_all;
use parking_lot::Mutex;
use qbice::{
    Decode, Encode, Identifiable, StableHash, TrackedEngine,
    config::Config,
    executor::Executor,
    query::{ExecutionStyle, Query},
};
use rand::{Rng, SeedableRng, rngs::StdRng};
use serde::{Deserialize, Serialize};

/// value an `In` node shows when it was never set (crash recovery probes)
pub const ABSENT: i64 = -100;
pub const SCC_NM: i64 = 7;
pub const SCC_FW: i64 = 8;
pub const SCC_PJ: i64 = 9;

#[derive(Debug, Clone, Copy, PartialEq, Eq, Hash, Serialize, Deserialize)]
pub enum Kind {
    In,
    Nm,
    Fw,
    Pj,
    Ex,
}

#[derive(Debug, Clone, PartialEq, Eq, Serialize, Deserialize)]
pub struct Item {
    /// guard: 0 always, 1 if acc == gc, 2 if acc != gc
    pub g: u8,
    pub gc: i64,
    /// 0 sequential reads, 1 joined (concurrent) reads, 2 unordered group
    pub mode: u8,
    /// 1-based node ids
    pub deps: Vec<usize>,
    pub w: i64,
    pub c: i64,
}

#[derive(Debug, Clone, PartialEq, Eq, Serialize, Deserialize)]
pub struct Node {
    pub kind: Kind,
    pub init: i64,
    pub code: Vec<Item>,
    /// 0 = identity, t > 0 = absorb: out = (acc >= t) as i64
    pub post: i64,
    /// executor panics when its result equals this (-1 = never)
    #[serde(default = "neg1")]
    pub panic_if: i64,
}

fn neg1() -> i64 { -1 }

#[derive(Debug, Clone, PartialEq, Eq, Serialize, Deserialize)]
pub struct Program {
    pub m: i64,
    pub nodes: Vec<Node>,
}

impl Program {
    pub fn n(&self) -> usize { self.nodes.len() }

    pub fn kind(&self, i: usize) -> Kind { self.nodes[i].kind }

    pub fn inputs(&self) -> Vec<usize> {
        (0..self.n()).filter(|&i| self.kind(i) == Kind::In).collect()
    }

    pub fn externals(&self) -> Vec<usize> {
        (0..self.n()).filter(|&i| self.kind(i) == Kind::Ex).collect()
    }

    pub fn executables(&self) -> Vec<usize> {
        (0..self.n()).filter(|&i| self.kind(i) != Kind::In).collect()
    }

    pub fn guard(it: &Item, acc: i64) -> bool {
        match it.g {
            0 => true,
            1 => acc == it.gc,
            _ => acc != it.gc,
        }
    }

    pub fn step(&self, it: &Item, idx: usize, acc: i64, v: i64) -> i64 {
        (acc + (it.w + idx as i64) * v + it.c).rem_euclid(self.m)
    }

    pub fn post(node: &Node, acc: i64) -> i64 {
        if node.post == 0 { acc } else { i64::from(acc >= node.post) }
    }

    /// Reference from-scratch evaluation for acyclic programs (used only for
    /// harness self-checks and to make drivers interesting; verdicts come
    /// from TLC).
    pub fn scratch(&self, env: &dyn Fn(usize) -> i64, n: usize) -> i64 {
        let node = &self.nodes[n];
        match node.kind {
            Kind::In | Kind::Ex => env(n),
            _ => {
                let mut acc = node.init;
                for it in &node.code {
                    if Self::guard(it, acc) {
                        for (i, d) in it.deps.iter().enumerate() {
                            let v = self.scratch(env, d - 1);
                            if !(it.mode == 4 && i == 0) {
                                acc = self.step(it, i, acc, v);
                            }
                        }
                    }
                }
                Self::post(node, acc)
            }
        }
    }
}

// ---------------------------------------------------------------------------
// query types
// ---------------------------------------------------------------------------

macro_rules! query_type {
    ($name:ident) => {
        #[derive(
            Debug,
            Clone,
            Copy,
            PartialEq,
            Eq,
            PartialOrd,
            Ord,
            Hash,
            StableHash,
            Encode,
            Decode,
            Identifiable,
        )]
        pub struct $name(pub u16);

        impl Query for $name {
            type Value = i64;
        }
    };
}

query_type!(In);
query_type!(Nm);
query_type!(Fw);
query_type!(Pj);
query_type!(Ex);

// ---------------------------------------------------------------------------
// recorder
// ---------------------------------------------------------------------------

#[derive(Debug, Clone, Serialize, Deserialize, PartialEq)]
#[serde(tag = "e")]
pub enum Event {
    #[serde(rename = "prog")]
    Prog { prog: Program, cfg: String },
    #[serde(rename = "begin")]
    Begin,
    #[serde(rename = "set")]
    Set { n: usize, v: i64, r: String },
    #[serde(rename = "world")]
    World { n: usize, v: i64 },
    #[serde(rename = "refresh_start")]
    RefreshStart,
    #[serde(rename = "refresh")]
    Refresh,
    #[serde(rename = "commit")]
    Commit,
    #[serde(rename = "tracked")]
    Tracked { t: usize },
    #[serde(rename = "drop")]
    Drop { t: usize },
    #[serde(rename = "query")]
    Query { t: usize, n: usize, v: i64 },
    #[serde(rename = "qpanic")]
    QueryPanic { t: usize, n: usize },
    #[serde(rename = "enter")]
    Enter { n: usize, x: u64 },
    /// executor of node `n` (run `x`) obtained value `v` for dependency `d`
    #[serde(rename = "read")]
    Read { n: usize, x: u64, d: usize, v: i64 },
    #[serde(rename = "exec")]
    Exec { n: usize, x: u64, reads: Vec<(usize, i64)>, out: i64, ok: bool },
    #[serde(rename = "restart")]
    Restart,
    #[serde(rename = "crash")]
    Crash { cut: usize, of: usize },
    /// input values shown by an engine reopened after a crash (-100 = absent)
    #[serde(rename = "recovered")]
    Recovered { inputs: Vec<(usize, i64)> },
    #[serde(rename = "crash_panic")]
    CrashPanic { cut: usize, msg: String },
    #[serde(rename = "cancel")]
    Cancel { n: usize, polls: usize },
    /// marker: the driver starts action number `i` of the case
    #[serde(rename = "act")]
    Act { i: usize },
    /// what the engine has recorded about node `n` (qbice::verif dump hook)
    #[serde(rename = "dump")]
    Dump {
        n: usize,
        lv: i64,
        cur: i64,
        fwd: Vec<usize>,
        tfc: Vec<usize>,
        dirty: Vec<usize>,
        back: Vec<usize>,
        pbp: i64,
    },
    /// the executor of node `n` is armed to panic when it next runs
    #[serde(rename = "arm")]
    Arm { n: usize },
    #[serde(rename = "disarm")]
    Disarm,
    /// the engine's cycle search was asked whether `target` requesting `callee` closes a cycle
    /// (qbice::verif cycle hook): the computing queries reachable from `callee` with the callees
    /// they had registered, and the answer
    #[serde(rename = "cyc")]
    Cyc { callee: usize, target: usize, edges: Vec<(usize, Vec<usize>)>, found: bool },
    /// a controlled schedule / watchdog did not complete
    #[serde(rename = "hang")]
    Hang { at: usize },
    #[serde(rename = "reset")]
    Reset,
}

#[derive(Debug, Default)]
pub struct Recorder {
    pub events: Mutex<Vec<Event>>,
    pub exec_seq: AtomicU64,
    pub quiet: std::sync::atomic::AtomicBool,
}

impl Recorder {
    pub fn push(&self, e: Event) {
        if !self.quiet.load(Ordering::Relaxed) {
            self.events.lock().push(e);
        }
    }

    pub fn take(&self) -> Vec<Event> { std::mem::take(&mut *self.events.lock()) }

    pub fn len(&self) -> usize { self.events.lock().len() }
}

pub fn write_ndjson(path: &std::path::Path, events: &[Event]) -> std::io::Result<()> {
    use std::io::Write;
    let mut f = std::io::BufWriter::new(std::fs::File::create(path)?);
    for e in events {
        serde_json::to_writer(&mut f, e)?;
        f.write_all(b"\n")?;
    }
    f.flush()
}

// ---------------------------------------------------------------------------
// shared context + executors
// ---------------------------------------------------------------------------

#[derive(Debug)]
pub struct Ctx {
    pub prog: Program,
    pub world: Vec<AtomicI64>,
    pub rec: Recorder,
    /// number of cooperative yields an executor performs after each read
    pub exec_yields: AtomicU64,
    /// when > 0 executors really sleep this many microseconds between reads
    /// (parallel drivers: widens overlap windows)
    pub exec_sleep_us: AtomicU64,
    /// node (0-based) whose executor panics on entry; -1 = none
    pub panic_node: AtomicI64,
    /// record the engine's cycle searches as `cyc` events (single-threaded drivers only)
    pub cyc_events: std::sync::atomic::AtomicBool,
}

impl Ctx {
    pub fn new(prog: Program) -> Arc<Self> {
        let n = prog.n();
        Arc::new(Self {
            prog,
            world: (0..n).map(|_| AtomicI64::new(0)).collect(),
            rec: Recorder::default(),
            exec_yields: AtomicU64::new(0),
            exec_sleep_us: AtomicU64::new(0),
            panic_node: AtomicI64::new(-1),
            cyc_events: std::sync::atomic::AtomicBool::new(false),
        })
    }
}

pub async fn read<C: Config>(ctx: &Ctx, engine: &TrackedEngine<C>, dep: usize) -> i64 {
    let k = dep as u16;
    match ctx.prog.kind(dep) {
        Kind::In => engine.query(&In(k)).await,
        Kind::Nm => engine.query(&Nm(k)).await,
        Kind::Fw => engine.query(&Fw(k)).await,
        Kind::Pj => engine.query(&Pj(k)).await,
        Kind::Ex => engine.query(&Ex(k)).await,
    }
}

/// A dependency read performed by the executor of node `n` (run `x`): the
/// value is logged the moment it is handed to the executor.
async fn dep_read<C: Config>(
    ctx: &Ctx,
    engine: &TrackedEngine<C>,
    n: usize,
    x: u64,
    d: usize,
) -> i64 {
    let v = read(ctx, engine, d - 1).await;
    ctx.rec.push(Event::Read { n: n + 1, x, d, v });
    v
}

struct ExecGuard<'a> {
    ctx: &'a Ctx,
    n: usize,
    x: u64,
    reads: Mutex<Vec<(usize, i64)>>,
    done: bool,
}

impl Drop for ExecGuard<'_> {
    fn drop(&mut self) {
        if !self.done {
            // unwound (cyclic payload / panic) or cancelled
            let reads = std::mem::take(&mut *self.reads.lock());
            self.ctx.rec.push(Event::Exec {
                n: self.n + 1,
                x: self.x,
                reads,
                out: -1,
                ok: false,
            });
        }
    }
}

async fn pause(ctx: &Ctx) {
    for _ in 0..ctx.exec_yields.load(Ordering::Relaxed) {
        tokio::task::yield_now().await;
    }
    let us = ctx.exec_sleep_us.load(Ordering::Relaxed);
    if us > 0 {
        tokio::time::sleep(std::time::Duration::from_micros(us)).await;
    }
}

/// Harness-level schedule point: called with the 1-based node when an
/// executor starts and after each of its sequential dependency reads
/// (conc_sched blocks here until the schedule lets the task go on).  The
/// callback returns what the executor has to do next: 0 = go on, 1 = panic,
/// 2 = suspend for ever (the caller is going to drop the request).
pub type ExecPoint = Arc<dyn Fn(usize) -> u8 + Send + Sync>;
pub static EXEC_POINT: parking_lot::RwLock<Option<ExecPoint>> = parking_lot::RwLock::new(None);

async fn exec_point(n1: usize) {
    let h = EXEC_POINT.read().clone();
    if let Some(h) = h {
        match h(n1) {
            1 => panic!("vh: injected executor panic (schedule) at node {n1}"),
            2 => std::future::pending::<()>().await,
            _ => {}
        }
    }
}

pub async fn run_node<C: Config>(ctx: &Arc<Ctx>, engine: &TrackedEngine<C>, n: usize) -> i64 {
    let x = ctx.rec.exec_seq.fetch_add(1, Ordering::SeqCst);
    ctx.rec.push(Event::Enter { n: n + 1, x });
    let mut guard = ExecGuard { ctx, n, x, reads: Mutex::new(Vec::new()), done: false };

    if ctx.panic_node.load(Ordering::SeqCst) == n as i64 {
        panic!("vh: injected executor panic at node {}", n + 1);
    }
    exec_point(n + 1).await;

    let node = &ctx.prog.nodes[n];
    let out = if node.kind == Kind::Ex {
        pause(ctx).await;
        ctx.world[n].load(Ordering::SeqCst)
    } else {
        let mut acc = node.init;
        let mut hedges: Vec<std::pin::Pin<Box<dyn std::future::Future<Output = i64> + Send + '_>>> = Vec::new();
        for it in &node.code {
            if !Program::guard(it, acc) {
                continue;
            }
            match it.mode {
                1 => {
                    let vs = join_all(it.deps.iter().map(|d| dep_read(ctx, engine, n, x, *d))).await;
                    for (i, (d, v)) in it.deps.iter().zip(vs).enumerate() {
                        guard.reads.lock().push((*d, v));
                        acc = ctx.prog.step(it, i, acc, v);
                    }
                }
                4 => {
                    // hedged read: the first dependency is requested and polled once; if it is still
                    // pending it is DROPPED when the executor has read everything else, also the later
                    // items (a sub-query future cancelled inside a live executor, after callees that
                    // were registered behind it)
                    let mut probe: std::pin::Pin<Box<dyn std::future::Future<Output = i64> + Send + '_>> =
                        Box::pin(dep_read(ctx, engine, n, x, it.deps[0]));
                    let first = futures::poll!(probe.as_mut());
                    let mut vals: Vec<Option<i64>> = vec![match first {
                        std::task::Poll::Ready(v) => Some(v),
                        std::task::Poll::Pending => None,
                    }];
                    for d in &it.deps[1..] {
                        vals.push(Some(dep_read(ctx, engine, n, x, *d).await));
                        pause(ctx).await;
                    }
                    hedges.push(probe);
                    for (i, (d, v)) in it.deps.iter().zip(vals).enumerate() {
                        if let Some(v) = v {
                            guard.reads.lock().push((*d, v));
                            // the hedged dependency never contributes to the result
                            if i > 0 {
                                acc = ctx.prog.step(it, i, acc, v);
                            }
                        }
                    }
                }
                3 => {
                    // every dependency is requested by its own spawned task (a clone of the tracked
                    // engine each): the reads go on when this executor is unwound
                    let hs: Vec<_> = it
                        .deps
                        .iter()
                        .map(|d| {
                            let (c2, e2, d2) = (ctx.clone(), engine.clone(), *d);
                            tokio::spawn(async move { dep_read(&c2, &e2, n, x, d2).await })
                        })
                        .collect();
                    let mut vs = Vec::new();
                    for h in hs {
                        match h.await {
                            Ok(v) => vs.push(v),
                            // the spawned read was unwound by the engine's cycle payload: pass it on
                            Err(e) => std::panic::resume_unwind(e.into_panic()),
                        }
                    }
                    for (i, (d, v)) in it.deps.iter().zip(vs).enumerate() {
                        guard.reads.lock().push((*d, v));
                        acc = ctx.prog.step(it, i, acc, v);
                    }
                }
                2 => {
                    unsafe { engine.start_unordered_callee_group() };
                    let vs = join_all(it.deps.iter().map(|d| dep_read(ctx, engine, n, x, *d))).await;
                    unsafe { engine.end_unordered_callee_group() };
                    for (i, (d, v)) in it.deps.iter().zip(vs).enumerate() {
                        guard.reads.lock().push((*d, v));
                        acc = ctx.prog.step(it, i, acc, v);
                    }
                }
                _ => {
                    for (i, d) in it.deps.iter().enumerate() {
                        let v = dep_read(ctx, engine, n, x, *d).await;
                        guard.reads.lock().push((*d, v));
                        acc = ctx.prog.step(it, i, acc, v);
                        pause(ctx).await;
                        exec_point(n + 1).await;
                    }
                }
            }
        }
        drop(hedges);
        Program::post(node, acc)
    };

    if node.panic_if >= 0 && out == node.panic_if {
        panic!("vh: program panic_if at node {}", n + 1);
    }

    guard.done = true;
    let reads = std::mem::take(&mut *guard.reads.lock());
    ctx.rec.push(Event::Exec { n: n + 1, x, reads, out, ok: true });
    out
}

macro_rules! dsl_executor {
    ($exec:ident, $q:ident, $style:expr, $scc:expr) => {
        #[derive(Debug, Clone)]
        pub struct $exec(pub Arc<Ctx>);

        impl<C: Config> Executor<$q, C> for $exec {
            async fn execute(&self, query: &$q, engine: &TrackedEngine<C>) -> i64 {
                run_node(&self.0, engine, query.0 as usize).await
            }

            fn execution_style() -> ExecutionStyle { $style }

            fn scc_value() -> i64 { $scc }
        }
    };
}

dsl_executor!(NmExec, Nm, ExecutionStyle::Normal, SCC_NM);
dsl_executor!(FwExec, Fw, ExecutionStyle::Firewall, SCC_FW);
dsl_executor!(PjExec, Pj, ExecutionStyle::Projection, SCC_PJ);
dsl_executor!(ExExec, Ex, ExecutionStyle::ExternalInput, 0);

/// `In` nodes are set through input sessions; an executor is still registered
/// so that a query for a never-set input has defined behaviour in the harness
/// (it returns ABSENT as a Normal query with no reads). Programs used for verdicts
/// always set every input in the first session.
#[derive(Debug, Clone)]
pub struct InExec(pub Arc<Ctx>);

impl<C: Config> Executor<In, C> for InExec {
    async fn execute(&self, _query: &In, _engine: &TrackedEngine<C>) -> i64 { ABSENT }
}

// ---------------------------------------------------------------------------
// random program generation (acyclic: deps < n)
// ---------------------------------------------------------------------------

#[derive(Debug, Clone, Copy)]
pub struct GenCfg {
    pub n_min: usize,
    pub n_max: usize,
    pub m: i64,
    pub externals: bool,
    pub cyclic: bool,
    pub groups: bool,
    /// allow firewall / projection nodes
    pub fw: bool,
}

impl Default for GenCfg {
    fn default() -> Self {
        Self { n_min: 6, n_max: 14, m: 3, externals: true, cyclic: false, groups: true, fw: true }
    }
}

pub fn gen_program(seed: u64, g: GenCfg) -> Program {
    let mut r = StdRng::seed_from_u64(seed);
    let n = r.gen_range(g.n_min..=g.n_max);
    let n_in = r.gen_range(1..=(n / 3).max(1)).min(4);
    let n_ex = if g.externals && r.gen_bool(0.5) { r.gen_range(1..=2) } else { 0 };
    let mut nodes: Vec<Node> = Vec::new();
    for i in 0..n {
        let kind = if i < n_in {
            Kind::In
        } else if i < n_in + n_ex {
            Kind::Ex
        } else {
            // projections need at least one firewall/projection below them
            let has_fw = nodes.iter().any(|x| matches!(x.kind, Kind::Fw | Kind::Pj));
            match if g.fw { r.gen_range(0..10) } else { 0 } {
                0..=4 => Kind::Nm,
                5..=7 => Kind::Fw,
                _ => {
                    if has_fw {
                        Kind::Pj
                    } else {
                        Kind::Fw
                    }
                }
            }
        };
        let mut code = Vec::new();
        if !matches!(kind, Kind::In | Kind::Ex) {
            let cands: Vec<usize> = if kind == Kind::Pj {
                (0..if g.cyclic { n } else { i })
                    .filter(|&j| {
                        if j < nodes.len() {
                            matches!(nodes[j].kind, Kind::Fw | Kind::Pj)
                        } else {
                            false
                        }
                    })
                    .collect()
            } else {
                (0..i).collect()
            };
            let n_items = r.gen_range(1..=3);
            for k in 0..n_items {
                if cands.is_empty() {
                    break;
                }
                let mode = if g.groups && kind != Kind::Pj || g.groups {
                    match r.gen_range(0..8) {
                        0 => 1,
                        1 => 2,
                        _ => 0,
                    }
                } else {
                    0
                };
                let nd = if mode == 0 { 1 } else { r.gen_range(2..=3).min(cands.len()) };
                let mut deps = Vec::new();
                for _ in 0..nd {
                    let d = cands[r.gen_range(0..cands.len())] + 1;
                    if !deps.contains(&d) {
                        deps.push(d);
                    }
                }
                let gsel = if k == 0 { 0 } else { r.gen_range(0..3) };
                code.push(Item {
                    g: gsel,
                    gc: r.gen_range(0..g.m),
                    mode,
                    deps,
                    w: r.gen_range(1..g.m),
                    c: r.gen_range(0..g.m),
                });
            }
        }
        let post = if matches!(kind, Kind::Fw | Kind::Pj) && r.gen_bool(0.6) {
            r.gen_range(1..g.m)
        } else if kind == Kind::Nm && r.gen_bool(0.2) {
            r.gen_range(1..g.m)
        } else {
            0
        };
        nodes.push(Node { kind, init: r.gen_range(0..g.m), code, post, panic_if: -1 });
    }
    Program { m: g.m, nodes }
}
