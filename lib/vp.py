"""Shared machinery for /verif/check: building the harness, running TLC,
writing evidence, replay files and known-finding handling."""
import json
import os
import re
import shutil
import subprocess
import sys
import time

ROOT = os.path.dirname(os.path.dirname(os.path.abspath(__file__)))
SPECS = os.path.join(ROOT, "specs")
HARNESS_SRC = os.path.join(ROOT, "harness")
# Development aid (tools/try_seed.sh): the tree under test and the output
# directories can be redirected, so that a scratch worktree carrying a seeded
# change is checked without touching /repo, the committed evidence or the work
# directories of a concurrent regular run.  Registered commands never set these.
REPO = os.environ.get("VERIF_REPO", "/repo")
WORK = os.environ.get("VERIF_WORK", os.path.join(ROOT, "work"))
EVIDENCE = os.environ.get("VERIF_EVIDENCE", os.path.join(ROOT, "evidence"))
REPLAYS = os.environ.get("VERIF_REPLAYS", os.path.join(ROOT, "replays"))
KNOWN = os.path.join(ROOT, "known_findings.json")


def _harness_dir():
    """The harness crate: /verif/harness for /repo; for another tree a derived copy
    (same sources, path dependencies rewritten) under WORK."""
    if REPO == "/repo":
        return HARNESS_SRC
    d = os.path.join(WORK, "scratch_harness")
    if not os.path.exists(os.path.join(d, "Cargo.toml")):
        os.makedirs(os.path.join(d, ".cargo"), exist_ok=True)
        toml = open(os.path.join(HARNESS_SRC, "Cargo.toml")).read().replace("/repo/crates", REPO + "/crates")
        open(os.path.join(d, "Cargo.toml"), "w").write(toml)
        shutil.copy(os.path.join(HARNESS_SRC, ".cargo", "config.toml"), os.path.join(d, ".cargo", "config.toml"))
        shutil.copy(os.path.join(REPO, "Cargo.lock"), os.path.join(d, "Cargo.lock"))
        if not os.path.exists(os.path.join(d, "src")):
            os.symlink(os.path.join(HARNESS_SRC, "src"), os.path.join(d, "src"))
        tgt = os.path.join(HARNESS_SRC, "target")
        if os.path.isdir(tgt) and not os.path.exists(os.path.join(d, "target")):
            # hard links: third-party artifacts are reused, the path crates rebuild
            subprocess.run(["cp", "-al", tgt, os.path.join(d, "target")], check=False)
    return d


HARNESS = _harness_dir()


class ToolError(Exception):
    """Build failure, TLC crash, timeout: exit 2, never a VIOLATION."""


class SubjectCrash(Exception):
    """A harness binary driving the code under test died (panic that escaped,
    abort in a destructor, signal): the code under test brought the process
    down.  That is data, not a tool error: reported as a VIOLATION."""

    def __init__(self, cmd, rc, out):
        super().__init__(f"process died rc={rc}: {' '.join(map(str, cmd))[:200]}")
        self.cmd, self.rc, self.out = cmd, rc, out


def run_subject(cmd, timeout=None, env=None, cwd=None):
    """Run a harness binary that drives the code under test.  The process dying, or not finishing within a
    time limit that is dozens of times its normal duration (the code under test hangs or crawls from one
    internal watchdog to the next), is data about the code under test, not a tool error."""
    try:
        p = run(cmd, timeout=timeout, env=env, cwd=cwd, check=False)
    except ToolError as e:
        if "timeout after" in str(e):
            raise SubjectCrash(cmd, f"no progress: not finished after {timeout}s", str(e)) from e
        raise
    if p.returncode != 0:
        raise SubjectCrash(cmd, p.returncode, (p.stdout or "")[-6000:])
    return p


def log(*a):
    print(*a, file=sys.stderr, flush=True)


def workdir(pid, sub=""):
    d = os.path.join(WORK, pid, sub) if sub else os.path.join(WORK, pid)
    os.makedirs(d, exist_ok=True)
    return d


def clean_workdir(pid):
    d = os.path.join(WORK, pid)
    shutil.rmtree(d, ignore_errors=True)
    os.makedirs(d, exist_ok=True)
    return d


def run(cmd, timeout=None, env=None, cwd=None, check=True, capture=True):
    e = dict(os.environ)
    e["CARGO_NET_OFFLINE"] = "true"
    if env:
        e.update({k: str(v) for k, v in env.items()})
    t0 = time.time()
    try:
        p = subprocess.run(cmd, cwd=cwd, env=e, timeout=timeout,
                           stdout=subprocess.PIPE if capture else None,
                           stderr=subprocess.STDOUT if capture else None,
                           text=True, errors="replace")
    except subprocess.TimeoutExpired as ex:
        raise ToolError(f"timeout after {timeout}s: {' '.join(map(str, cmd))[:200]}") from ex
    dt = time.time() - t0
    if check and p.returncode != 0:
        raise ToolError(f"command failed ({p.returncode}) after {dt:.1f}s: {' '.join(map(str, cmd))[:300]}\n{(p.stdout or '')[-4000:]}")
    return p


_built = set()


def build(features=None, release=False):
    """(Re)build the harness against /repo's current working tree."""
    key = (features, release)
    if key in _built:
        return bindir(release)
    lock = os.path.join(HARNESS, "Cargo.lock")
    if not os.path.exists(lock):
        shutil.copy(os.path.join(REPO, "Cargo.lock"), lock)
    cmd = ["cargo", "build", "--offline", "--bins"]
    if release:
        cmd.append("--release")
    if features:
        cmd += ["--features", features]
    t0 = time.time()
    p = run(cmd, cwd=HARNESS, timeout=3600, check=False)
    if p.returncode != 0 and "yanked" in (p.stdout or ""):
        shutil.copy(os.path.join(REPO, "Cargo.lock"), lock)
        p = run(cmd, cwd=HARNESS, timeout=3600, check=False)
    if p.returncode != 0:
        # one binary that does not compile (e.g. a source file somebody is still writing) must not
        # stop the checks that do not use it: build the rest, and remove the stale executables of
        # the binaries that failed so that nothing can run an out-of-date one
        p2 = run(cmd + ["--keep-going"], cwd=HARNESS, timeout=3600, check=False)
        failed = set(re.findall(r'could not compile `vh` \(bin "([^"]+)"\)', p2.stdout or ""))
        if not failed or "could not compile `vh` (lib)" in (p2.stdout or ""):
            raise ToolError("harness build failed:\n" + (p.stdout or "")[-6000:])
        for b in failed:
            try:
                os.remove(os.path.join(bindir(release), b))
            except FileNotFoundError:
                pass
        log(f"[build] WARNING: binaries that do not compile were skipped: {sorted(failed)}")
    log(f"[build] features={features} {time.time()-t0:.1f}s")
    _built.add(key)
    return bindir(release)


def bindir(release=False):
    return os.path.join(HARNESS, "target", "release" if release else "debug")


TLC_JAR = "/opt/veriftools/tla/tla2tools.jar"
_tlc_seq = __import__("itertools").count()   # unique metadir per call, also from thread pools


def tlc(module, cfg=None, env=None, workers=1, deque=False, timeout=600,
        metadir=None, extra=None, xmx="4g", coverage=False, cwd=SPECS, check_ok=True, timeout_ok=False):
    """Run TLC on specs/<module>.tla. Returns dict with counts and output."""
    metadir = metadir or os.path.join(WORK, "tlcmeta", f"{module}-{os.getpid()}-{next(_tlc_seq)}-{int(time.time()*1000)%100000}")
    os.makedirs(metadir, exist_ok=True)
    jopts = f"-Xss1g -Xmx{xmx}"
    if deque:
        jopts += " -Dtlc2.tool.queue.IStateQueue=StateDeque"
    e = {"JAVA_TOOL_OPTIONS": jopts}
    if env:
        e.update(env)
    cmd = ["timeout", str(timeout), "tlc", "-workers", str(workers), "-metadir", metadir,
           "-cleanup", "-noGenerateSpecTE"]
    if coverage:
        cmd += ["-coverage", "1"]
    if cfg:
        cmd += ["-config", cfg]
    if extra:
        cmd += extra
    cmd.append(module + ".tla" if not module.endswith(".tla") else module)
    t0 = time.time()
    p = run(cmd, env=e, cwd=cwd, check=False, timeout=timeout + 30)
    out = p.stdout or ""
    shutil.rmtree(metadir, ignore_errors=True)
    res = {"rc": p.returncode, "out": out, "wall_s": time.time() - t0,
           "generated": 0, "distinct": 0, "depth": 0}
    m = re.findall(r"(\d+) states generated, (\d+) distinct states found", out)
    if m:
        res["generated"], res["distinct"] = int(m[-1][0]), int(m[-1][1])
    m = re.search(r"depth of the complete state graph search is (\d+)", out)
    if m:
        res["depth"] = int(m.group(1))
    res["ok"] = "Model checking completed. No error has been found." in out or \
        ("Finished in" in out and "Error:" not in out and p.returncode == 0)
    res["invariant_violated"] = re.findall(r"Invariant (\S+) is violated", out)
    res["timeout"] = p.returncode == 124
    if res["timeout"] and not timeout_ok:
        raise ToolError(f"TLC timeout on {module} after {timeout}s")
    if check_ok and not res["ok"] and not res["invariant_violated"]:
        if "is violated" not in out and "Temporal properties were violated" not in out:
            raise ToolError(f"TLC failed on {module} (rc={p.returncode}):\n{out[-5000:]}")
    return res


def tlc_coverage(out):
    """Per-action counts from a -coverage 1 run: {action: (distinct, total)}."""
    cov = {}
    for m in re.finditer(r"<(\w+) line \d+, col \d+ to line \d+, col \d+ of module (\w+)>: (\d+):(\d+)", out):
        cov[m.group(1)] = (int(m.group(3)), int(m.group(4)))
    return cov


def load_known():
    if not os.path.exists(KNOWN):
        return []
    return json.load(open(KNOWN)).get("findings", [])


class Verdict:
    """Collects violations / known findings for one check run."""

    def __init__(self, pid):
        self.pid = pid
        self.violations = []
        self.known_hits = {}
        self.replay_n = 0
        self.known = [k for k in load_known() if k["property"] == pid and k.get("status") == "known"]

    def known_finding(self, kid, what):
        if kid not in self.known_hits:
            self.known_hits[kid] = {"what": what, "count": 0}
        self.known_hits[kid]["count"] += 1

    def violation(self, what, replay_obj):
        os.makedirs(REPLAYS, exist_ok=True)
        self.replay_n += 1
        path = os.path.join(REPLAYS, f"{self.pid}-{int(time.time())}-{self.replay_n}.json")
        with open(path, "w") as f:
            json.dump(replay_obj, f, indent=1)
        self.violations.append({"what": what, "replay": path})
        return path

    def finish(self):
        for kid, h in self.known_hits.items():
            print(f"KNOWN-FINDING: property={self.pid} {kid}: {h['what']} (seen {h['count']}x)")
        for v in self.violations[:20]:
            print(f"VIOLATION property={self.pid} replay={v['replay']}")
            log("  ", v["what"])
        return 1 if self.violations else 0


def write_evidence(pid, tier, seed, level, coverage, wall_s, violations, assumptions=None):
    os.makedirs(EVIDENCE, exist_ok=True)
    ev = {
        "property_id": pid,
        "tier": tier,
        "seed": int(seed),
        "level": level,
        "coverage": coverage,
        "assumptions": assumptions or [],
        "wall_s": round(wall_s, 2),
        "violations": int(violations),
    }
    with open(os.path.join(EVIDENCE, f"{pid}.json"), "w") as f:
        json.dump(ev, f, indent=1, sort_keys=True)
    return ev


def read_ndjson(path):
    return [json.loads(l) for l in open(path) if l.strip()]


def split_runs(events):
    """Split a concatenated trace into runs (lists of events incl. prog .. reset)."""
    runs, cur = [], []
    for e in events:
        cur.append(e)
        if e.get("e") == "reset":
            runs.append(cur)
            cur = []
    if cur:
        runs.append(cur)
    return runs


def run_containing(events, at):
    """Return (run_events, offset) for 1-based event index `at`."""
    start = 0
    for i, e in enumerate(events):
        if e.get("e") == "prog":
            start = i
        if i + 1 == at:
            break
    end = at
    while end < len(events) and events[end - 1].get("e") != "reset":
        end += 1
    return events[start:end], start
