"""C02 - concurrent querying is sound, single-flight and terminates.

(1) specs/BackwardEdgeSet.tla: the tiered caller set, model-checked for
    "no completed insert is ever lost / invisible"; its behaviours are
    schedules replayed on the real CompressedBackwardEdgeSet through the
    cfg-guarded point in the upgrade window; free-running stress traces are
    validated by BackwardEdgeSetTrace.tla.
(2) the real engine on a multi-threaded runtime (2..16 workers): many tasks
    query shared nodes concurrently, executors pause between reads; recorded
    traces are validated by EngineObsTrace: no two overlapping executor runs of
    one key (Enter/Exec), every value from scratch, every request completes
    (watchdog), and the epilogue (flip every input, read everything) detects a
    dependency edge lost under concurrency.  Fan-in 40 (and 1100 in the
    thorough tier) crosses the 32- and 1024-element container thresholds."""
import json
import os
import random
import time

import engcommon as ec
import vp

PID = "C02"
VALUE_KINDS = {"query_value", "read_value"}
ALWAYS_KINDS = {"overlap", "no_progress", "query_panicked", "executor_still_running_at_end"}


def bes_part(bd, wd, seed, quick):
    p = vp.run_subject([os.path.join(bd, "bes_replay"), "--mode", "probe"], timeout=60)
    variant = p.stdout.strip().splitlines()[-1]
    if variant == "unknown":
        raise vp.ToolError("bes_replay probe: the upgrade point was not reached")
    fixed = variant == "upgrade_under_lock"
    mc = vp.tlc("MCBackwardEdgeSet", cfg="BackwardEdgeSet_fixed.cfg" if fixed else "BackwardEdgeSet_asis.cfg",
                workers=4, timeout=600, check_ok=False)
    g = vp.tlc("MCBackwardEdgeSet", cfg="BackwardEdgeSet_genfixed.cfg" if fixed else "BackwardEdgeSet_gen.cfg",
               workers=4, timeout=600, check_ok=False)
    scheds = [json.loads(json.loads(l)) for l in g["out"].splitlines() if l.startswith('"{')]
    if not scheds:
        raise vp.ToolError("BackwardEdgeSet generator produced nothing")
    rnd = random.Random(seed)
    lost = [s for s in scheds if s["lost"]]
    rest = [s for s in scheds if not s["lost"]]
    rnd.shuffle(rest)
    chosen = lost[:200] + (rest[:500] if quick else rest)
    sin = os.path.join(wd, "bes_sched.ndjson")
    with open(sin, "w") as f:
        for s in chosen:
            f.write(json.dumps(s) + "\n")
    results = []
    tr = os.path.join(wd, "bes_sched_trace.ndjson")
    vp.run_subject([os.path.join(bd, "bes_replay"), "--mode", "schedules", "--in", sin, "--out", tr], timeout=1200)
    ts = os.path.join(wd, "bes_stress.ndjson")
    vp.run_subject([os.path.join(bd, "bes_replay"), "--mode", "stress", "--rounds", "200" if quick else "3000",
            "--seed", str(seed), "--out", ts], timeout=1200)
    tm = os.path.join(wd, "bes_mapstress.ndjson")
    vp.run_subject([os.path.join(bd, "bes_replay"), "--mode", "mapstress", "--keys", "400" if quick else "4000",
            "--seed", str(seed), "--out", tm], timeout=1200)
    info = {"code_variant": variant, "model_holds": mc["ok"], "model_states": mc["distinct"],
            "schedules_total": len(scheds), "schedules_model_says_lost": len(lost),
            "schedules_replayed": len(chosen)}
    viols = []
    states = mc["distinct"] + g["distinct"]
    trans = mc["generated"] + g["generated"]
    for path, origin in ((tr, "BackwardEdgeSet schedule replay"), (ts, "BackwardEdgeSet stress"),
                         (tm, "callee -> callers map: concurrent first insert of a fresh key")):
        out = path + ".result.json"
        if os.path.exists(out):
            os.remove(out)
        r = vp.tlc("BackwardEdgeSetTrace", cfg="BackwardEdgeSetTrace.cfg", env={"TRACE": path, "OUT": out},
                   workers=1, timeout=900)
        if not os.path.exists(out):
            raise vp.ToolError("BackwardEdgeSetTrace produced no result:\n" + r["out"][-2000:])
        res = json.load(open(out))
        states += r["distinct"]; trans += r["generated"]
        info[origin] = {"events": res["events"], "iterations_checked": res["iters"], "violations": len(res["viol"])}
        for v in res["viol"]:
            viols.append((path, origin, v))
    drift = sum(1 for e in vp.read_ndjson(tr) if e["e"] == "drift")
    info["model_drift_schedules"] = drift
    return info, viols, states, trans, chosen


def run(tier, seed):
    t0 = time.time()
    bd = vp.build()
    wd = vp.clean_workdir(PID)
    verdict = vp.Verdict(PID)
    quick = tier != "thorough"
    bes_info, bes_viols, states, trans, bes_chosen = bes_part(bd, wd, seed, quick)
    # design-level: the single-flight protocol (computing table + Notify) as coded
    sf = vp.tlc("MCEngineConc", cfg="EngineConc.cfg", workers=4, timeout=600, check_ok=False)
    sfl = vp.tlc("MCEngineConc", cfg="EngineConc_live.cfg", workers=2, timeout=600, check_ok=False)
    single_flight_model = {"SingleFlight_OncePerEpoch_NoOrphanWaiter_hold": sf["ok"], "states": sf["distinct"],
                           "Progress_under_weak_fairness_holds": sfl["ok"], "liveness_states": sfl["distinct"]}
    states += sf["distinct"] + sfl["distinct"]
    trans += sf["generated"] + sfl["generated"]
    for path, origin, v in bes_viols[:3]:
        evs = vp.read_ndjson(path)
        run_events, start = vp.run_containing(evs, v["at"])
        verdict.violation(f"lost_insert in {origin}: {v}",
                          {"property": PID, "violation": v, "origin": origin, "events": run_events[-60:]})

    # S->I: schedules of the single-flight protocol generated by TLC (EngineConcGen) are forced on
    # the real engine step by step through the cfg-guarded points (conc_sched)
    sched_cases = os.path.join(wd, "sched.cases")
    g = vp.run(["python3", os.path.join(vp.ROOT, "tools", "gen_conc.py"), sched_cases, str(seed), "60" if quick else "1500"],
               timeout=2400, env={"VH_TMP": vp.workdir(PID, "tlcgen")})
    ginfo = json.loads(g.stdout.strip().splitlines()[-1])
    sched_tr = os.path.join(wd, "sched.ndjson")
    sched_res = os.path.join(wd, "sched.res")
    vp.run_subject([os.path.join(bd, "conc_sched"), "--in", sched_cases, "--out", sched_tr, "--res", sched_res],
                   timeout=3000)
    sres = vp.read_ndjson(sched_res)
    scases = vp.read_ndjson(sched_cases)
    sched_info = {"behaviours_generated_by_TLC": ginfo["behaviours"], "steps": ginfo["steps"],
                  "distinct_schedules": len({json.dumps(c["steps"]) for c in scases}),
                  "steps_followed_exactly": sum(r["followed"] for r in sres),
                  "schedules_followed_to_the_end": sum(1 for r in sres if r["drift"] is None and not r["hang"]),
                  "model_drift": sum(1 for r in sres if r["drift"] is not None and not r["hang"]),
                  "first_drift": next((r for r in sres if r["drift"] is not None and not r["hang"]), None),
                  "blocked_under_schedule_but_completed_freely": sum(1 for r in sres if r.get("blocked") and not r["hang"]),
                  "hangs": sum(1 for r in sres if r["hang"])}
    states += ginfo["steps"]
    for r in [r for r in sres if r["hang"]][:3]:
        verdict.violation(f"no_progress: schedule {r['case']} of the single-flight protocol does not complete, not even "
                          f"when the tasks run freely after step {r['followed']} ({r['drift']})",
                          {"property": PID, "kind": "no_progress", "origin": "EngineConcGen schedule replay",
                           "case": scases[r["case"]], "result": r})

    plans = [("normal", 2, 12, 14), ("normal", 8, 24, 14), ("fanin", 16, 32, 6), ("fanin", 4, 16, 6),
             ("mixed", 8, 16, 10)]
    if not quick:
        plans += [("normal", w, t, 40) for (w, t) in ((2, 4), (4, 16), (16, 48))]
        plans += [("fanin", 16, 64, 30), ("mixed", 16, 32, 30), ("mixed", 3, 9, 30)]
    traces = []
    for i, (kind, workers, tasks, runs) in enumerate(plans):
        tr = os.path.join(wd, f"conc_{i}_{kind}.ndjson")
        vp.run_subject([os.path.join(bd, "eng_conc"), "--kind", kind, "--workers", str(workers), "--tasks", str(tasks),
                "--runs", str(runs), "--seed", str(seed * 100 + i), "--out", tr], timeout=3000)
        traces.append((tr, kind, f"{kind} workers={workers} tasks={tasks}"))
    # one firewall with hundreds of projections above it, a consumer per projection: when the firewall
    # changes, backward projection propagation fans out over all of them (in chunks, one task per chunk);
    # every consumer must follow (prime counts: no chunk size divides them)
    wide_proj = ec.wide_fanin_leg(PID, bd, wd, verdict, "eng_seq", fan=(131, 257) if quick else (131, 257, 769, 1031),
                                  proj=True, tag="wide_projections")
    # wide UNORDERED groups whose members are queries: a member switches to another firewall without changing its
    # value while the other members are dirty but unchanged (the checks of one chunk run one after another, the
    # chunks concurrently): the reader of the group must take over the new firewall (tools/gen_unord.py tfc)
    tcases = os.path.join(wd, "unord_tfc.cases")
    vp.run(["python3", os.path.join(vp.ROOT, "tools", "gen_unord.py"), "tfc", tcases, str(seed)])
    ttr = os.path.join(wd, "unord_tfc.ndjson")
    vp.run_subject([os.path.join(bd, "eng_seq"), "--mode", "replay", "--in", tcases, "--out", ttr], timeout=3000)
    tres, tr_ = ec.validate_lite(ttr, ttr + ".result.json")
    states += tr_["distinct"]; trans += tr_["generated"]
    for v in tres["viol"][:3]:
        verdict.violation(f"{v['kind']} node={v['n']} got={v['got']} want={v['want']} (unordered group taking over a firewall; "
                          f"{len(tres['viol'])} in total)",
                          {"property": PID, "violation": v, "origin": "unordered group / firewall take-over family", "lite": True,
                           "case_file_generator": f"tools/gen_unord.py tfc OUT {seed}"})
    unord_tfc = {"events_validated": tres["events"], "checked": tres["stats"], "violations": len(tres["viol"])}
    # fan-in far above the 1024-element threshold of the callee -> callers set, in memory and over
    # DbBacked<MemKv> (the set is rebuilt from the store through the spill path): judged by the light
    # trace spec (EngineObsLite: user values, double execution, overlap), linear in the trace length
    wide = []
    for cfgname in ("mem", "kv"):
        tr = os.path.join(wd, f"conc_fan1100_{cfgname}.ndjson")
        vp.run_subject([os.path.join(bd, "eng_conc"), "--kind", "fanin", "--fan", "1100", "--cfg", cfgname,
                        "--workers", "8" if quick else "16", "--tasks", "32" if quick else "64",
                        "--runs", "1" if quick else "3", "--phases", "2", "--seed", str(seed), "--out", tr], timeout=3000)
        res, r = ec.validate_lite(tr, tr + ".result.json")
        states += r["distinct"]; trans += r["generated"]
        wide.append({"cfg": cfgname, "events_validated": res["events"], "checked": res["stats"], "violations": len(res["viol"])})
        for v in res["viol"][:2]:
            verdict.violation(f"{v['kind']} node={v['n']} got={v['got']} want={v['want']} (fan-in 1100 over {cfgname}; "
                              f"{len(res['viol'])} in total)",
                              {"property": PID, "violation": v, "origin": f"fan-in 1100 over {cfgname}", "lite": True})

    traces.append((sched_tr, "normal", "EngineConcGen schedule replay"))
    events = 0
    stats = {}
    by_kind = {}
    drift_values_mixed = 0
    max_conc = 0
    nruns = 0
    viols = []
    for tr, kind, origin in traces:
        res, r = ec.validate(tr, tr + ".result.json", timeout=3000)
        states += r["distinct"]; trans += r["generated"]; events += res["events"]
        for k, v in res["stats"].items():
            stats[k] = stats.get(k, 0) + v
        running = set()
        for e in vp.read_ndjson(tr):
            if e["e"] == "enter":
                running.add((e["n"], e["x"])); max_conc = max(max_conc, len(running))
            elif e["e"] == "exec":
                running.discard((e["n"], e["x"]))
            elif e["e"] == "reset":
                running.clear(); nruns += 1
        for v in res["viol"]:
            if v["kind"].startswith("harness_"):
                raise vp.ToolError(f"harness inconsistency {v} in {tr}")
            if v["kind"] in ALWAYS_KINDS or (v["kind"] in VALUE_KINDS and kind != "mixed"):
                by_kind[v["kind"]] = by_kind.get(v["kind"], 0) + 1
                viols.append((tr, origin, v))
            elif v["kind"] in VALUE_KINDS:
                drift_values_mixed += 1
    for tr, origin, v in viols[:4]:
        evs = vp.read_ndjson(tr)
        run_events, start = vp.run_containing(evs, v["at"])
        verdict.violation(f"{v['kind']} node={v['n']} got={v['got']} want={v['want']} ({origin})",
                          {"property": PID, "violation": v, "origin": origin,
                           "prog": run_events[0] if run_events else None,
                           "events_before": evs[max(0, v['at'] - 60):v['at']]})
    rc = verdict.finish()
    coverage = {
        "states": states, "transitions": trans,
        "traces_validated_against_impl": nruns + bes_info["schedules_replayed"] + 1,
        "schedules_forced_on_impl": len(sres),
        "samples": [{"backward_edge_set_schedule": bes_chosen[0]},
                    {"single_flight_schedule": scases[0] if scases else None},
                    {"engine_run_plan": [p[:3] for p in plans]}],
        "backward_edge_set": bes_info,
        "fan_in_1100": wide,
        "firewall_with_hundreds_of_projections": wide_proj,
        "single_flight_protocol_model": single_flight_model,
        "single_flight_schedule_replay": sched_info,
        "engine_runs": nruns,
        "events_validated": events,
        "checked": stats,
        "max_concurrently_running_executors_observed": max_conc,
        "violations_by_kind": by_kind,
        "value_deviations_in_programs_with_firewalls_not_judged": drift_values_mixed,
    }
    vp.write_evidence(PID, tier, seed, "model_checking", coverage, time.time() - t0, len(verdict.violations),
                      assumptions=["values are judged on programs of Normal nodes (no known finding applies); on "
                                   "programs with firewalls only single-flight and progress are judged here "
                                   "(their values are judged sequentially by C01)",
                                   "a recorded overlap is a real one: Enter is logged after the executor started, "
                                   "Exec before it returns",
                                   "watchdog 90 s per phase for work that takes milliseconds",
                                   "InMemoryStorageEngine; the caching set container is the subject of C09"])
    return rc


def replay(path):
    rp = json.load(open(path))
    print("replay: concurrent executions are not deterministic; the recorded events of the failing run are in",
          path, "- re-run ./check C02 (same VERIF_SEED) to search the same region again")
    print(json.dumps(rp.get("violation")))
    return 2


def selftest(seed):
    bd = vp.build()
    wd = vp.clean_workdir(PID + "-selftest")
    mc = vp.tlc("MCBackwardEdgeSet", cfg="BackwardEdgeSet_asis.cfg", workers=2, timeout=300, check_ok=False)
    ok1 = "IterSeesCompleted" in mc["invariant_violated"]
    print(f"selftest {PID}: model of the drain-before-lock upgrade violates IterSeesCompleted: {ok1}")
    tr = os.path.join(wd, "c.ndjson")
    vp.run_subject([os.path.join(bd, "eng_conc"), "--kind", "normal", "--runs", "2", "--out", tr], timeout=300)
    ev = vp.read_ndjson(tr)
    # duplicate an enter event: must be reported as an overlap
    t2 = os.path.join(wd, "c2.ndjson")
    done = False
    with open(t2, "w") as f:
        for e in ev:
            f.write(json.dumps(e) + "\n")
            if not done and e["e"] == "enter":
                f.write(json.dumps(e) + "\n"); done = True
    res, _ = ec.validate(t2, t2 + ".json")
    ok2 = any(v["kind"] == "overlap" for v in res["viol"])
    print(f"selftest {PID}: injected second Enter flagged as overlap: {ok2}")
    late = vp.tlc("MCEngineConc", cfg="EngineConc_late.cfg", workers=2, timeout=300, check_ok=False)
    ok3 = "Temporal properties were violated" in late["out"] or "Progress was violated" in late["out"]
    print(f"selftest {PID}: single-flight model with a late Notify subscription loses a wake-up (Progress violated): {ok3}")
    ok = ok1 and ok2 and ok3
    print("selftest", "passed" if ok else "FAILED")
    return 0 if ok else 2
