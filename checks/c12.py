"""C12 - serialization round-trips every supported value exactly.

Pipeline (spec -> implementation replay, DESIGN.md 2.2 binding 1):
  1. TLC checks Codec.tla (FIFO + interning session) exhaustively under the
     three switch settings (registered originals / repair / as is).
  2. TLC (CodecGen.tla) enumerates STRUCTURE: type terms closed under the
     constructors exported by the harness (`codec_replay --mode universe`) to
     nesting depth 3, one abstract class per node.
  3. TLC (Codec.tla as generator) enumerates FIFO shapes (op sequences with the
     expected FIFO state after each step) and complete interning behaviours.
  4. codec_replay concretises the classes, runs every behaviour on the real
     qbice_serialize code (one long-lived encoder, one long-lived decoder, one
     buffer) and compares after each step with the model's expectation:
     decoded value == FIFO head, decoder byte position == end offset recorded
     at encode time, final position == buffer length.  Static sweeps
     (exhaustive 8/16-bit, all chars, every varint boundary, seeded random).
  5. Both feature configurations: default and `extras` (smallvec + bitvec).
  6. Cross-type interning: handles of DIFFERENT Rust types with the SAME 128-bit content hash
     (Interned<str> / Interned<String> / Interned<W(String)>; premise measured on the real hasher
     by `codec_replay --mode hashes`) inside one encode session.  Codec.tla carries (type, hash)
     per handle; TLC checks it as the code is (xreg/xfix hold) and under the mutation
     SeenByHashOnly (FIFO and SelfContained violated), generates complete behaviours over the
     cross-type pool (CodecGenBehX*.cfg: both orders, all three types, inside an Interned<Dyn>,
     decode with originals alive / dropped / fresh interner), and CodecGen enumerates cross-type
     STRUCTURE (handle leaves with handle partners under every constructor, tuple class "eq"),
     replayed under the FIFO shapes that contain a restart / drop-originals step
     (CodecShapesAux.cfg).
"""
import concurrent.futures as cf
import json
import os
import shutil
import time

import vp

PID = "C12"

# Known findings (merged into /verif/known_findings.json by the coordinator;
# until then also kept here).  A failure is attributed only by its signature.
LOCAL_KNOWN = [
    {"property": "C12", "id": "KF_BITVEC", "status": "known",
     "what": "BitVec<T,O> with a storage type T other than u8 (incl. the default BitVec = BitVec<usize,Lsb0>) does not "
             "round-trip: Encode writes the length in bits and then every storage word through T::encode (a varint), "
             "Decode reads the length and then ceil(len/8) RAW bytes (encode.rs:555 vs decode.rs:663)"},
    {"property": "C12", "id": "KF_INTERN_REF", "status": "known",
     "what": "decoding a back-reference to an interned value panics ('referenced interned value not found in interner') "
             "when the inline copy decoded earlier in the same value was dropped again: Interner::intern returned an "
             "already-live equal allocation of the enclosing value whose inner handle is not registered in this "
             "interner (Interned::new_duplicating / other interner); the table only holds weak pointers and the "
             "decode session does not keep decoded handles alive (intern.rs Decode for Interned<T>)"},
]
BITVEC_BAD = {"BvUsizeLsb0", "BvU16Lsb0", "BvU32Msb0", "BvU64Lsb0"}
INTERN_MSG = "referenced interned value not found in interner"


def known_map():
    m = {}
    for k in LOCAL_KNOWN + vp.load_known():
        if k.get("property") == PID:
            m[k["id"]] = k
    return {i: k for i, k in m.items() if k.get("status", "known") == "known"}


HANDLE_CTORS = {"Interned", "InternedSlice", "IStr", "IPath", "IString", "IW"}


def unregistered_inside_registered(t, under=False):
    """Signature of KF_INTERN_REF on a structural case: the term has a handle made with
    Interned::new_duplicating (class dup*) strictly inside an interned (registered) value."""
    ctor, cls = t[0], t[1]
    if ctor in HANDLE_CTORS:
        dup = str(cls).startswith("dup")     # classes dup / dupempty: Interned::new_duplicating(_unsized)
        if under and dup:
            return True
        under = under or not dup
    return any(unregistered_inside_registered(k, under) for k in t[2:])


def classify(fail, known, beh=None):
    """Signature of a failing step -> known-finding id or None."""
    if not fail:
        return None
    kind = fail.get("kind")
    ctors = set(fail.get("ctors") or [])
    if "KF_BITVEC" in known and ctors & BITVEC_BAD and kind in (
            "value_mismatch", "pos_mismatch", "decode_error", "decode_panic", "process_abort"):
        # an abort is attributed only if it is an allocation failure (garbage length read after the
        # stream lost step inside the value that contains the bit vector)
        got = fail.get("got") or ""
        if kind != "process_abort" or "memory allocation" in got or "capacity overflow" in got or "BitVec" in got:
            return "KF_BITVEC"
    # KF_INTERN_REF is the failure of a reference whose inline copy WAS written and decoded earlier in the same
    # top-level value (and dropped again).  The harness reports for the handle that panicked whether an earlier
    # occurrence of the same (type, hash) exists in that value (fail.ref.inline_before).  A reference without an
    # inline copy of its own type (e.g. only a handle of ANOTHER type with the same hash precedes it) is a
    # different failure and is never attributed.
    if "KF_INTERN_REF" in known and kind == "decode_panic" and INTERN_MSG in (fail.get("got") or "") \
            and (fail.get("ref") or {}).get("inline_before") is True:
        # (a) complete interning behaviour: the as-is model (Codec.tla, AllowUnregistered,
        #     ~PinDecoded) predicts the failure at exactly this step
        if fail.get("model_fail") is True:
            return "KF_INTERN_REF"
        # (b) structural case: the failing value has an unregistered handle inside a registered one
        if beh is not None and fail.get("v"):
            pv = beh["pool"][fail["v"] - 1]
            if "t" in pv and unregistered_inside_registered(pv["t"]):
                return "KF_INTERN_REF"
    return None


# ---------------------------------------------------------------------------
# universe -> generator configuration
# ---------------------------------------------------------------------------
REP_LEAVES = ["U8", "U64", "I32", "F64", "String", "Unit", "Bool", "Char", "Named", "BigEnum", "IString", "Duration"]
REP_LEAVES_X = ["BvU8Lsb0", "BvUsizeLsb0"]
REP_UN = ["Option", "Vec", "BTreeSet", "HashSet", "Box", "Cow", "Range", "Bound", "Array3", "Pair", "Interned",
          "Ge", "Gs", "RefCell", "InternedSlice", "LinkedList"]
REP_UN_X = ["SmallVec2"]
REP_BIN = ["Result", "HashMap", "BTreeMap", "Ge2"]
CORE_LEAVES = ["U8", "U64", "I32", "String", "Unit", "IString"]
CORE_UN = ["Option", "Vec", "HashSet", "Box", "Pair", "Interned", "Ge", "Range", "Array3", "Bound"]
CORE_BIN = ["Result", "HashMap"]
PARTNERS = [["U8", "b1"], ["String", "ascii"]]
# cross-type interning: leaf handle types whose equal text has the SAME content hash, paired with each other
X_LEAVES = ["IStr", "IString", "IW"]
X_PARTNERS = [["IString", "intern"], ["IStr", "intern"], ["IW", "intern"]]


def gen_config(U, tier, xtype=False):
    extras = U["extras"]
    leaf = {l["n"]: l for l in U["leaves"]}
    un = {u["n"]: u for u in U["un"]}
    bn = {b["n"]: b for b in U["bin"]}

    def L(names, full):
        return [{"n": n, "classes": leaf[n]["classes"] if full else leaf[n]["short"], "def": leaf[n]["def"]
                 if (full or leaf[n]["def"] in leaf[n]["short"]) else leaf[n]["short"][0]}
                for n in names if n in leaf]

    def K(tab, names):
        return [{"n": n, "classes": tab[n]["classes"], "def": tab[n]["def"]} for n in names if n in tab]

    all_leaves = [l["n"] for l in U["leaves"]]
    all_un = [u["n"] for u in U["un"]]
    all_bin = [b["n"] for b in U["bin"]]
    all_tup = list(range(1, 13))
    rep_leaves = REP_LEAVES + (REP_LEAVES_X if extras else [])
    rep_un = REP_UN + (REP_UN_X if extras else [])
    W_all = {"un": K(un, all_un), "bin": K(bn, all_bin), "tup": all_tup}
    W_rep = {"un": K(un, rep_un), "bin": K(bn, REP_BIN), "tup": [2, 3]}
    W_core = {"un": K(un, CORE_UN), "bin": K(bn, CORE_BIN), "tup": [2]}
    P2, P1 = PARTNERS, PARTNERS[:1]
    if xtype:
        # the handle under test next to a handle of ANOTHER type with the same class (= same text = same hash):
        # tuples with class "eq", maps (first key / first value), Gs2, Ge2::B, and everything around them
        W_x = {"un": K(un, all_un), "bin": K(bn, all_bin), "tup": [2, 3]}
        TC = ["-", "eq"]
        budgets = [
            {"name": "x1 handle leaves (all classes) x all ctors, handle partners", "b": 1, "leaves": L(X_LEAVES, True),
             "wraps": [W_x], "partners": X_PARTNERS, "tupclasses": TC},
            {"name": "x2 handle leaves x rep ctors^2, handle partners", "b": 2, "leaves": L(X_LEAVES, False),
             "wraps": [W_rep, W_rep], "partners": X_PARTNERS, "tupclasses": TC},
        ]
        if tier == "thorough":
            budgets += [
                {"name": "x2 handle leaves x all ctors^2, handle partners", "b": 2, "leaves": L(X_LEAVES, False),
                 "wraps": [W_x, W_x], "partners": X_PARTNERS, "tupclasses": TC},
                {"name": "x3 handle leaves x core ctors^3, handle partners", "b": 3, "leaves": L(X_LEAVES, False),
                 "wraps": [W_core, W_core, W_core], "partners": X_PARTNERS[:2], "tupclasses": TC},
            ]
        return {"budgets": budgets}
    budgets = [
        {"name": "d0 all leaves, all classes", "b": 0, "leaves": L(all_leaves, True), "wraps": [], "partners": P2},
        {"name": "d1 all ctors x all leaves (all classes)", "b": 1, "leaves": L(all_leaves, True), "wraps": [W_all], "partners": P2},
        {"name": "d2 all ctors (inner) x rep ctors (outer) x rep leaves", "b": 2, "leaves": L(rep_leaves, False),
         "wraps": [W_all, W_rep], "partners": P1},
        {"name": "d2 rep ctors (inner) x all ctors (outer) x rep leaves", "b": 2, "leaves": L(rep_leaves, False),
         "wraps": [W_rep, W_all], "partners": P1},
        {"name": "d3 core ctors^3 x core leaves", "b": 3, "leaves": L(CORE_LEAVES, False),
         "wraps": [W_core, W_core, W_core], "partners": P1},
    ]
    if tier == "thorough":
        budgets += [
            {"name": "d2 all ctors x all ctors x rep leaves", "b": 2, "leaves": L(rep_leaves, False),
             "wraps": [W_all, W_all], "partners": P1},
            {"name": "d3 rep ctors^3 x core leaves", "b": 3, "leaves": L(CORE_LEAVES, False),
             "wraps": [W_rep, W_rep, W_rep], "partners": P1},
            {"name": "d3 all x core x core", "b": 3, "leaves": L(CORE_LEAVES, False),
             "wraps": [W_all, W_core, W_core], "partners": P1},
            {"name": "d3 core x all x core", "b": 3, "leaves": L(CORE_LEAVES, False),
             "wraps": [W_core, W_all, W_core], "partners": P1},
            {"name": "d3 core x core x all", "b": 3, "leaves": L(CORE_LEAVES, False),
             "wraps": [W_core, W_core, W_all], "partners": P1},
        ]
    return {"budgets": budgets}


def tlc_lines(out):
    """JSON lines printed by PrintT(ToJson(..))."""
    for line in out.splitlines():
        if line.startswith('"') and line.endswith('"') and len(line) > 2:
            try:
                yield json.loads(line)
            except json.JSONDecodeError:
                continue


def gen_structure(wd, U, tier, tag, xtype=False):
    cfg = gen_config(U, tier, xtype)
    cfgp = os.path.join(wd, f"gencfg_{tag}.json")
    json.dump(cfg, open(cfgp, "w"))
    casesp = os.path.join(wd, f"cases_{tag}.ndjson")
    stats = []

    def one(i):
        r = vp.tlc("CodecGen", cfg="CodecGen.cfg", env={"GENCFG": cfgp, "BUDGET": str(i + 1)}, workers=1,
                   timeout=1500 if tier == "thorough" else 600, xmx="3g",
                   metadir=os.path.join(wd, "meta", f"gen_{tag}_{i}"))
        if not r["ok"]:
            raise vp.ToolError(f"CodecGen budget {i+1} failed:\n{r['out'][-3000:]}")
        return i, r

    seen = set()   # 64-bit hashes of the case text (millions of cases in the thorough tier)
    n_emit = 0
    with cf.ThreadPoolExecutor(max_workers=4) as ex, open(casesp, "w") as f:
        for i, r in ex.map(one, range(len(cfg["budgets"]))):
            k = 0
            for s in tlc_lines(r["out"]):
                n_emit += 1
                h = hash(s)
                if h in seen:
                    continue
                seen.add(h)
                f.write(s + "\n")
                k += 1
            stats.append({"budget": cfg["budgets"][i]["name"], "states": r["distinct"], "transitions": r["generated"],
                          "new_cases": k, "wall_s": round(r["wall_s"], 1)})
    return casesp, len(seen), n_emit, stats


# ---------------------------------------------------------------------------
# running the harness (resumable: an abort of the code under test is data)
# ---------------------------------------------------------------------------
MAX_RESTARTS = 400


def term_ctors(t, acc):
    acc.add(t[0])
    for k in t[2:]:
        term_ctors(k, acc)
    return acc


def run_cases(binp, casesp, shapesp, outp, seed, wd, tag):
    """Runs codec_replay --mode cases; returns (records of non-clean behaviours,
    samples, summary counters)."""
    skip = 0
    bad, samples = [], []
    tot = {"behaviours": 0, "steps": 0, "encodes": 0, "decodes": 0, "bytes": 0, "aborts": 0, "cases": 0, "wrapped_deques": 0}
    restarts = 0
    while True:
        part = f"{outp}.{restarts}"
        p = vp.run([binp, "--mode", "cases", "--cases", casesp, "--shapes", shapesp, "--out", part,
                    "--seed", str(seed), "--skip", str(skip)], timeout=1500, check=False)
        last_start, summary = None, None
        with open(part, errors="replace") as f:
            for line in f:
                try:
                    r = json.loads(line)
                except json.JSONDecodeError:
                    continue   # torn last line of an aborted child
                if "start" in r:
                    last_start = r["start"]
                elif r.get("summary"):
                    summary = r
                    tot["wrapped_deques"] += r.get("wrapped_deques", 0)
                elif "i" in r:
                    if last_start == r["i"]:
                        last_start = None
                    tot["behaviours"] += 1
                    tot["encodes"] += r.get("e", 0)
                    tot["decodes"] += r.get("d", 0)
                    tot["steps"] += r.get("e", 0) + r.get("d", 0)
                    tot["bytes"] += r.get("b", 0)
                    if r.get("tool_error"):
                        raise vp.ToolError(f"codec_replay: {r['tool_error']} in behaviour {r['i']} of {casesp}")
                    if r.get("sample"):
                        samples.append(r)
                    elif not r.get("ok") or r.get("drift"):
                        bad.append(r)
        if summary is not None and p.returncode == 0:
            tot["cases"] = summary["cases"]
            break
        # the child died: the behaviour announced last and not reported is the one that killed it
        if last_start is None:
            raise vp.ToolError(f"codec_replay died outside a behaviour (rc={p.returncode}):\n{(p.stdout or '')[-2000:]}")
        restarts += 1
        if restarts > MAX_RESTARTS:
            raise vp.ToolError(f"codec_replay aborted more than {MAX_RESTARTS} times on {casesp}")
        d = os.path.join(wd, f"describe_{tag}.json")
        vp.run_subject([binp, "--mode", "cases", "--cases", casesp, "--shapes", shapesp, "--out", d,
                "--seed", str(seed), "--describe", str(last_start)], timeout=600)
        beh = json.loads(open(d).readline())["beh"]
        ctors = set()
        for pv in beh["pool"]:
            term_ctors(pv["t"], ctors)
        msg = (p.stdout or "")[-4000:]
        bad.append({"i": last_start, "ok": False, "beh": beh, "drift": [],
                    "fail": {"kind": "process_abort", "rc": p.returncode, "ctors": sorted(ctors), "got": msg,
                             "ty": "one of the pool values", "step": None}})
        tot["aborts"] += 1
        tot["behaviours"] += 1
        skip = last_start
    return bad, samples, tot


def run_beh(binp, inp, outp, seed):
    """codec_replay --mode beh; returns (non-clean records, summary)."""
    p = vp.run([binp, "--mode", "beh", "--in", inp, "--out", outp, "--seed", str(seed)], timeout=1500, check=False)
    if p.returncode != 0:
        raise vp.ToolError(f"codec_replay --mode beh died (rc={p.returncode}) on {inp}:\n{(p.stdout or '')[-2000:]}")
    bad, summary = [], None
    for line in open(outp):
        r = json.loads(line)
        if r.get("summary"):
            summary = r
        elif r.get("tool_error"):
            raise vp.ToolError(f"codec_replay: {r['tool_error']} (behaviour {r.get('id')})")
        elif not r.get("ok") or r.get("drift"):
            bad.append(r)
    if summary is None:
        raise vp.ToolError(f"codec_replay wrote no summary for {inp}")
    return bad, summary


def build_bins(wd):
    """Both feature configurations of codec_replay, copied out of the shared target dir."""
    bd = vp.build()
    base = os.path.join(wd, "codec_replay_default")
    shutil.copy(os.path.join(bd, "codec_replay"), base)
    extra = os.path.join(wd, "codec_replay_extras")
    for attempt in range(3):
        p = vp.run(["cargo", "build", "--offline", "--bin", "codec_replay", "--features", "extras"],
                   cwd=vp.HARNESS, timeout=3600, check=False)
        if p.returncode != 0:
            raise vp.ToolError("harness build (--features extras) failed:\n" + (p.stdout or "")[-4000:])
        shutil.copy(os.path.join(bd, "codec_replay"), extra)
        # other checks build in the same target dir: make sure we copied the right variant
        if json.loads(vp.run([extra, "--mode", "universe"]).stdout)["extras"]:
            break
    else:
        raise vp.ToolError("could not obtain an `extras` build of codec_replay")
    if json.loads(vp.run([base, "--mode", "universe"]).stdout)["extras"]:
        # the default copy raced with somebody's extras build: rebuild it
        p = vp.run(["cargo", "build", "--offline", "--bin", "codec_replay"], cwd=vp.HARNESS, timeout=3600, check=False)
        if p.returncode != 0:
            raise vp.ToolError("harness build failed:\n" + (p.stdout or "")[-4000:])
        shutil.copy(os.path.join(bd, "codec_replay"), base)
        if json.loads(vp.run([base, "--mode", "universe"]).stdout)["extras"]:
            raise vp.ToolError("could not obtain a default-feature build of codec_replay")
    return base, extra


# action coverage (-coverage 1) is taken on the cross-type configuration: every action of Codec.tla is enabled there
# (Aux = TRUE) and it is 3x smaller than CodecMC_fix, which was the longest TLC run of the quick tier with coverage on
COV_CFG = "CodecMC_xreg"


def model_check(wd, quick):
    """Codec.tla exhaustively under the three switch settings (one handle type), and over the cross-type
    handle pool: as the code is (seen set and table keyed by (type, hash)) with registered originals (xreg)
    and with unregistered originals + repair (xfix), and under the mutation SeenByHashOnly (xmut, xmutsc)."""
    res = {}
    xfix = "CodecMC_xfix" if quick else "CodecMC_xfix3"

    def one(cfg):
        return cfg, vp.tlc("CodecMC", cfg=cfg + ".cfg", workers=2, timeout=900, xmx="3g", coverage=(cfg == COV_CFG),
                           metadir=os.path.join(wd, "meta", cfg), check_ok=True)
    with cf.ThreadPoolExecutor(max_workers=4) as ex:
        for cfg, r in ex.map(one, ["CodecMC_fix", xfix, "CodecMC_xreg", "CodecMC_reg", "CodecMC_asis", "CodecMC_xmut", "CodecMC_xmutsc"]):
            res[cfg] = r
    for cfg in ("CodecMC_reg", "CodecMC_fix", "CodecMC_xreg", xfix):
        if not res[cfg]["ok"]:
            raise vp.ToolError(f"{cfg}: the model violates its invariants:\n{res[cfg]['out'][-3000:]}")
    if "FIFO" not in res["CodecMC_asis"]["invariant_violated"]:
        raise vp.ToolError("CodecMC_asis: expected the as-is model to violate FIFO (known finding class):\n"
                           + res["CodecMC_asis"]["out"][-3000:])
    # anti-vacuity of the invariants w.r.t. the (type, hash) key: the mutated model must violate them
    if "FIFO" not in res["CodecMC_xmut"]["invariant_violated"]:
        raise vp.ToolError("CodecMC_xmut: the model with SeenByHashOnly must violate FIFO:\n" + res["CodecMC_xmut"]["out"][-3000:])
    if "SelfContained" not in res["CodecMC_xmutsc"]["invariant_violated"]:
        raise vp.ToolError("CodecMC_xmutsc: the model with SeenByHashOnly must violate SelfContained:\n" + res["CodecMC_xmutsc"]["out"][-3000:])
    cov = vp.tlc_coverage(res[COV_CFG]["out"])
    never = [a for a in ("Encode", "Decode", "Restart", "DropOrig", "DropDec", "Emit") if cov.get(a, (0, 0))[1] == 0]
    if never:
        raise vp.ToolError(f"Codec.tla actions never taken: {never}")
    return {
        "registered_originals_as_is": {"states": res["CodecMC_reg"]["distinct"], "transitions": res["CodecMC_reg"]["generated"], "result": "invariants hold"},
        "unregistered_allowed_with_repair": {"states": res["CodecMC_fix"]["distinct"], "transitions": res["CodecMC_fix"]["generated"], "result": "invariants hold"},
        "unregistered_allowed_as_is": {"states": res["CodecMC_asis"]["distinct"], "result": "FIFO violated (KF_INTERN_REF class), counterexample replayed on the code"},
        "cross_type_registered_as_is": {"states": res["CodecMC_xreg"]["distinct"], "transitions": res["CodecMC_xreg"]["generated"], "result": "invariants hold"},
        "cross_type_unregistered_allowed_with_repair": {"cfg": xfix, "states": res[xfix]["distinct"], "transitions": res[xfix]["generated"], "result": "invariants hold"},
        "cross_type_mutation_SeenByHashOnly": {"states": res["CodecMC_xmut"]["distinct"],
                                               "result": "FIFO violated (xmut: encode (String a, str a), drop originals / fresh interner, decode fails); "
                                                         "SelfContained violated (xmutsc: a reference without an inline copy of its type)"},
        "action_coverage": {a: list(v) for a, v in cov.items()},
        "action_coverage_cfg": COV_CFG,
    }


def gen_shapes(wd, aux=False):
    """FIFO shapes printed by Codec.tla over a pool without handles.  aux: the shapes that contain one
    auxiliary step before a decode (fresh interner on the plugin / originals dropped): under these a
    value must be decodable from its own bytes alone."""
    name = "CodecShapesAux" if aux else "CodecShapes"
    r = vp.tlc("CodecMC", cfg=name + ".cfg", workers=1, timeout=300, metadir=os.path.join(wd, "meta", name))
    if not r["ok"]:
        raise vp.ToolError(name + " failed:\n" + r["out"][-3000:])
    shapes = []
    for s in tlc_lines(r["out"]):
        b = json.loads(s)
        ops = [o["op"] for o in b["ops"]]
        if aux:
            k = next((i for i, o in enumerate(ops) if o in ("restart", "droporig")), None)
            if k is None or "dec" not in ops[k:]:
                continue
        shapes.append({"id": len(shapes) + 1, "k": len(b["pool"]), "ops": b["ops"]})
    if not shapes:
        raise vp.ToolError("no FIFO shapes generated")
    p = os.path.join(wd, "shapes_aux.json" if aux else "shapes.json")
    json.dump(shapes, open(p, "w"))
    return p, shapes, r


def gen_interning(wd, asis=True, cfg=None, out="interning.ndjson", workers=4):
    # the mechanism model follows the code: as is while KF_INTERN_REF is open, with the repair once it is fixed
    cfg = cfg or ("CodecGenBeh.cfg" if asis else "CodecGenBehFix.cfg")
    r = vp.tlc("CodecMC", cfg=cfg, workers=workers, timeout=900, xmx="4g", metadir=os.path.join(wd, "meta", "genbeh_" + cfg))
    if not r["ok"]:
        raise vp.ToolError(cfg + " failed:\n" + r["out"][-3000:])
    p = os.path.join(wd, out)
    n = 0
    distinct = set()
    with open(p, "w") as f:
        for s in tlc_lines(r["out"]):
            b = json.loads(s)
            kids = {str(i + 1): k for i, k in enumerate(b["kids"])}
            reg = {str(i + 1): x for i, x in enumerate(b["reg"])}
            hs = {"kids": kids, "reg": reg}
            if any(t != "D" for t in b.get("ty", [])):
                # typed handles: Rust type and content-hash class per handle id
                hs["ty"] = {str(i + 1): x for i, x in enumerate(b["ty"])}
                hs["hash"] = {str(i + 1): x for i, x in enumerate(b["hash"])}
            pool = [{"h": dict(hs, top=pv)} for pv in b["pool"]]
            for o in b["ops"]:
                if "x" in o and "sr" in o["x"]:
                    o["x"]["sr"] = "".join(o["x"]["sr"])
            n += 1
            distinct.add(s)
            f.write(json.dumps({"id": n, "pool": pool, "ops": b["ops"]}) + "\n")
    if n == 0:
        raise vp.ToolError("no interning behaviours generated")
    return p, n, len(distinct), r


def filter_cases(src, dst, U_base):
    """Cases of the default-feature universe = cases without an `extras` constructor."""
    extra_names = ['"' + x + '"' for x in ("BvUsizeLsb0", "BvU8Lsb0", "BvU8Msb0", "BvU16Lsb0", "BvU32Msb0", "BvU64Lsb0", "SmallVec2")]
    n = 0
    with open(dst, "w") as f:
        for line in open(src):
            if any(x in line for x in extra_names):
                continue
            f.write(line)
            n += 1
    return n


def split_fragile(src, robust, fragile, known):
    """While KF_BITVEC is open the bit vectors with a wide storage type make the decoder read garbage
    lengths (process aborts): keep them in a file of their own so that resuming behind an abort is cheap."""
    nf = nr = 0
    marks = ['"' + x + '"' for x in BITVEC_BAD]
    with open(robust, "w") as fr, open(fragile, "w") as ff:
        for line in open(src):
            if any(m in line for m in marks):
                ff.write(line)
                nf += 1
            else:
                fr.write(line)
                nr += 1
    return nr, nf


def sweep(binp, outp, seed, n):
    vp.run_subject([binp, "--mode", "sweep", "--seed", str(seed), "--n", str(n), "--out", outp], timeout=1500)
    return [json.loads(l) for l in open(outp)]


def judge(records, verdict, known, origin, features, seed, counters):
    """Failing behaviours -> known finding (by signature) or VIOLATION; drift is only counted."""
    nviol = 0
    for r in records:
        fail = r.get("fail")
        if r.get("drift"):
            counters["model_drift"] += 1
            counters.setdefault("first_drift", {"origin": origin, "drift": r["drift"][:2], "beh": r.get("beh")})
        if not fail:
            continue
        kf = classify(fail, known, r.get("beh"))
        if kf:
            verdict.known_finding(kf, known[kf]["what"])
            counters["known:" + kf] = counters.get("known:" + kf, 0) + 1
            counters.setdefault("known_example:" + kf, {"origin": origin, "features": features, "fail": fail, "beh": r.get("beh")})
            continue
        nviol += 1
        if nviol <= 10:
            verdict.violation(f"{fail.get('kind')} ty={fail.get('ty')} value={str(fail.get('value'))[:300]} got={str(fail.get('got'))[:300]} "
                              f"pos={fail.get('pos')} want_end={fail.get('want_end')} origin={origin} features={features}",
                              {"property": PID, "features": features, "seed": seed, "origin": origin, "beh": r.get("beh"), "fail": fail})
    counters["unattributed_failures"] = counters.get("unattributed_failures", 0) + nviol


def run(tier, seed):
    t0 = time.time()
    quick = tier != "thorough"
    wd = vp.clean_workdir(PID)
    os.makedirs(os.path.join(wd, "meta"), exist_ok=True)
    known = known_map()
    verdict = vp.Verdict(PID)
    base, extra = build_bins(wd)
    t_build = time.time() - t0
    U = json.loads(vp.run([extra, "--mode", "universe"]).stdout)
    Ub = json.loads(vp.run([base, "--mode", "universe"]).stdout)
    # premise of the cross-type cases, measured with the interner's real hasher
    premise = json.loads(vp.run([base, "--mode", "hashes"]).stdout)
    premise_ok = bool(premise.get("equal_hash_str_String_W")) and bool(premise.get("distinct_type_ids"))
    if not premise_ok:
        vp.log("[C12] NOTE: str / String / W(String) no longer have equal content hashes under distinct type ids: "
               "the cross-type interning cases do not collide any more (see evidence cross_type.premise)")

    # --- TLC: model check + generators (concurrently) ---------------------
    t_tlc0 = time.time()
    with cf.ThreadPoolExecutor(max_workers=4) as ex:
        f_st = ex.submit(gen_structure, wd, U, tier, "extras")
        f_in = ex.submit(gen_interning, wd, "KF_INTERN_REF" in known)
        f_mc = ex.submit(model_check, wd, quick)
        f_sh = ex.submit(gen_shapes, wd)
        f_sx = ex.submit(gen_shapes, wd, True)
        f_ix = ex.submit(gen_interning, wd, True, "CodecGenBehX.cfg" if quick else "CodecGenBehX3.cfg", "interning_x.ndjson", 2)
        f_cx = ex.submit(gen_structure, wd, U, tier, "xtype", True)
        mc = f_mc.result()
        shapesp, shapes, r_sh = f_sh.result()
        xshapesp, xshapes, r_sx = f_sx.result()
        interp, n_inter, n_inter_distinct, r_in = f_in.result()
        xinterp, n_xinter, n_xinter_distinct, r_ix = f_ix.result()
        casesp, n_cases, n_emitted, gen_stats = f_st.result()
        xcasesp, n_xcases, _, xgen_stats = f_cx.result()
    t_tlc = time.time() - t_tlc0

    # --- replay on the real code, both feature configurations --------------
    counters = {"model_drift": 0}
    cases_base = os.path.join(wd, "cases_default.ndjson")
    n_cases_base = filter_cases(casesp, cases_base, Ub)
    robust, fragile = os.path.join(wd, "cases_extras_robust.ndjson"), os.path.join(wd, "cases_extras_fragile.ndjson")
    n_rob, n_frag = split_fragile(casesp, robust, fragile, known)
    totals = {}
    samples = []

    def job_cases(tag, binp, path, features, shp=None):
        bad, smp, tot = run_cases(binp, path, shp or shapesp, os.path.join(wd, f"out_{tag}.ndjson"), seed, wd, tag)
        return tag, features, bad, smp, tot

    def job_beh(tag, binp, features, inp=None):
        bad, summ = run_beh(binp, inp or interp, os.path.join(wd, f"out_{tag}.ndjson"), seed)
        return tag, features, bad, [], {"behaviours": summ["behaviours"], "steps": summ["steps"], "encodes": 0, "decodes": 0,
                                        "bytes": 0, "aborts": 0, "cases": 0, "drifting": summ.get("drifting", 0)}

    jobs = [(job_cases, ("structure_extras", extra, robust, "extras")),
            (job_cases, ("structure_default", base, cases_base, "default")),
            (job_beh, ("interning_extras", extra, "extras")),
            (job_beh, ("interning_default", base, "default")),
            # cross-type handles: complete behaviours (both binaries: small) and structure under the aux shapes
            (job_beh, ("xtype_interning_extras", extra, "extras", xinterp)),
            (job_beh, ("xtype_interning_default", base, "default", xinterp)),
            (job_cases, ("xtype_structure_extras", extra, xcasesp, "extras", xshapesp))]
    if n_frag:
        jobs.append((job_cases, ("structure_extras_bitvec", extra, fragile, "extras")))
    t_rep0 = time.time()
    with cf.ThreadPoolExecutor(max_workers=6) as ex:
        futs = [ex.submit(fn, *a) for fn, a in jobs]
        f_sw = [ex.submit(sweep, extra, os.path.join(wd, "sweep_extras.ndjson"), seed, 20000 if quick else 400000),
                ex.submit(sweep, base, os.path.join(wd, "sweep_default.ndjson"), seed + 1, 20000 if quick else 400000)]
        for fu in futs:
            tag, features, bad, smp, tot = fu.result()
            totals[tag] = tot
            samples += smp[:1]
            judge(bad, verdict, known, tag, features, seed, counters)
        sweeps = [f.result() for f in f_sw]
    t_rep = time.time() - t_rep0

    sweep_vals = 0
    for feat, sw in zip(("extras", "default"), sweeps):
        for r in sw:
            sweep_vals += r["n"]
            if r.get("nfail", 0) or not r.get("final_pos_ok", True) or (r.get("failures") and "nfail" not in r):
                verdict.violation(f"static sweep of {r['type']}: {r['failures'][:1]}",
                                  {"property": PID, "features": feat, "seed": seed, "origin": "sweep", "sweep": r})
    # anti-vacuity of the layout dimension: wrapped ring buffers were really handed to the encoder
    n_wrapped = sum(t.get("wrapped_deques", 0) for t in totals.values())
    if n_wrapped == 0:
        raise vp.ToolError("no VecDeque with a wrapped ring buffer was encoded: the layout dimension is not exercised")
    rc = verdict.finish()
    # the case files are large (hundreds of MB in the thorough tier) and reproducible
    for fn in os.listdir(wd):
        if fn.startswith("cases_") and os.path.getsize(os.path.join(wd, fn)) > 20_000_000 and not verdict.violations:
            os.remove(os.path.join(wd, fn))

    # --- evidence -----------------------------------------------------------
    n_dec = sum(t["decodes"] for t in totals.values())
    inter_steps = sum(totals[t]["steps"] for t in ("interning_extras", "interning_default", "xtype_interning_extras", "xtype_interning_default"))
    impls = impl_coverage(U)
    one_inter = json.loads(open(interp).readline())
    # a cross-type sample: a value with two equal-hash handles of different types decoded behind a restart / droporig
    one_x = None
    for line in open(xinterp):
        b = json.loads(line)
        ops = [o["op"] for o in b["ops"]]
        k = next((i for i, o in enumerate(ops) if o in ("restart", "droporig")), None)
        if k is not None and "dec" in ops[k:]:
            one_x = b
            break
    x_aux_kinds = {}
    for sh in xshapes:
        for o in sh["ops"]:
            if o["op"] in ("restart", "droporig"):
                x_aux_kinds[o["op"]] = x_aux_kinds.get(o["op"], 0) + 1
    coverage = {
        "evaluations": int(n_dec + inter_steps + sweep_vals),
        "distinct_nontrivial": int(n_cases + n_inter_distinct + n_xcases + n_xinter_distinct),
        "rule": "a case = (type term, class vector) enumerated by TLC from CodecGen.tla (terms closed under the harness' "
                "constructor table to nesting depth 3, each-choice class coverage: at most one node off its default class), "
                "counted after de-duplication; plus the distinct complete interning behaviours of Codec.tla (handle trees x "
                "registration x op sequence), the cross-type structure cases (handle leaves paired with handle partners of another "
                "type and the same content hash) and the cross-type interning behaviours. Every case is non-trivial by construction: it is concretised to a value, written "
                "back to back with two other cases into one stream by one encoder following a FIFO shape generated by TLC from "
                "Codec.tla, and read back by one decoder; each step is compared with the model's FIFO state (value, byte offset). "
                "evaluations = top-level decode steps judged + interning behaviour steps + statically typed sweep values.",
        "samples": samples[:2] + [{"interning_behaviour": one_inter}, {"cross_type_interning_behaviour": one_x},
                                  {"sweep": {k: sweeps[0][2][k] for k in ("type", "n", "bytes", "nfail")}}],
        "exhaustive": False,
        "tlc_structure_generation": gen_stats,
        "cases_emitted_by_tlc": n_emitted,
        "cases_distinct": n_cases,
        "cases_default_features": n_cases_base,
        "cases_with_known_bad_bitvec": n_frag,
        "fifo_shapes": len(shapes),
        "fifo_shape_states": r_sh["distinct"],
        "interning_behaviours": n_inter,
        "interning_generator_states": r_in["distinct"],
        "model_checking_of_Codec_tla": mc,
        "cross_type": {
            "premise": premise,
            "premise_holds": premise_ok,
            "types": {"S": "Interned<str>", "T": "Interned<String>", "W": "Interned<vh::codec::W> (derived new-type of String)",
                      "D": "Interned<Dyn> holding S and T in its content"},
            "interning_behaviours": n_xinter,
            "interning_generator_cfg": "CodecGenBehX.cfg" if quick else "CodecGenBehX3.cfg",
            "interning_generator_states": r_ix["distinct"],
            "structure_cases": n_xcases,
            "tlc_structure_generation": xgen_stats,
            "aux_shapes": len(xshapes),
            "aux_shape_kinds": x_aux_kinds,
            "aux_shape_states": r_sx["distinct"],
            "decode_contexts": ["same interner, originals alive", "originals dropped (droporig)", "fresh interner (restart)"],
            "oracles": ["decoded value == FIFO head", "decoder position == end offset recorded at encode", "final position == buffer length",
                        "(drift) inline/reference pattern == model", "(drift) equal (type, content) handles of one decoded value share one allocation"],
        },
        "replay_totals": totals,
        "layouts": {"per_encode": "Layout(k) of Codec.tla + seed, mod 3: 0 collected in order, 1 grown from both ends / reverse insertion "
                                  "into an over-sized table, 2 ring-buffer head moved by queue traffic / shrunk table",
                    "containers": ["Vec", "VecDeque", "LinkedList", "BTreeSet", "HashSet", "HashSet<_, Fx>", "HashMap", "HashMap<_, _, Fx>"],
                    "vecdeques_with_wrapped_ring_buffer_encoded": n_wrapped},
        "sweeps": [{"features": f, "types": len(sw), "values": sum(r["n"] for r in sw),
                    "exhaustive_domains": ["u8", "i8", "u16", "i16", "bool", "char"]} for f, sw in zip(("extras", "default"), sweeps)],
        "model_drift": counters["model_drift"],
        "first_drift": counters.get("first_drift"),
        "known_finding_hits": {k[6:]: v for k, v in counters.items() if k.startswith("known:")},
        "known_finding_examples": {k[14:]: v for k, v in counters.items() if k.startswith("known_example:")},
        "unattributed_failures": counters.get("unattributed_failures", 0),
        "impls": impls,
        "features": {"extras(smallvec+bitvec)": True, "default": True},
        "wall_build_s": round(t_build, 1),
        "wall_tlc_s": round(t_tlc, 1),
        "wall_replay_s": round(t_rep, 1),
    }
    vp.write_evidence(PID, tier, seed, "exploration", coverage, time.time() - t0, len(verdict.violations),
                      assumptions=[
                          "generic impls are exercised at T = vh::codec::Dyn (a value carrying its type term); the generic source "
                          "of an impl is the same for every T; a list of ordinary static instantiations is swept as well",
                          "byte-level fidelity (LEB128, zig-zag) is decided by executing the code on the enumerated classes, "
                          "exhaustively only for 8/16-bit integers, bool and char",
                          "Eq/Ord/Hash/StableHash of Dyn are harness-defined (floats by bit pattern, unordered collections sorted)",
                          "Path/PathBuf values are valid UTF-8 (non-UTF-8 paths are rejected by Encode by design)",
                      ])
    return rc


def impl_coverage(U):
    """Encode/Decode impls of the code under test and which universe entry exercises them."""
    names = {x["n"] for x in U["leaves"]} | {x["n"] for x in U["un"]} | {x["n"] for x in U["bin"]}
    table = {
        "u8 u16 u32 u64 u128 usize i8 i16 i32 i64 i128 isize bool char f32 f64 ()": "leaves U8..Unit + static sweeps",
        "str, &T, &mut T": "RefStr, Ref, RefMut (encode-only impls; decoded as the owned type)",
        "String, Box<str>, Rc<str>, Arc<str>, Cow<str>": "String BoxStr RcStr ArcStr CowStr",
        "Path, PathBuf, Box<Path>, Rc<Path>, Arc<Path>": "PathBuf BoxPath RcPath ArcPath",
        "Box<T> Rc<T> Arc<T> Cow<T>": "Box Rc Arc Cow",
        "[T] (encode), Box<[T]>, Rc<[T]>, Arc<[T]>, Cow<[T]>": "Slice BoxSlice RcSlice ArcSlice CowSlice",
        "Option<T>, Result<T,E>, Bound<T>": "Option Result Bound",
        "Vec VecDeque LinkedList BTreeSet HashSet<_,S> BTreeMap HashMap<_,_,S>": "Vec VecDeque LinkedList BTreeSet HashSet HashSetFx BTreeMap HashMap HashMapFx",
        "DashMap, DashSet": "DashMap DashSet",
        "[T; N]": "Array0 Array1 Array2 Array3 Array4 Array33",
        "tuples 1..12": "Tuple (arity 1..12), Pair, Triple",
        "PhantomData Duration Cell RefCell Wrapping Reverse": "Phantom Duration CellU32 CellI64 CellBool CellPair RefCell Wrapping Reverse",
        "NonZero{U,I}{8,16,32,64,128,size}": "NzU8..NzIsize",
        "Atomic{Bool,I8..Isize,U8..Usize}": "AtBool..AtUsize",
        "Range RangeInclusive RangeFrom RangeTo RangeToInclusive RangeFull": "Range RangeInclusive RangeFrom RangeTo RangeToInclusive RangeFull",
        "derive: unit/named/tuple struct, enum (unit/tuple/named variants, 132 variants), generic struct/enum, #[serialize(skip)]":
            "UnitStruct Named TupleStruct Enum BigEnum Gs Ge GSkip Gs2 Ge2",
        "Interned<T>, Interned<str>, Interned<[T]>, Interned<Path>, WiredInterned": "Interned IString IW IStr InternedSlice IPath + Codec.tla interning behaviours "
                                                                                    "(one type; and cross-type: equal content hash under Interned<str> / Interned<String> / Interned<W>)",
        "SmallVec<A> (feature smallvec)": "SmallVec2",
        "BitVec<T,O> (feature bitvec)": "BvUsizeLsb0 BvU8Lsb0 BvU8Msb0 BvU16Lsb0 BvU32Msb0 BvU64Lsb0",
    }
    missing = []
    for impl, by in table.items():
        for tok in by.replace(",", " ").replace("(", " ").replace(")", " ").split():
            if tok[0].isupper() and tok.isalnum() and tok not in names and tok not in ("Tuple", "Codec", "U8", "Unit", "NzU8", "NzIsize", "AtBool", "AtUsize"):
                missing.append(tok)
    return {"covered": table, "not_covered": ["malformed input (decode errors) is out of scope of the property"],
            "names_not_in_universe": sorted(set(missing))}


def _run_one(binp, beh, wd, seed, name="one"):
    inp = os.path.join(wd, f"{name}.ndjson")
    with open(inp, "w") as f:
        f.write(json.dumps({"id": name, "pool": beh["pool"], "ops": beh["ops"]}) + "\n")
    outp = os.path.join(wd, f"{name}.out.ndjson")
    p = vp.run([binp, "--mode", "beh", "--in", inp, "--out", outp, "--seed", str(seed), "--full", "1"], timeout=600, check=False)
    if p.returncode != 0:
        # the code under test killed the process
        ctors = set()
        for pv in beh["pool"]:
            if "t" in pv:
                term_ctors(pv["t"], ctors)
        return {"ok": False, "drift": [], "beh": beh,
                "fail": {"kind": "process_abort", "rc": p.returncode, "ctors": sorted(ctors), "got": (p.stdout or "")[-4000:]}}
    r = json.loads(open(outp).readline())
    if r.get("tool_error"):
        raise vp.ToolError(r["tool_error"])
    r["beh"] = beh
    return r


def replay(path):
    rp = json.load(open(path))
    wd = vp.workdir(PID, "replay")
    base, extra = build_bins(wd)
    binp = extra if rp.get("features") == "extras" else base
    known = known_map()
    seed = int(rp.get("seed", 1))
    if rp.get("origin") == "sweep":
        res = sweep(binp, os.path.join(wd, "sweep.ndjson"), seed, 20000)
        badr = [r for r in res if r["type"] == rp["sweep"]["type"] and (r.get("nfail") or not r.get("final_pos_ok", True))]
        if badr:
            print(f"VIOLATION property={PID} replay={path}")
            print("  ", json.dumps(badr[0])[:1500])
            return 1
        print(f"replay {path}: no violation of {PID}")
        return 0
    r = _run_one(binp, rp["beh"], wd, seed, "replay")
    fail = r.get("fail")
    if not fail:
        print(f"replay {path}: no violation of {PID}" + (f" (model drift: {r['drift'][:1]})" if r.get("drift") else ""))
        return 0
    kf = classify(fail, known, rp["beh"])
    if kf:
        print(f"KNOWN-FINDING: property={PID} {kf}: {known[kf]['what']}")
        return 0
    print(f"VIOLATION property={PID} replay={path}")
    print("  ", json.dumps(fail)[:2000])
    return 1


def selftest(seed):
    """Anti-vacuity of the binding: (1) an accepted behaviour replayed against deliberately wrong
    expectations (FIFO head, byte position, inline/reference pattern) must be rejected; (2) the
    counterexample class TLC finds in the as-is model must fail on the real code at the predicted
    step, and must not be attributed once the model prediction is removed; (3) signatures are specific."""
    wd = vp.clean_workdir(PID + "-selftest")
    os.makedirs(os.path.join(wd, "meta"), exist_ok=True)
    base, extra = build_bins(wd)
    known = known_map()
    ok = True
    shapesp, shapes, _ = gen_shapes(wd)
    sh = next(s for s in shapes if [o["op"] for o in s["ops"]] == ["enc", "enc", "enc", "dec", "dec", "dec"]
              and len({o["v"] for o in s["ops"] if o["op"] == "enc"}) == 3)
    pool = [{"t": ["U64", "b2"]}, {"t": ["String", "multibyte"]}, {"t": ["Vec", "two", ["Option", "some", ["I32", "b1"]]]}]
    beh = {"pool": pool, "ops": sh["ops"]}
    r = _run_one(base, beh, wd, seed, "accepted")
    print(f"selftest {PID}: accepted behaviour ok={r['ok']} steps={[ (s['op'], s.get('end', s.get('pos'))) for s in r['steps']]}")
    ok &= bool(r["ok"]) and not r["drift"]
    # (1a) wrong FIFO head
    b2 = json.loads(json.dumps(beh))
    d = [o for o in b2["ops"] if o["op"] == "dec"]
    d[0]["x"]["v"], d[1]["x"]["v"] = d[1]["x"]["v"], d[0]["x"]["v"]
    r2 = _run_one(base, b2, wd, seed, "wrong_head")
    print(f"selftest {PID}: expectation with the first two FIFO heads swapped -> ok={r2['ok']} kind={(r2.get('fail') or {}).get('kind')}")
    ok &= (not r2["ok"]) and classify(r2["fail"], known, b2) is None
    # (1b) wrong byte position (expect the offset of the following value)
    b3 = json.loads(json.dumps(beh))
    d = [o for o in b3["ops"] if o["op"] == "dec"]
    d[0]["x"]["pos"] = 2
    r3 = _run_one(base, b3, wd, seed, "wrong_pos")
    print(f"selftest {PID}: expectation with a wrong stream position -> ok={r3['ok']} kind={(r3.get('fail') or {}).get('kind')}")
    ok &= (not r3["ok"]) and r3["fail"]["kind"] == "pos_mismatch"
    # (2) interning: model counterexample on the real code
    interp, n, _, _ = gen_interning(wd)
    cex = None
    clean = None
    for line in open(interp):
        b = json.loads(line)
        if any(o["op"] == "dec" and o["x"]["fail"] for o in b["ops"]):
            cex = cex or b
        elif clean is None and any("R" in o.get("x", {}).get("sr", "") for o in b["ops"]):
            clean = b
        if cex and clean:
            break
    r4 = _run_one(base, cex, wd, seed, "asis_cex")
    f4 = r4.get("fail") or {}
    print(f"selftest {PID}: as-is model counterexample on the real code -> ok={r4['ok']} kind={f4.get('kind')} "
          f"step={f4.get('step')} attributed={classify(f4, known, cex)}")
    ok &= (not r4["ok"]) and classify(f4, known, cex) == "KF_INTERN_REF"
    c2 = json.loads(json.dumps(cex))
    for o in c2["ops"]:
        if o["op"] == "dec":
            o["x"]["fail"] = False
    r5 = _run_one(base, c2, wd, seed, "asis_cex_unpredicted")
    print(f"selftest {PID}: same failure without the model's prediction -> attributed={classify(r5.get('fail'), known, c2)} (must be None)")
    ok &= classify(r5.get("fail"), known, c2) is None
    # (1c) wrong inline/reference pattern -> reported as drift of the mechanism model, not as a verdict
    c3 = json.loads(json.dumps(clean))
    e = next(o for o in c3["ops"] if o["op"] == "enc" and "R" in o["x"]["sr"])
    e["x"]["sr"] = e["x"]["sr"].replace("R", "S")
    r6 = _run_one(base, c3, wd, seed, "wrong_sr")
    print(f"selftest {PID}: wrong inline/reference pattern -> ok={r6['ok']} drift={[x['what'] for x in r6['drift']][:1]}")
    ok &= bool(r6["ok"]) and bool(r6["drift"])
    # (3) signature specificity
    ok &= classify({"kind": "value_mismatch", "ctors": ["BvU8Lsb0", "Vec"]}, known) is None
    ok &= classify({"kind": "value_mismatch", "ctors": ["U64"]}, known) is None
    ok &= classify({"kind": "decode_panic", "got": "other panic", "model_fail": True, "ctors": ["Interned"], "ref": {"inline_before": True}}, known) is None
    ok &= classify({"kind": "decode_panic", "got": INTERN_MSG, "model_fail": True, "ctors": ["Interned"], "ref": {"inline_before": False}}, known) is None
    ok &= ("KF_INTERN_REF" not in known) or classify({"kind": "decode_panic", "got": INTERN_MSG, "model_fail": True, "ctors": ["Interned"], "ref": {"inline_before": True}}, known) == "KF_INTERN_REF"
    # (4) spec mutation: the as-is switch setting must violate FIFO in TLC, the repaired one must not; with the
    #     seen set keyed by the bare hash (SeenByHashOnly) TLC must find the round-trip violation over the
    #     cross-type pool, with the (type, hash) key it must not (model_check raises otherwise)
    mc = model_check(wd, True)
    print(f"selftest {PID}: Codec.tla as-is: {mc['unregistered_allowed_as_is']['result']}; with repair: {mc['unregistered_allowed_with_repair']['result']}")
    print(f"selftest {PID}: Codec.tla cross-type, (type, hash) key: {mc['cross_type_registered_as_is']['result']} "
          f"({mc['cross_type_registered_as_is']['states']} states); mutation SeenByHashOnly: {mc['cross_type_mutation_SeenByHashOnly']['result']}")
    # (5) cross-type binding.  (5a) a behaviour of the MUTATED model that predicts a decode failure, replayed on the
    #     real code: the code does not have the mutation, so it must succeed, and the harness must see that it
    #     differs from the prediction (inline/reference pattern read off the tag bytes, predicted failure)
    premise = json.loads(vp.run([base, "--mode", "hashes"]).stdout)
    print(f"selftest {PID}: equal text hashes equal as str/String/W on the real hasher: {premise['equal_hash_str_String_W']}, "
          f"distinct type ids: {premise['distinct_type_ids']}")
    ok &= bool(premise["equal_hash_str_String_W"]) and bool(premise["distinct_type_ids"])
    mutp, nm, _, _ = gen_interning(wd, True, "CodecGenBehXmut.cfg", "interning_xmut.ndjson", 1)
    # (one with dropped originals: that behaviour is complete in the generator of (5b) as well)
    mcex = next((b for b in map(json.loads, open(mutp)) if any(o["op"] == "dec" and o["x"]["fail"] for o in b["ops"])
                 and any(o["op"] == "droporig" for o in b["ops"])), None)
    ok &= mcex is not None
    r7 = _run_one(base, mcex, wd, seed, "xmut_cex")
    print(f"selftest {PID}: behaviour of the mutated model ({[o['op'] for o in mcex['ops']]}, pool value {mcex['pool'][mcex['ops'][0]['v'] - 1]['h']['top']}) "
          f"on the real code -> ok={r7['ok']} drift={[x['what'] for x in r7['drift']]}")
    ok &= bool(r7["ok"]) and any("pattern at encode" in x["what"] for x in r7["drift"]) and any("predicted a decode failure" in x["what"] for x in r7["drift"])
    # (5b) the same behaviour from the model as the code is: accepted without drift
    xp, nx, _, _ = gen_interning(wd, True, "CodecGenBehX.cfg", "interning_x.ndjson", 2)
    shape = [(o["op"], o.get("v", o.get("x", {}).get("v"))) for o in mcex["ops"]]
    twin = next((b for b in map(json.loads, open(xp)) if [(o["op"], o.get("v", o.get("x", {}).get("v"))) for o in b["ops"]] == shape), None)
    ok &= twin is not None
    r8 = _run_one(base, twin, wd, seed, "x_twin")
    print(f"selftest {PID}: the same ops from the (type, hash) model -> ok={r8['ok']} drift={r8['drift']} "
          f"sr={[s_.get('sr') for s_ in r8['steps'] if s_['op'] in ('enc', 'dec')]}")
    ok &= bool(r8["ok"]) and not r8["drift"]
    # (5c) a failure with the interning panic message on a reference that has NO inline copy of its own type
    #      earlier in the value (what a seen set keyed by the bare hash produces) is never attributed to
    #      KF_INTERN_REF: neither with the model's prediction nor with the structural signature
    fx = {"kind": "decode_panic", "got": "x " + INTERN_MSG, "model_fail": True, "v": 1, "step": 3, "ctors": ["IStr", "IString", "Interned", "Tuple"],
          "ref": {"occurrence": 3, "type": "String", "inline_before": False, "same_hash_other_type_before": True}}
    sx = {"pool": [{"t": ["Interned", "intern", ["Tuple", "eq", ["IStr", "dup"], ["IString", "intern"]]]}],
          "ops": [{"op": "enc", "v": 1}, {"op": "restart"}, {"op": "dec", "x": {"v": 1, "pos": 1, "fail": False}}]}
    ok &= classify(fx, known, sx) is None and classify(fx, known, twin) is None
    fx["ref"]["inline_before"] = True
    ok &= ("KF_INTERN_REF" not in known) or classify(fx, known, sx) == "KF_INTERN_REF"
    print(f"selftest {PID}: a failing reference without an inline copy of its own type is not attributed to KF_INTERN_REF: {'ok' if ok else 'FAILED'}")
    print("selftest", "passed" if ok else "FAILED")
    return 0 if ok else 2
