"""C04 - input sessions are atomic and readers see one input snapshot.

specs/EnginePhase.tla models tracked() / input_session() / set / commit or plain drop of
the session (its commit then runs in a spawned task that owns the guard) at the
granularity of the code (lock acquisition, timestamp load, timestamp bump as
separate steps) and is model-checked for ReaderSeesSnap, Exclusion and
Progress.  Its behaviours are (task, step) schedules: they are replayed on the
real engine, one OS thread per task, the steps inside tracked() and
input_session() being reached through the cfg-guarded points of qbice::verif.
The recorded execution is judged by EngineObsTrace (snapshot semantics of
Tracked/Query).  A free-running multi-threaded stress adds recorded traces."""
import json
import os
import random
import time

import engcommon as ec
import vp

PID = "C04"
KINDS = {"query_value", "read_value", "reader_during_session", "session_with_live_reader",
         "nested_session", "no_progress", "set_result", "refresh_skipped_external", "external_value"}


def probe(bd):
    p = vp.run_subject([os.path.join(bd, "eng_phase"), "--mode", "probe"], timeout=120)
    return p.stdout.strip().splitlines()[-1]


def gen_schedules(cfg, extra=None):
    r = vp.tlc("EnginePhase", cfg=cfg, workers=4, timeout=900, extra=extra, check_ok=False, xmx="6g")
    out = []
    for line in r["out"].splitlines():
        if line.startswith('"{'):
            out.append(json.loads(json.loads(line)))
    return out, r


def run(tier, seed):
    t0 = time.time()
    bd = vp.build()
    wd = vp.clean_workdir(PID)
    verdict = vp.Verdict(PID)
    quick = tier != "thorough"
    variant = probe(bd)
    fixed = variant == "lock_before_bump"
    if variant == "unknown":
        raise vp.ToolError("cannot determine the order of the points in input_session()")
    # design-level result for the variant the code has
    mc = vp.tlc("EnginePhase", cfg="EnginePhase_fixed.cfg" if fixed else "EnginePhase_asis.cfg",
                workers=4, timeout=600, check_ok=False)
    live = vp.tlc("EnginePhase", cfg="EnginePhase_live.cfg", workers=2, timeout=300, check_ok=False)
    # the repaired order at larger bounds: 4 readers x 2 queries, 3 sessions each committed or dropped
    big_mc = vp.tlc("EnginePhase", cfg="EnginePhase_fixed_big.cfg", workers=8, timeout=900, check_ok=False) if fixed else None
    model_holds = mc["ok"]
    # schedules of the matching variant
    scheds, g = gen_schedules("EnginePhase_genfixed.cfg" if fixed else "EnginePhase_gen.cfg")
    if not scheds:
        raise vp.ToolError("schedule generator produced nothing:\n" + g["out"][-2000:])
    rnd = random.Random(seed)
    bad = [s for s in scheds if s["bad"]]
    good = [s for s in scheds if not s["bad"]]
    rnd.shuffle(good)
    chosen = bad + (good[:600] if quick else good)
    # second exhaustive family: one reader, two sessions, each committed or simply dropped (the next session
    # is requested while the spawned commit of the dropped one may still be running)
    cfg2 = os.path.join(wd, "gen2.cfg")
    open(cfg2, "w").write(f"""SPECIFICATION Spec
CONSTANTS
  Readers = {{1}}
  MaxSessions = 2
  QueriesPerReader = 1
  LockBeforeBump = {'TRUE' if fixed else 'FALSE'}
  DropSessions = TRUE
  EarlyRelease = FALSE
  Emit = TRUE
CHECK_DEADLOCK FALSE
""")
    two, g2 = gen_schedules(cfg2)
    if not two:
        raise vp.ToolError("schedule generator (two sessions) produced nothing:\n" + g2["out"][-2000:])
    chosen += two
    big = []
    if not quick:
        cfg3 = os.path.join(wd, "gen3.cfg")
        open(cfg3, "w").write(f"""SPECIFICATION Spec
CONSTANTS
  Readers = {{1, 2, 3}}
  MaxSessions = 2
  QueriesPerReader = 2
  LockBeforeBump = {'TRUE' if fixed else 'FALSE'}
  DropSessions = TRUE
  EarlyRelease = FALSE
  Emit = TRUE
CHECK_DEADLOCK FALSE
""")
        big, _ = gen_schedules(cfg3, extra=["-simulate", "num=6000", "-depth", "80", "-seed", str(seed)])
    sin = os.path.join(wd, "schedules.ndjson")
    with open(sin, "w") as f:
        for s in chosen + big:
            f.write(json.dumps(s) + "\n")
    tr = os.path.join(wd, "sched.ndjson")
    vp.run_subject([os.path.join(bd, "eng_phase"), "--mode", "schedules", "--in", sin, "--out", tr], timeout=3000)
    traces = [(tr, "schedule replay")]
    for i, readers in enumerate((2, 5, 12) if quick else (2, 3, 5, 8, 12, 15)):
        ts = os.path.join(wd, f"stress_{i}.ndjson")
        vp.run_subject([os.path.join(bd, "eng_phase"), "--mode", "stress", "--readers", str(readers),
                "--millis", "400" if quick else "1500", "--rounds", "2", "--seed", str(seed + i),
                "--out", ts], timeout=600)
        traces.append((ts, f"stress readers={readers}"))

    # richer programs (firewalls, projections, several inputs written by one session): sequential
    # histories in the sweep regime, where no known finding is reachable; a session must take effect
    # as a whole for every reader handed out afterwards
    for i in range(2 if quick else 8):
        tq = os.path.join(wd, f"seq_{i}.ndjson")
        ec.eng_seq(bd, tq, seed=seed * 1000 + 700 + i, runs=80 if quick else 150, steps=40, cfg="mem", sweep=1)
        traces.append((tq, "sequential sessions on random programs (sweep regime)"))

    # the same over DbBacked<MemKv> with clean restarts between sessions (sweep regime): a reader handed
    # out after a reopen and a commit must not see the new epoch with results of the old inputs
    for i in range(1 if quick else 4):
        tq = os.path.join(wd, f"seq_restart_{i}.ndjson")
        ec.eng_persist(bd, tq, seed=seed * 1000 + 750 + i, runs=60 if quick else 150, steps=40, regime="hold", sweep=1)
        traces.append((tq, "sequential sessions with clean restarts (sweep regime, DbBacked<MemKv>)"))

    # a session that refreshes MANY external inputs (re-executed in parallel chunks; counts around the chunking
    # thresholds of this machine) and sets an ordinary input takes effect all at once: after the commit every
    # external shows the world of the refresh (tools/gen_refresh.py, judged by EngineObsLite)
    rcases = os.path.join(wd, "refresh.cases")
    rgen = json.loads(vp.run(["python3", os.path.join(vp.ROOT, "tools", "gen_refresh.py"), rcases, str(seed)]).stdout.strip().splitlines()[-1])
    rtr = os.path.join(wd, "refresh.ndjson")
    vp.run_subject([os.path.join(bd, "eng_seq"), "--mode", "replay", "--cfg", "mem", "--in", rcases, "--out", rtr], timeout=3000)
    rres, rr = ec.validate_lite(rtr, rtr + ".result.json")
    refresh_leg = {"externals_per_program": rgen["externals"], "events_validated": rres["events"], "checked": rres["stats"],
                   "violations": sum(1 for v in rres["viol"] if v["kind"] in KINDS)}
    for v in [v for v in rres["viol"] if v["kind"] in KINDS][:3]:
        verdict.violation(f"{v['kind']} node={v['n']} got={v['got']} want={v['want']} (wide refresh family)",
                          {"property": PID, "violation": v, "origin": "wide refresh family", "lite": True,
                           "case_file_generator": f"tools/gen_refresh.py OUT {seed}"})

    states = transitions = events = 0
    by_kind = {}
    stats = {}
    viols = []
    for tpath, origin in traces:
        res, r = ec.validate(tpath, tpath + ".result.json")
        states += r["distinct"]; transitions += r["generated"]; events += res["events"]
        for k, v in res["stats"].items():
            stats[k] = stats.get(k, 0) + v
        for v in res["viol"]:
            if v["kind"].startswith("harness_"):
                raise vp.ToolError(f"harness inconsistency {v} in {tpath}")
            if v["kind"] in KINDS:
                by_kind[v["kind"]] = by_kind.get(v["kind"], 0) + 1
                viols.append((tpath, origin, v))
    for tpath, origin, v in viols[:5]:
        evs = vp.read_ndjson(tpath)
        run_events, start = vp.run_containing(evs, v["at"])
        # the schedule that was being replayed (same index as the run)
        run_idx = sum(1 for e in evs[:v["at"] - 1] if e.get("e") == "reset")
        sched = (chosen + big)[run_idx] if origin == "schedule replay" and run_idx < len(chosen + big) else None
        verdict.violation(f"{v['kind']} node={v['n']} got={v['got']} want={v['want']} ({origin})",
                          {"property": PID, "violation": v, "origin": origin, "schedule": sched,
                           "events": run_events[:80]})
    rc = verdict.finish()
    coverage = {
        "states": mc["distinct"] + live["distinct"] + g["distinct"] + states + (big_mc["distinct"] if big_mc else 0),
        "transitions": mc["generated"] + live["generated"] + g["generated"] + transitions,
        "traces_validated_against_impl": len(chosen) + len(big) + len(traces) - 1,
        "samples": [{"schedule": chosen[0]}, {"schedule": chosen[-1]}],
        "code_variant": variant,
        "model": {"config": "EnginePhase_fixed.cfg" if fixed else "EnginePhase_asis.cfg",
                  "ReaderSeesSnap_holds": model_holds, "distinct_states": mc["distinct"],
                  "liveness_Progress_holds": live["ok"], "liveness_states": live["distinct"],
                  "larger_bounds": None if big_mc is None else {
                      "config": "EnginePhase_fixed_big.cfg (4 readers x 2 queries, 3 sessions, committed or dropped)",
                      "invariants_hold": big_mc["ok"], "distinct_states": big_mc["distinct"]}},
        "schedules_exhaustive_2readers_1session": len(scheds),
        "schedules_exhaustive_1reader_2sessions": len(two),
        "schedules_with_a_dropped_session": sum(1 for b in chosen + big if any(x["s"] == "drop_session" for x in b["steps"])),
        "schedules_predicted_bad_by_model": len(bad),
        "schedules_replayed": len(chosen) + len(big),
        "stress_traces": len(traces) - 1,
        "wide_refresh_family": refresh_leg,
        "events_validated": events,
        "checked": stats,
        "violations_by_kind": by_kind,
    }
    vp.write_evidence(PID, tier, seed, "model_checking", coverage, time.time() - t0,
                      len(verdict.violations),
                      assumptions=["tokio's RwLock is fair (a queued writer blocks new readers), as modelled",
                                   "one input and one dependent query stand for the whole program in the "
                                   "schedule replay and the stress; richer programs (firewalls, several inputs "
                                   "per session) are exercised sequentially in the sweep regime",
                                   "event order in stress traces: Tracked/Begin/Set logged after the call "
                                   "returns, Drop and Commit logged before the call"])
    return rc


def replay(path):
    rp = json.load(open(path))
    bd = vp.build()
    wd = vp.workdir(PID, "replay")
    if rp.get("lite"):
        return ec.lite_replay(PID, path, rp, KINDS)
    if not rp.get("schedule"):
        print("replay: the violation came from a free-running stress; re-run the check")
        return 2
    sin = os.path.join(wd, "s.ndjson")
    open(sin, "w").write(json.dumps(rp["schedule"]) + "\n")
    tr = os.path.join(wd, "t.ndjson")
    vp.run_subject([os.path.join(bd, "eng_phase"), "--mode", "schedules", "--in", sin, "--out", tr], timeout=300)
    res, _ = ec.validate(tr, tr + ".result.json")
    bad = [v for v in res["viol"] if v["kind"] in KINDS]
    if bad:
        print(f"VIOLATION property={PID} replay={path}")
        for v in bad[:5]:
            print("  ", v)
        return 1
    print(f"replay {path}: no violation of {PID}")
    return 0


def selftest(seed):
    """(1) The as-is variant of the model must violate ReaderSeesSnap (the
    invariant is not vacuous). (2) Corrupting one recorded reader value makes
    TLC reject the trace."""
    bd = vp.build()
    wd = vp.clean_workdir(PID + "-selftest")
    mc = vp.tlc("EnginePhase", cfg="EnginePhase_asis.cfg", workers=2, timeout=300, check_ok=False)
    ok1 = "ReaderSeesSnap" in mc["invariant_violated"]
    print(f"selftest {PID}: model with bump-before-lock violates ReaderSeesSnap: {ok1}")
    mc2 = vp.tlc("EnginePhase", cfg="EnginePhase_mut_earlyrelease.cfg", workers=2, timeout=300, check_ok=False)
    ok1b = "ReaderSeesSnap" in mc2["invariant_violated"]
    print(f"selftest {PID}: model whose dropped session releases the guard before propagating violates ReaderSeesSnap: {ok1b}")
    ok1 = ok1 and ok1b
    ts = os.path.join(wd, "s.ndjson")
    vp.run_subject([os.path.join(bd, "eng_phase"), "--mode", "stress", "--readers", "2", "--millis", "100",
            "--rounds", "1", "--out", ts], timeout=120)
    ev = vp.read_ndjson(ts)
    done = False
    t2 = os.path.join(wd, "s2.ndjson")
    with open(t2, "w") as f:
        for e in ev:
            if not done and e["e"] == "query":
                e = dict(e); e["v"] += 1; done = True
            f.write(json.dumps(e) + "\n")
    res, _ = ec.validate(t2, t2 + ".json")
    ok2 = any(v["kind"] == "query_value" for v in res["viol"])
    print(f"selftest {PID}: corrupted reader value flagged: {ok2}")
    ok = ok1 and ok2
    print("selftest", "passed" if ok else "FAILED")
    return 0 if ok else 2
