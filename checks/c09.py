"""C09 - cached maps always return the latest write (read-your-writes).

Pipeline (see specs/WideColumnCache.tla, KeyOfSetCache.tla, CacheObsTrace.tla,
WideColumnCacheTrace.tla, KeyOfSetCacheTrace.tla and harness/src/bin/cache_replay.rs):

 1. design check: TLC on the two mechanism specs - exhaustive with every
    repair switched on (all invariants hold), and with each defect switch as
    coded (TLC must produce the counterexample).
 2. S->I: TLC prints behaviours (every ReadYourWrites counterexample of the
    as-coded models in replayable interleavings + random walks) which
    cache_replay executes step by step on the real maps over a gated MemKv.
 2b. mutation-guided S->I: the models carry switches for plausible slips the
    code does NOT have (LateSnapshot, LateSnapFetch, FillOverwrite,
    NoNegativeEntry); the ReadYourWrites counterexamples of each mutant model
    are replayed on the real maps, where every read must be right.
 3. I->S: seeded random sequential and parallel histories of the real maps.
 4. verdict: every recorded execution (2 and 3) is judged by TLC against the
    reference map (CacheObsTrace).  A run with a failing read is then
    validated against the mechanism spec *as coded* (…CacheTrace): it is a
    KNOWN-FINDING only if the as-coded model reproduces every observed result
    and every wrong element carries a known-finding signature; anything else
    is a VIOLATION.
"""
import collections
import json
import os
import random
import re
import time

import vp

PID = "C09"

# proposed entries for /verif/known_findings.json (merged by the maintainer of
# that file; until then this constant is used together with the file)
LOCAL_KNOWN = [
    {"property": PID, "id": "KF_STALE_FILL", "status": "known", "tag": "KF4",
     "what": "wide-column cache (CacheSingleMap / CacheDynamicMap) keeps a stale fill: a reader that missed and read the store is overtaken by a write to the same key that is committed, unpinned and evicted before the reader's insert-if-vacant runs; every later get returns the old value (wide_column_cache.rs get: init() + tiny_lfu.entry Vacant)"},
    {"property": PID, "id": "KF_LOST_INSERT", "status": "known", "tag": "KF5",
     "what": "key-of-set cache loses a write that completes while another reader is between its staging snapshot and its insert-if-vacant: the set built from the old snapshot is installed and served until evicted (key_of_set_map/cache.rs get_entry / fetch_entry / apply_op step 2)"},
    {"property": PID, "id": "KF_OVERLAY_RETAINED", "status": "known", "tag": "KF6",
     "what": "staging overlay wrong for an element that has a committed operation still in the log (FlushUpTo pops only while the heap maximum <= epoch) and another operation on the same element: the snapshot fold cancels them in heap order, so store + overlay misses a pending re-insert or forgets a pending remove (key_of_set_map/cache.rs FlushUpTo, get_snapshot)"},
    {"property": PID, "id": "KF_OVERLAY_FOLD", "status": "known", "tag": "FOLD",
     "what": "staging overlay wrong with pending operations only: the snapshot fold cancels insert/remove pairs regardless of order and of what the store holds (remove-then-insert of an absent element, insert-then-remove of a present one, or three operations whose heap order is scrambled), read through the fetch / streaming path (key_of_set_map/cache.rs get_snapshot)"},
    {"property": PID, "id": "KF_SPILL_CUT", "status": "known", "tag": "SPILL",
     "what": "Spilled iterator (fetch of a set with more than 1024 stored elements) stops at the first staged-removed element of the half-constructed set once the rest of the scan and the staged additions are exhausted: elements are missing from the iteration (key_of_set_map/cache.rs MergeIterator::Spilled)"},
]

TRACE_EVENTS = {"run", "new", "ws", "we", "sub", "gs", "ge", "db", "dbx", "cs", "ce", "flood", "panic", "dead", "reset"}


def known_by_tag(verdict):
    """tag -> finding, from known_findings.json (status known) and the local list."""
    out = {}
    for k in LOCAL_KNOWN:
        out[k["tag"]] = k
    filed = {k["id"]: k for k in vp.load_known() if k["property"] == PID}
    for tag, k in list(out.items()):
        f = filed.get(k["id"])
        if f is not None and f.get("status") != "known":
            del out[tag]  # fixed: suppresses nothing
    return out


# --------------------------------------------------------------------- TLC

def tlc_mc(module, cfg, timeout=600, extra=None, workers=4, coverage=False):
    return vp.tlc(module, cfg=cfg, workers=workers, timeout=timeout, extra=extra,
                  coverage=coverage, xmx="6g")


def printed_json(out):
    res = []
    for line in out.splitlines():
        if line.startswith('"{'):
            try:
                res.append(json.loads(json.loads(line)))
            except Exception:
                pass
    return res


def design_check(tier, ev, wd):
    """Exhaustive TLC runs; returns (states, transitions)."""
    states = trans = 0
    clean = [("WideColumnCache", "WideColumnCache_MC2.cfg"), ("KeyOfSetCache", "KeyOfSetCache_MC.cfg")]
    if tier == "thorough":
        clean += [("WideColumnCache", "WideColumnCache_MC.cfg"), ("KeyOfSetCache", "KeyOfSetCache_MC2k.cfg"),
                  ("KeyOfSetCache", "KeyOfSetCache_MC3.cfg"),
                  ("KeyOfSetCache", "KeyOfSetCache_DFlush.cfg"), ("KeyOfSetCache", "KeyOfSetCache_AsIs.cfg"),
                  ("WideColumnCache", "WideColumnCache_MC4K.cfg")]
    runs = []
    for mod, cfg in clean:
        r = tlc_mc(mod, cfg, timeout=1500)
        if not r["ok"]:
            raise vp.ToolError(f"design check {cfg}: TLC reports {r['invariant_violated']} on the repaired model\n{r['out'][-2500:]}")
        states += r["distinct"]
        trans += r["generated"]
        runs.append({"cfg": cfg, "distinct": r["distinct"], "generated": r["generated"],
                     "depth": r["depth"], "wall_s": round(r["wall_s"], 1), "result": "no error"})
    expect = [("WideColumnCache", "WideColumnCache_MC4.cfg"), ("KeyOfSetCache", "KeyOfSetCache_D5.cfg"),
              ("KeyOfSetCache", "KeyOfSetCache_D6.cfg"), ("KeyOfSetCache", "KeyOfSetCache_DFold.cfg"),
              ("KeyOfSetCache", "KeyOfSetCache_DSpill.cfg" if tier == "thorough"
               else derive_cfg(wd, "KeyOfSetCache_DSpill.cfg", MaxBatches=2))]
    # mutants: slips the code does not have; each must break ReadYourWrites in the model
    expect += [("KeyOfSetCache", "KeyOfSetCache_DLate.cfg" if tier == "thorough"
                else derive_cfg(wd, "KeyOfSetCache_DLate.cfg", MaxBatches=2)),
               ("KeyOfSetCache", "KeyOfSetCache_DLateF.cfg"),
               ("WideColumnCache", "WideColumnCache_DOverwrite.cfg"),
               ("WideColumnCache", "WideColumnCache_DNoNeg.cfg")]
    for mod, cfg in expect:
        r = tlc_mc(mod, cfg, timeout=600)
        if "ReadYourWrites" not in r["invariant_violated"]:
            raise vp.ToolError(f"design check {cfg}: expected a ReadYourWrites counterexample with the defect as coded\n{r['out'][-2500:]}")
        states += r["distinct"]
        trans += r["generated"]
        runs.append({"cfg": os.path.basename(cfg), "distinct": r["distinct"], "generated": r["generated"],
                     "wall_s": round(r["wall_s"], 1), "result": "ReadYourWrites violated (expected)"})
    ev["design_runs"] = runs
    return states, trans


def derive_cfg(wd, base, **consts):
    """Copy specs/<base> into the work dir with some constants replaced."""
    s = open(os.path.join(vp.SPECS, base)).read()
    for k, v in consts.items():
        s, n = re.subn(r"(?m)^  %s = .*$" % k, "  %s = %s" % (k, v), s)
        if n != 1:
            raise vp.ToolError(f"cannot set {k} in {base}")
    path = os.path.join(wd, base)
    with open(path, "w") as f:
        f.write(s)
    return path


# The mechanism model follows the code: a defect switch is "as coded" (TRUE) while its finding is open and is
# turned off once known_findings.json records the repair, so that generated behaviours, predictions and the
# classification of failing runs are made with the model of the code as it is now.
SWITCH_OF = {"StaleFill": "KF_STALE_FILL", "LostInsert": "KF_LOST_INSERT", "FlushMax": "KF_OVERLAY_RETAINED",
             "FoldCancel": "KF_OVERLAY_FOLD", "SpillCut": "KF_SPILL_CUT"}


def code_switches(base):
    filed = {k["id"]: k.get("status") for k in vp.load_known() if k["property"] == PID}
    txt = open(os.path.join(vp.SPECS, base)).read()
    out = {}
    for sw, kid in SWITCH_OF.items():
        if re.search(r"(?m)^  %s = " % sw, txt):
            out[sw] = "FALSE" if filed.get(kid) == "fixed" else "TRUE"
    return out


def code_cfg(wd, base, **consts):
    c = code_switches(base)
    c.update(consts)
    return derive_cfg(wd, base, **c)


FILL_LO, FILL_N = 200, 1023   # filler elements that scale the model threshold 1 to the real 1024


def scale_steps(steps, keys):
    """Prefix a set behaviour with a committed bulk insert of FILL_N fillers per key
    (batch ids of the behaviour move up by one)."""
    out = [{"a": "new", "c": 1, "b": 0}]
    for k in keys:
        out.append({"a": "insr", "c": 1, "b": 0, "k": k, "v": FILL_LO, "hi": FILL_LO + FILL_N})
    out += [{"a": "submit", "c": 1, "b": 0}, {"a": "commit", "b": 0}, {"a": "evict"}]
    for s in steps:
        s = dict(s)
        if "b" in s:
            s["b"] += 1
        out.append(s)
    return out


def gen_behaviours(wd, seed, tier, ev):
    """TLC as behaviour generator. Returns list of behaviours (dicts)."""
    behs = []
    rng = random.Random(seed)
    q = tier == "quick"
    ncex = 24 if q else 150
    nsim = 60 if q else 600
    cov = {}
    fams = [("WideColumnCache", code_cfg(wd, "WideColumnCache_Cex.cfg", **({"MaxOps": 2} if q else {})),
             code_cfg(wd, "WideColumnCache_Gen.cfg"), False),
            ("KeyOfSetCache", code_cfg(wd, "KeyOfSetCache_Cex.cfg", **({"MaxBatches": 2} if q else {})),
             code_cfg(wd, "KeyOfSetCache_Gen.cfg"), False),
            ("KeyOfSetCache", code_cfg(wd, "KeyOfSetCache_CexL.cfg", **({} if q else {"MaxOps": 6})),
             code_cfg(wd, "KeyOfSetCache_GenL.cfg"), True)]
    for mod, cexcfg, gencfg, scaled in fams:
        if scaled:
            ncex_f, nsim_f = (8, 12) if q else (40, 80)
        else:
            ncex_f, nsim_f = ncex, nsim
        r = vp.tlc(mod, cfg=cexcfg, workers=4, timeout=1500, extra=["-continue"], check_ok=False, xmx="6g")
        cex = [b for b in printed_json(r["out"]) if "cex" in b]
        if not cex and "FALSE" not in code_switches(os.path.basename(cexcfg)).values():
            raise vp.ToolError(f"{cexcfg}: the as-coded model printed no counterexample\n{r['out'][-2000:]}")
        # one shortest representative per (tag set, step shape) class, then a seeded sample
        classes = collections.OrderedDict()
        for b in cex:
            last = b["steps"][-1]
            tags = tuple(sorted({t[1] for t in last.get("tags", [])})) if mod == "KeyOfSetCache" else (last.get("tag", ""),)
            shape = tuple(s["a"] for s in b["steps"])
            key = (tags, shape)
            if key not in classes:
                classes[key] = b
        reps = list(classes.values())
        by_tag = collections.defaultdict(list)
        for (tags, _), b in classes.items():
            by_tag[tags].append(b)
        chosen = []
        for tags, lst in by_tag.items():
            lst.sort(key=lambda b: len(b["steps"]))
            chosen += lst[:3]
        rest = [b for b in reps if b not in chosen]
        rng.shuffle(rest)
        chosen += rest[:max(0, ncex_f - len(chosen))]
        for b in chosen:
            b["origin"] = "cex"
            b["scaled"] = scaled
        behs += chosen
        cov[os.path.basename(cexcfg) + ("" if not scaled else "")] = {"counterexamples": len(cex), "classes": len(classes), "replayed": len(chosen),
                       "distinct": r["distinct"], "generated": r["generated"]}
        ev["states"] = ev.get("states", 0) + r["distinct"]
        ev["transitions"] = ev.get("transitions", 0) + r["generated"]
        g = vp.tlc(mod, cfg=gencfg, workers=1, timeout=900, check_ok=False,
                   extra=["-simulate", f"num={nsim_f}", "-depth", "250", "-seed", str(seed)])
        sim = [b for b in printed_json(g["out"]) if "cex" not in b]
        if not sim:
            raise vp.ToolError(f"{gencfg}: generator printed no behaviour\n{g['out'][-2000:]}")
        for b in sim:
            b["origin"] = "sim"
            b["scaled"] = scaled
        behs += sim
        cov[os.path.basename(gencfg)] = {"walks": len(sim)}
    ev["generator"] = cov
    # concrete maps: the wide model is replayed on the single and on the dynamic map
    out = []
    for i, b in enumerate(behs):
        steps = [s for s in b["steps"] if s["a"] != "end"]
        if b["map"] == "wide":
            m = "single" if i % 2 == 0 else "dynamic"
        else:
            m = "set"
        if b.get("scaled"):
            keys = sorted({s["k"] for s in steps if "k" in s})
            steps = scale_steps(steps, keys)
        out.append({"map": m, "cap": 1, "clients": max(2, b.get("clients", 2)), "steps": steps,
                    "origin": b["origin"], "scaled": bool(b.get("scaled")), "name": f"{b['origin']}-{i}"})
    path = os.path.join(wd, "behaviours.ndjson")
    with open(path, "w") as f:
        for b in out:
            f.write(json.dumps(b) + "\n")
    return path, out


# ------------------------------------------------- mutation-guided replays

# Plausible slips of the read path that the code does NOT have.  The mutant model (every finding switch
# repaired, one mutation switch on) is explored in the replayable configuration; the history of every get
# that violates ReadYourWrites THERE is a behaviour that would expose the slip in the code.  They are
# executed on the real maps, where every read must equal the reference map.
MUTANTS = [
    # switch, module, base cfg, constants (quick), constants (thorough), scaled to the real 1024 threshold
    ("LateSnapshot", "KeyOfSetCache", "KeyOfSetCache_CexL.cfg", {"MaxOps": 5}, {"MaxOps": 6}, True),
    ("LateSnapFetch", "KeyOfSetCache", "KeyOfSetCache_Cex.cfg", {"MaxBatches": 2}, {}, False),
    ("FillOverwrite", "WideColumnCache", "WideColumnCache_Cex.cfg", {"MaxOps": 2, "Keys": "{0}"}, {}, False),
    ("NoNegativeEntry", "WideColumnCache", "WideColumnCache_Cex.cfg", {"MaxOps": 2, "Keys": "{0}"}, {}, False),
]


def mutation_guided(wd, bd, seed, tier, ev, verdict):
    q = tier == "quick"
    rng = random.Random(seed + 77)
    per = 10 if q else 60
    out, info = [], {}
    for sw, mod, base, cq, ct, scaled in MUTANTS:
        sub = os.path.join(wd, "mut_" + sw)
        os.makedirs(sub, exist_ok=True)
        consts = {k: "FALSE" for k in code_switches(base)}   # every finding repaired in the mutant model
        consts[sw] = "TRUE"
        consts.update(cq if q else ct)
        cfg = derive_cfg(sub, base, **consts)
        r = vp.tlc(mod, cfg=cfg, workers=4, timeout=1500, extra=["-continue"], check_ok=False, xmx="6g")
        cex = [b for b in printed_json(r["out"]) if "cex" in b]
        if not cex:
            raise vp.ToolError(f"mutant {sw}: the mutant model printed no counterexample\n{r['out'][-2000:]}")
        classes = collections.OrderedDict()
        for b in cex:
            shape = tuple((s["a"], s.get("c")) for s in b["steps"])
            if shape not in classes or len(json.dumps(b)) < len(json.dumps(classes[shape])):
                classes[shape] = b
        reps = sorted(classes.values(), key=lambda b: len(b["steps"]))
        chosen = reps[:per // 2]
        rest = reps[per // 2:]
        rng.shuffle(rest)
        chosen += rest[:per - len(chosen)]
        for i, b in enumerate(chosen):
            steps = [s for s in b["steps"] if s["a"] != "end"]
            m = "set" if b["map"] == "set" else ("single" if i % 2 == 0 else "dynamic")
            if scaled:
                steps = scale_steps(steps, sorted({s["k"] for s in steps if "k" in s}))
            out.append({"map": m, "cap": 1, "clients": max(2, b.get("clients", 2)), "steps": steps,
                        "origin": "mutant", "mutant": sw, "scaled": scaled, "name": f"mut-{sw}-{i}"})
        info[sw] = {"cfg": os.path.basename(base), "counterexamples": len(cex), "classes": len(classes),
                    "replayed": len(chosen), "distinct": r["distinct"], "generated": r["generated"],
                    "wall_s": round(r["wall_s"], 1)}
        ev["states"] = ev.get("states", 0) + r["distinct"]
        ev["transitions"] = ev.get("transitions", 0) + r["generated"]
    bp = os.path.join(wd, "mut_behaviours.ndjson")
    with open(bp, "w") as f:
        for b in out:
            f.write(json.dumps(b) + "\n")
    tp = os.path.join(wd, "mut_replay.ndjson")
    panics = harness(bd, tp, mode="replay", **{"in": bp})
    events = load_trace(tp)
    # (runs aborted because the background writer is dead were reported by harness() as no_progress)
    aborted = [e for e in events if e.get("e") == "reset" and e.get("aborted")
               and "background writer dead" not in str(e.get("aborted"))]
    if aborted:
        raise vp.ToolError(f"mutation-guided replay: operation hangs / run aborted: {aborted[:2]}")
    failing = []
    n, nf = verdict_of(wd, "mutreplay", events, verdict, ev, behaviours=out, seed=seed, failing_names=failing)
    for sw in info:
        bad = [x for x in failing if x and x.startswith(f"mut-{sw}-")]
        info[sw]["passed"] = info[sw]["replayed"] - len(bad)
        info[sw]["wrong_read"] = len(bad)
    ev["mutation_guided"] = info
    if out:
        ev.setdefault("mutation_samples", []).append(short(out[0], 40))
    return n, panics


# ----------------------------------------------------------------- traces

def load_trace(path):
    return [json.loads(l) for l in open(path) if l.strip()]


def scrub(v):
    if v is None:
        return 0
    if isinstance(v, dict):
        return {k: scrub(x) for k, x in v.items()}
    if isinstance(v, list):
        return [scrub(x) for x in v]
    return v


def tlc_view(events, path):
    """Write the events TLC consumes; returns list mapping TLC index (1-based) -> original index."""
    idx = []
    with open(path, "w") as f:
        for i, e in enumerate(events):
            if e.get("e") in TRACE_EVENTS:
                e2 = {k: scrub(v) for k, v in e.items() if k not in ("name", "msg", "cmd", "why", "aborted")}
                f.write(json.dumps(e2) + "\n")
                idx.append(i)
    return idx


def split_runs(events):
    """Runs are `run` .. `reset`; events recorded after a reset (a reader that
    was released by the shutdown) belong to no run and are dropped."""
    runs, cur = [], None
    for e in events:
        if e.get("e") == "run":
            cur = [e]
        elif cur is not None:
            if e.get("e") in ("panic", "dead") and not any(x.get("e") == "cut" for x in cur):
                # a panic in the code under test (data, not a C09 verdict) or a dead
                # background writer: judge the history up to this point only
                cur.append({"e": "cut", "why": e})
            if any(x.get("e") == "cut" for x in cur) and e.get("e") != "reset":
                continue
            cur.append(e)
            if e.get("e") == "reset":
                runs.append(cur)
                cur = None
    return runs


def judge(wd, name, events):
    """P-layer verdict of a list of events. Returns (viol list with run ids, stats)."""
    tp = os.path.join(wd, name + ".tlc.ndjson")
    op = os.path.join(wd, name + ".judge.json")
    tlc_view(events, tp)
    if os.path.exists(op):
        os.remove(op)
    r = vp.tlc("CacheObsTrace", cfg="CacheObsTrace.cfg", env={"TRACE": tp, "OUT": op},
               workers=1, timeout=1500, xmx="6g")
    if not os.path.exists(op) or "TRACE NOT CONSUMED" in r["out"]:
        raise vp.ToolError(f"trace judge failed on {tp}:\n{r['out'][-3000:]}")
    res = json.load(open(op))
    return res["viol"], res["stats"], r


def classify(wd, name, runs, is_set, timeout=900):
    """Validate failing runs (list of event lists) of one map family against
    the mechanism spec as coded, all in one TLC run.
    Returns (accepted, {run id: set(tags)}, tlc result)."""
    tp = os.path.join(wd, name + ".m.ndjson")
    op = os.path.join(wd, name + ".m.json")
    tlc_view([e for r in runs for e in r], tp)
    if os.path.exists(op):
        os.remove(op)
    mod = "KeyOfSetCacheTrace" if is_set else "WideColumnCacheTrace"
    r = vp.tlc(mod, cfg=code_cfg(wd, mod + ".cfg"), env={"TRACE": tp, "OUT": op}, workers=1, deque=True,
               timeout=timeout, xmx="6g", check_ok=False)
    if not os.path.exists(op):
        if "NotDone" not in r["invariant_violated"] and not r["ok"]:
            raise vp.ToolError(f"mechanism trace validation crashed on {tp}:\n{r['out'][-3000:]}")
        return False, {}, r
    res = json.load(open(op))
    return True, {x["id"]: set(x["tags"]) for x in res["runs"]}, r


def classify_all(wd, name, runs, is_set, stats, timeout=600):
    """Per-run classification of a chunk: one TLC run for all; bisect when it is
    rejected or too slow.  Returns {run id: None (rejected) | set(tags)}."""
    out = {}
    if not runs:
        return out
    try:
        acc, tags, r = classify(wd, name, runs, is_set, timeout=timeout)
        stats["m_tlc_runs"] = stats.get("m_tlc_runs", 0) + 1
        stats["m_states"] = stats.get("m_states", 0) + r["distinct"]
    except vp.ToolError as e:
        if len(runs) == 1 or "timeout" not in str(e):
            raise
        acc, tags = False, {}
        stats["m_timeouts_split"] = stats.get("m_timeouts_split", 0) + 1
    if acc:
        for ru in runs:
            out[ru[0]["id"]] = tags.get(ru[0]["id"], set())
        return out
    if len(runs) == 1:
        out[runs[0][0]["id"]] = None
        return out
    h = len(runs) // 2
    out.update(classify_all(wd, name + "a", runs[:h], is_set, stats, timeout))
    out.update(classify_all(wd, name + "b", runs[h:], is_set, stats, timeout))
    return out


CHUNK = 25


def renumber(runs):
    """Give every run a unique id (several binaries' outputs are merged)."""
    for i, r in enumerate(runs):
        for e in r:
            if e.get("e") in ("run", "reset"):
                e["id"] = i + 1
    return runs


def verdict_of(wd, name, events, verdict, ev, behaviours=None, seed=0, failing_names=None):
    """Judge a trace file, classify failing runs, feed the verdict.
    Returns number of runs judged."""
    runs = renumber(split_runs(events))
    flat = [e for r in runs for e in r]
    viol, stats, jr = judge(wd, name, flat)
    for k, v in stats.items():
        ev["judge"][k] = ev["judge"].get(k, 0) + v
    ev["judge_states"] = ev.get("judge_states", 0) + jr["distinct"]
    byrun = collections.defaultdict(list)
    for v in viol:
        byrun[v["run"]].append(v)
    harness = [v for v in viol if v["kind"].startswith("harness_")]
    if harness:
        raise vp.ToolError(f"harness error in {name}: {harness[:3]}")
    failing = [r for r in runs if r[0]["id"] in byrun]
    if failing_names is not None:
        failing_names.extend(r[0].get("name") for r in failing)
    known = known_by_tag(verdict)
    mstats = ev.setdefault("classification", {})
    fams = {}
    for fam, is_set in (("wide", False), ("set", True)):
        fams[fam] = (is_set, [r for r in failing if (r[0].get("map") == "set") == is_set])
    # chunks of failing runs are validated by up to three TLC processes (1 worker each)
    import concurrent.futures as cf
    jobs = []
    for fam, (is_set, fr) in fams.items():
        for ci in range(0, len(fr), CHUNK):
            jobs.append((fam, is_set, ci // CHUNK, fr[ci:ci + CHUNK], {}))
    results = {fam: {} for fam in fams}
    with cf.ThreadPoolExecutor(max_workers=3) as ex:
        futs = [(fam, st, ex.submit(classify_all, wd, f"{name}-{fam}{ci}", chunk, is_set, st))
                for fam, is_set, ci, chunk, st in jobs]
        for fam, st, f in futs:
            results[fam].update(f.result())
            for k, v in st.items():
                mstats[k] = mstats.get(k, 0) + v
    for fam, (is_set, fr) in fams.items():
        res = results[fam]
        mstats["runs_classified"] = mstats.get("runs_classified", 0) + len(fr)
        for r in fr:
            rid = r[0]["id"]
            tags = res.get(rid)
            vs = byrun[rid]
            mode = r[0].get("mode")
            sample = {"run": {k: r[0].get(k) for k in ("map", "cap", "mode", "name")},
                      "wrong_reads": [{k: (v[k] if not isinstance(v[k], list) or len(v[k]) < 12 else f"<{len(v[k])} elements>")
                                       for k in ("kind", "k", "got", "a", "b")} for v in vs[:3]]}
            if tags is not None and tags and all(t in known for t in tags):
                for t in sorted(tags):
                    verdict.known_finding(known[t]["id"], known[t]["what"])
                    ev["known_hits"][known[t]["id"]] = ev["known_hits"].get(known[t]["id"], 0) + 1
                    ev["known_by_mode"][f"{known[t]['id']}/{mode}"] = ev["known_by_mode"].get(f"{known[t]['id']}/{mode}", 0) + 1
                if len(ev["known_samples"]) < 6:
                    sample["tags"] = sorted(tags)
                    ev["known_samples"].append(sample)
            else:
                why = ("wrong read that the mechanism model as coded cannot reproduce with a known-finding signature"
                       if tags is None else f"wrong read explained only by tags {sorted(tags)} which are not known findings")
                obj = {"property": PID, "what": why, "seed": seed, "run": r[0], "violations": vs[:10],
                       "trace": [e for e in r if e.get("e") != "note"]}
                if behaviours is not None and r[0].get("name"):
                    b = [x for x in behaviours if x.get("name") == r[0].get("name")]
                    if b:
                        obj["behaviour"] = b[0]
                verdict.violation(f"{why}: run {r[0]} first {vs[0]}", obj)
    return len(runs), len(failing)


def short(v, n=12):
    """Shorten long lists inside a JSON-like value (evidence samples)."""
    if isinstance(v, list):
        return [short(x, n) for x in v[:n]] + ([f"... {len(v) - n} more"] if len(v) > n else [])
    if isinstance(v, dict):
        return {k: short(x, n) for k, x in v.items()}
    return v


def drift_of(events, ev):
    """Compare the replayed results with the model's as-is prediction (never a verdict)."""
    n = d = 0
    first = None
    for e in events:
        if e.get("e") != "note":
            continue
        st = e["step"]
        if st.get("a") != "res" or not isinstance(e.get("got"), dict) or "r" not in e["got"]:
            continue
        if any(t[1] == "SPILL" for t in st.get("tags", []) if isinstance(t, list)):
            continue  # the cut Spilled iteration has several possible results
        got = e["got"]["r"]
        if isinstance(got, list):
            same = sorted(x for x in got if x < FILL_LO) == sorted(st["asis"])
        else:
            same = (got == -1 and st["asis"] == 0) or got == st["asis"]
        same = same and e["got"].get("db") == st.get("ndb")
        n += 1
        if not same:
            d += 1
            first = first or short({"step": st, "got": e["got"]})
    ev["replay_reads_compared"] = ev.get("replay_reads_compared", 0) + n
    ev["model_drift"] = ev.get("model_drift", 0) + d
    if first and "model_drift_first" not in ev:
        ev["model_drift_first"] = first


_VERDICT = None      # set by run(): lets harness() report what is no C09 verdict of the trace spec


def harness(bd, out, **kw):
    cmd = [os.path.join(bd, "cache_replay"), "--out", out, "--quiet"]
    for k, v in kw.items():
        if v is True:
            cmd += [f"--{k}"]
        else:
            cmd += [f"--{k}", str(v)]
    p = vp.run_subject(cmd, timeout=1500)     # normal duration: 40-100 s
    # a commit that was let through the gate and whose after-commit notification did not arrive within the
    # harness watchdog (60 s): the caches never learn that the batch is durable.  The harness gives up after
    # two of them; on the unchanged tree there is none.
    if _VERDICT is not None and os.path.exists(out):
        evs = vp.read_ndjson(out)
        dead = [i for i, e in enumerate(evs) if e.get("e") == "dead" and "watchdog" in str(e.get("why", ""))]
        for i in dead[:1]:
            start = max((j for j in range(i, -1, -1) if evs[j].get("e") == "run"), default=0)
            _VERDICT.violation("no_progress: the after-commit notification of a commit that was let through the store's gate "
                               f"did not arrive within the watchdog ({len(dead)} such runs; mode {kw.get('mode')})",
                               {"property": PID, "kind": "no_progress", "origin": f"cache_replay --mode {kw.get('mode')}",
                                "events": evs[start:i + 1][-120:], "args": {k: str(v) for k, v in kw.items()}})
    m = re.search(r"panics=(\d+)", p.stdout or "")
    return int(m.group(1)) if m else 0


def new_ev():
    return {"judge": {}, "known_hits": {}, "known_by_mode": {}, "known_samples": []}


def run(tier, seed):
    t0 = time.time()
    wd = vp.clean_workdir(PID)
    bd = vp.build()
    verdict = vp.Verdict(PID)
    global _VERDICT
    _VERDICT = verdict
    ev = new_ev()
    phase = {}
    tp0 = time.time()
    states, trans = design_check(tier, ev, wd)
    phase["design_check"] = round(time.time() - tp0, 1)
    tp0 = time.time()
    ev["states"] = states
    ev["transitions"] = trans
    # S->I
    path, behs = gen_behaviours(wd, seed, tier, ev)
    phase["generate"] = round(time.time() - tp0, 1)
    tp0 = time.time()
    rp = os.path.join(wd, "replay.ndjson")
    panics = harness(bd, rp, mode="replay", **{"in": path})
    events = load_trace(rp)
    drift_of(events, ev)
    phase["replay"] = round(time.time() - tp0, 1)
    tp0 = time.time()
    nruns, nfail = verdict_of(wd, "replay", events, verdict, ev, behaviours=behs, seed=seed)
    phase["replay_verdict"] = round(time.time() - tp0, 1)
    ev["replayed_behaviours"] = nruns
    ev["replayed_failing"] = nfail
    aborted = [e for e in events if e.get("e") == "reset" and e.get("aborted")]
    ev["replay_aborted"] = len(aborted)
    # mutation-guided behaviours (slips the code does not have): must all pass on the real maps
    tp0 = time.time()
    nmut, pm = mutation_guided(wd, bd, seed, tier, ev, verdict)
    panics += pm
    phase["mutation_guided"] = round(time.time() - tp0, 1)
    # I->S
    q = tier == "quick"
    plans = [("seq", dict(mode="seq", seed=seed, runs=50 if q else 400, steps=60)),
             ("seqbig", dict(mode="seq", seed=seed + 1000, runs=5 if q else 30, steps=50, map="set", big=True)),
             ("par", dict(mode="par", seed=seed + 2000, runs=24 if q else 200, ops=8, chaos=300, maxw=2, maxr=2))]
    total_runs = nruns + nmut
    for name, kw in plans:
        tp0 = time.time()
        tp = os.path.join(wd, name + ".ndjson")
        panics += harness(bd, tp, **kw)
        events = load_trace(tp)
        n, f = verdict_of(wd, name, events, verdict, ev, seed=seed)
        phase[name] = round(time.time() - tp0, 1)
        ev[name + "_runs"] = n
        ev[name + "_failing"] = f
        total_runs += n
        ab = [e for e in events if e.get("e") == "reset" and e.get("aborted")
              and "background writer dead" not in str(e.get("aborted"))]
        if ab:
            raise vp.ToolError(f"{name}: operation hangs / run aborted: {ab[:2]}")
    ev["panics_in_code_under_test"] = panics
    ev["phase_wall_s"] = phase
    vp.log(f"[C09] phases {phase}")
    rc = verdict.finish()
    samples = [{"behaviour_replayed": short(behs[0], 40)}, {"behaviour_replayed": short(behs[-1], 40)}] + short(ev.pop("known_samples"))
    samples += [{"mutant_behaviour_replayed": b} for b in ev.pop("mutation_samples", [])]
    cov = {"states": ev.pop("states") + ev.get("judge_states", 0) + ev["classification"].get("m_states", 0),
           "transitions": ev.pop("transitions"),
           "traces_validated_against_impl": total_runs,
           "samples": samples}
    cov.update(ev)
    vp.write_evidence(PID, tier, seed, "model_checking", cov, time.time() - t0, len(verdict.violations),
                      assumptions=[
                          "callers write one key (one element of one set) through batches in epoch order and never concurrently (the store commits in epoch order)",
                          "eviction is a free action in the model; in the replays it is provoked by touching 400 other keys and checked through the store-read count of the next get",
                          "the window between a physical commit and its after-commit notification is not controllable without a hook: replays treat them as one step, the random parallel driver reaches it uncontrolled",
                          "trace validation against the mechanism specs uses MemKv's scan order (byte order of the postcard encoding)",
                      ])
    return rc


def replay(path):
    obj = json.load(open(path))
    wd = vp.workdir(PID, "replay")
    bd = vp.build()
    verdict = vp.Verdict(PID)
    ev = new_ev()
    if "behaviour" in obj:
        bp = os.path.join(wd, "b.ndjson")
        with open(bp, "w") as f:
            f.write(json.dumps(obj["behaviour"]) + "\n")
        tp = os.path.join(wd, "b.trace.ndjson")
        harness(bd, tp, mode="replay", **{"in": bp})
        events = load_trace(tp)
    else:
        events = obj["trace"]
    verdict_of(wd, "replayed", events, verdict, ev, seed=obj.get("seed", 0))
    return verdict.finish()


def selftest(seed):
    """(a) corrupt one recorded result of an accepted trace: the judge must
    reject it and the mechanism model must not explain it; (b) a known-finding
    witness must be judged wrong AND explained; (c) the same witness with the
    wrong value altered must NOT be explained (=> VIOLATION)."""
    wd = vp.clean_workdir(PID + "-selftest")
    bd = vp.build()
    ok = True
    # (a) sequential random run, flip one get result
    tp = os.path.join(wd, "seq.ndjson")
    harness(bd, tp, mode="seq", seed=seed, runs=6, steps=40, map="single")
    events = load_trace(tp)
    runs = renumber(split_runs(events))
    v0, _, _ = judge(wd, "orig", [e for r in runs for e in r])
    clean = [r for r in runs if not any(v["run"] == r[0]["id"] for v in v0)]
    target = None
    for r in clean:
        ges = [e for e in r if e.get("e") == "ge"]
        if ges:
            target = r
            g = ges[len(ges) // 2]
            g["r"] = (g["r"] + 5) if g["r"] >= 0 else 3
            break
    if target is None:
        raise vp.ToolError("selftest: no clean run with a get")
    v1, _, _ = judge(wd, "corrupt", target)
    acc, _, _ = classify(wd, "corrupt", [target], False)
    print(f"selftest (a): corrupted one get result -> judge reports {len(v1)} wrong read(s); mechanism model accepts: {acc}")
    ok &= len(v1) >= 1 and not acc
    # (b)+(c) the finding #4 witness
    w = {"name": "kf4", "map": "single", "cap": 1, "steps": [
        {"a": "new", "c": 1, "b": 0}, {"a": "ins", "c": 1, "b": 0, "k": 0, "v": 1}, {"a": "submit", "c": 1, "b": 0},
        {"a": "commit"}, {"a": "evict"}, {"a": "get", "c": 2, "k": 0, "park": True},
        {"a": "new", "c": 1, "b": 1}, {"a": "ins", "c": 1, "b": 1, "k": 0, "v": 2}, {"a": "submit", "c": 1, "b": 1},
        {"a": "commit"}, {"a": "evict"}, {"a": "release", "c": 2}, {"a": "get", "c": 1, "k": 0}]}
    bp = os.path.join(wd, "w.ndjson")
    open(bp, "w").write(json.dumps(w) + "\n")
    wp = os.path.join(wd, "w.trace.ndjson")
    harness(bd, wp, mode="replay", **{"in": bp})
    wr = renumber(split_runs(load_trace(wp)))
    v2, _, _ = judge(wd, "w", wr[0])
    acc2, tags2, _ = classify(wd, "w", wr, False)
    print(f"selftest (b): finding #4 witness on the real code -> {len(v2)} wrong read(s); explained: {acc2} tags {tags2}")
    ok &= len(v2) >= 1 and acc2 and tags2.get(1) == {"KF4"}
    last = [e for e in wr[0] if e.get("e") == "ge"][-1]
    last["r"] = 7
    acc3, _, _ = classify(wd, "w2", wr, False)
    print(f"selftest (c): same witness with the stale value replaced by a value never written -> explained: {acc3}")
    ok &= not acc3
    print("selftest", "passed" if ok else "FAILED")
    return 0 if ok else 2
