"""C09 - cached maps always return the latest write (read-your-writes).

Pipeline (see specs/WideColumnCache.tla, KeyOfSetCache.tla, CacheObsTrace.tla,
WideColumnCacheTrace.tla, KeyOfSetCacheTrace.tla and harness/src/bin/cache_replay.rs):

 1. design check: TLC on the two mechanism specs - exhaustive with every
    repair switched on (all invariants hold), and with each defect switch as
    coded (TLC must produce the counterexample).
 2. S->I: TLC prints behaviours (every ReadYourWrites counterexample of the
    as-coded models in replayable interleavings + random walks) which
    cache_replay executes step by step on the real maps over a gated MemKv.
 3. I->S: seeded random sequential and parallel histories of the real maps.
 4. verdict: every recorded execution (2 and 3) is judged by TLC against the
    reference map (CacheObsTrace).  A run with a failing read is then
    validated against the mechanism spec *as coded* (…CacheTrace): it is a
    KNOWN-FINDING only if the as-coded model reproduces every observed result
    and every wrong element carries a known-finding signature; anything else
    is a VIOLATION.
"""
import collections
import json
import os
import random
import re
import time

import vp

PID = "C09"

# proposed entries for /verif/known_findings.json (merged by the maintainer of
# that file; until then this constant is used together with the file)
LOCAL_KNOWN = [
    {"property": PID, "id": "KF_STALE_FILL", "status": "known", "tag": "KF4",
     "what": "wide-column cache (CacheSingleMap / CacheDynamicMap) keeps a stale fill: a reader that missed and read the store is overtaken by a write to the same key that is committed, unpinned and evicted before the reader's insert-if-vacant runs; every later get returns the old value (wide_column_cache.rs get: init() + tiny_lfu.entry Vacant)"},
    {"property": PID, "id": "KF_LOST_INSERT", "status": "known", "tag": "KF5",
     "what": "key-of-set cache loses a write that completes while another reader is between its staging snapshot and its insert-if-vacant: the set built from the old snapshot is installed and served until evicted (key_of_set_map/cache.rs get_entry / fetch_entry / apply_op step 2)"},
    {"property": PID, "id": "KF_OVERLAY_RETAINED", "status": "known", "tag": "KF6",
     "what": "staging overlay wrong for an element that has a committed operation still in the log (FlushUpTo pops only while the heap maximum <= epoch) and another operation on the same element: the snapshot fold cancels them in heap order, so store + overlay misses a pending re-insert or forgets a pending remove (key_of_set_map/cache.rs FlushUpTo, get_snapshot)"},
    {"property": PID, "id": "KF_OVERLAY_FOLD", "status": "known", "tag": "FOLD",
     "what": "staging overlay wrong with pending operations only: the snapshot fold cancels insert/remove pairs regardless of order and of what the store holds (remove-then-insert of an absent element, insert-then-remove of a present one, or three operations whose heap order is scrambled), read through the fetch / streaming path (key_of_set_map/cache.rs get_snapshot)"},
    {"property": PID, "id": "KF_SPILL_CUT", "status": "known", "tag": "SPILL",
     "what": "Spilled iterator (fetch of a set with more than 1024 stored elements) stops at the first staged-removed element of the half-constructed set once the rest of the scan and the staged additions are exhausted: elements are missing from the iteration (key_of_set_map/cache.rs MergeIterator::Spilled)"},
]

TRACE_EVENTS = {"run", "new", "ws", "we", "sub", "gs", "ge", "cs", "ce", "flood", "panic", "dead", "reset"}


def known_by_tag(verdict):
    """tag -> finding, from known_findings.json (status known) and the local list."""
    out = {}
    for k in LOCAL_KNOWN:
        out[k["tag"]] = k
    filed = {k["id"]: k for k in vp.load_known() if k["property"] == PID}
    for tag, k in list(out.items()):
        f = filed.get(k["id"])
        if f is not None and f.get("status") != "known":
            del out[tag]  # fixed: suppresses nothing
    return out


# --------------------------------------------------------------------- TLC

def tlc_mc(module, cfg, timeout=600, extra=None, workers=4, coverage=False):
    return vp.tlc(module, cfg=cfg, workers=workers, timeout=timeout, extra=extra,
                  coverage=coverage, xmx="6g")


def printed_json(out):
    res = []
    for line in out.splitlines():
        if line.startswith('"{'):
            try:
                res.append(json.loads(json.loads(line)))
            except Exception:
                pass
    return res


def design_check(tier, ev):
    """Exhaustive TLC runs; returns (states, transitions)."""
    states = trans = 0
    clean = [("WideColumnCache", "WideColumnCache_MC.cfg"), ("WideColumnCache", "WideColumnCache_MC2.cfg"),
             ("KeyOfSetCache", "KeyOfSetCache_MC.cfg"), ("KeyOfSetCache", "KeyOfSetCache_MC2k.cfg")]
    if tier == "thorough":
        clean += [("WideColumnCache", "WideColumnCache_MCfull.cfg"), ("KeyOfSetCache", "KeyOfSetCache_MC3.cfg"),
                  ("KeyOfSetCache", "KeyOfSetCache_DFlush.cfg"), ("KeyOfSetCache", "KeyOfSetCache_AsIs.cfg"),
                  ("WideColumnCache", "WideColumnCache_MC4K.cfg")]
    runs = []
    for mod, cfg in clean:
        r = tlc_mc(mod, cfg, timeout=1500)
        if not r["ok"]:
            raise vp.ToolError(f"design check {cfg}: TLC reports {r['invariant_violated']} on the repaired model\n{r['out'][-2500:]}")
        states += r["distinct"]
        trans += r["generated"]
        runs.append({"cfg": cfg, "distinct": r["distinct"], "generated": r["generated"],
                     "depth": r["depth"], "wall_s": round(r["wall_s"], 1), "result": "no error"})
    expect = [("WideColumnCache", "WideColumnCache_MC4.cfg"), ("KeyOfSetCache", "KeyOfSetCache_D5.cfg"),
              ("KeyOfSetCache", "KeyOfSetCache_D6.cfg"), ("KeyOfSetCache", "KeyOfSetCache_DFold.cfg"),
              ("KeyOfSetCache", "KeyOfSetCache_DSpill.cfg")]
    for mod, cfg in expect:
        r = tlc_mc(mod, cfg, timeout=600)
        if "ReadYourWrites" not in r["invariant_violated"]:
            raise vp.ToolError(f"design check {cfg}: expected a ReadYourWrites counterexample with the defect as coded\n{r['out'][-2500:]}")
        states += r["distinct"]
        trans += r["generated"]
        runs.append({"cfg": cfg, "distinct": r["distinct"], "generated": r["generated"],
                     "wall_s": round(r["wall_s"], 1), "result": "ReadYourWrites violated (expected)"})
    ev["design_runs"] = runs
    return states, trans


def gen_behaviours(wd, seed, tier, ev):
    """TLC as behaviour generator. Returns list of behaviours (dicts)."""
    behs = []
    rng = random.Random(seed)
    ncex = 60 if tier == "quick" else 400
    nsim = 150 if tier == "quick" else 1500
    cov = {}
    for mod, cexcfg, gencfg in (("WideColumnCache", "WideColumnCache_Cex.cfg", "WideColumnCache_Gen.cfg"),
                                ("KeyOfSetCache", "KeyOfSetCache_Cex.cfg", "KeyOfSetCache_Gen.cfg")):
        r = vp.tlc(mod, cfg=cexcfg, workers=4, timeout=900, extra=["-continue"], check_ok=False, xmx="6g")
        cex = [b for b in printed_json(r["out"]) if "cex" in b]
        if not cex:
            raise vp.ToolError(f"{cexcfg}: the as-coded model printed no counterexample\n{r['out'][-2000:]}")
        # one shortest representative per (tag set, step shape) class, then a seeded sample
        classes = collections.OrderedDict()
        for b in cex:
            last = b["steps"][-1]
            tags = tuple(sorted({t[1] for t in last.get("tags", [])})) if mod == "KeyOfSetCache" else (last.get("tag", ""),)
            shape = tuple(s["a"] for s in b["steps"])
            key = (tags, shape)
            if key not in classes:
                classes[key] = b
        reps = list(classes.values())
        by_tag = collections.defaultdict(list)
        for (tags, _), b in classes.items():
            by_tag[tags].append(b)
        chosen = []
        for tags, lst in by_tag.items():
            lst.sort(key=lambda b: len(b["steps"]))
            chosen += lst[:3]
        rest = [b for b in reps if b not in chosen]
        rng.shuffle(rest)
        chosen += rest[:max(0, ncex - len(chosen))]
        for b in chosen:
            b["origin"] = "cex"
        behs += chosen
        cov[cexcfg] = {"counterexamples": len(cex), "classes": len(classes), "replayed": len(chosen),
                       "distinct": r["distinct"], "generated": r["generated"]}
        ev["states"] = ev.get("states", 0) + r["distinct"]
        ev["transitions"] = ev.get("transitions", 0) + r["generated"]
        g = vp.tlc(mod, cfg=gencfg, workers=1, timeout=900, check_ok=False,
                   extra=["-simulate", f"num={nsim}", "-depth", "250", "-seed", str(seed)])
        sim = [b for b in printed_json(g["out"]) if "cex" not in b]
        if not sim:
            raise vp.ToolError(f"{gencfg}: generator printed no behaviour\n{g['out'][-2000:]}")
        for b in sim:
            b["origin"] = "sim"
        behs += sim
        cov[gencfg] = {"walks": len(sim)}
    ev["generator"] = cov
    # concrete maps: the wide model is replayed on the single and on the dynamic map
    out = []
    for i, b in enumerate(behs):
        steps = [s for s in b["steps"] if s["a"] != "end"]
        if b["map"] == "wide":
            m = "single" if i % 2 == 0 else "dynamic"
        else:
            m = "set"
        out.append({"map": m, "cap": 1, "clients": b.get("clients", 2), "steps": steps,
                    "origin": b["origin"], "name": f"{b['origin']}-{i}"})
    path = os.path.join(wd, "behaviours.ndjson")
    with open(path, "w") as f:
        for b in out:
            f.write(json.dumps(b) + "\n")
    return path, out


# ----------------------------------------------------------------- traces

def load_trace(path):
    return [json.loads(l) for l in open(path) if l.strip()]


def scrub(v):
    if v is None:
        return 0
    if isinstance(v, dict):
        return {k: scrub(x) for k, x in v.items()}
    if isinstance(v, list):
        return [scrub(x) for x in v]
    return v


def tlc_view(events, path):
    """Write the events TLC consumes; returns list mapping TLC index (1-based) -> original index."""
    idx = []
    with open(path, "w") as f:
        for i, e in enumerate(events):
            if e.get("e") in TRACE_EVENTS:
                e2 = {k: scrub(v) for k, v in e.items() if k not in ("name", "msg", "cmd", "why", "aborted")}
                f.write(json.dumps(e2) + "\n")
                idx.append(i)
    return idx


def split_runs(events):
    runs, cur = [], []
    for e in events:
        cur.append(e)
        if e.get("e") == "reset":
            runs.append(cur)
            cur = []
    if cur:
        runs.append(cur)
    return runs


def judge(wd, name, events):
    """P-layer verdict of a list of events. Returns (viol list with run ids, stats)."""
    tp = os.path.join(wd, name + ".tlc.ndjson")
    op = os.path.join(wd, name + ".judge.json")
    tlc_view(events, tp)
    if os.path.exists(op):
        os.remove(op)
    r = vp.tlc("CacheObsTrace", cfg="CacheObsTrace.cfg", env={"TRACE": tp, "OUT": op},
               workers=1, timeout=1500, xmx="6g")
    if not os.path.exists(op) or "TRACE NOT CONSUMED" in r["out"]:
        raise vp.ToolError(f"trace judge failed on {tp}:\n{r['out'][-3000:]}")
    res = json.load(open(op))
    return res["viol"], res["stats"], r


def classify(wd, name, run_events, is_set):
    """Validate one failing run against the mechanism spec as coded.
    Returns (accepted, tags) - tags: set of finding tags that explain the wrong reads."""
    tp = os.path.join(wd, name + ".m.ndjson")
    op = os.path.join(wd, name + ".m.json")
    tlc_view(run_events, tp)
    if os.path.exists(op):
        os.remove(op)
    mod = "KeyOfSetCacheTrace" if is_set else "WideColumnCacheTrace"
    r = vp.tlc(mod, cfg=mod + ".cfg", env={"TRACE": tp, "OUT": op}, workers=1, deque=True,
               timeout=900, xmx="6g", check_ok=False)
    if r["rc"] not in (0, 12, 13) and not os.path.exists(op):
        if "Error:" in r["out"] and "deadlock" not in r["out"].lower():
            raise vp.ToolError(f"mechanism trace validation crashed on {tp}:\n{r['out'][-3000:]}")
    if not os.path.exists(op):
        return False, set(), r
    res = json.load(open(op))
    return True, set(res.get("tags", [])), r
