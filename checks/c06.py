"""C06 - dependency cycles are detected: they terminate with cycle defaults.

Reference semantics: Program.tla CycValuation (active dependency graph under
the current inputs; nodes that reach themselves evaluate to their executor's
cycle default, all others normally).  Judged where CycSimple holds (every
node on a cycle has one active successor on a cycle), i.e. where the engine's
depth-first discovery marks the same set whatever the entry point; other
(program, input) pairs are run for progress/panic-freedom only and counted.
Histories come from TLC (EngineObsGen over the cyclic family of
tools/gen_cyc.py: all digraphs on <=3 ring nodes incl. self-loops, a sample on
4, guarded edges switched by input edits); they are replayed sequentially and,
for the concurrent part, queried from many tasks at once (different entry
points into the cycle) on a multi-threaded runtime under a watchdog."""
import json
import os
import time

import engcommon as ec
import vp

PID = "C06"
KINDS = {"query_value", "read_value", "query_panicked", "no_progress", "executor_still_running_at_end",
         "cycle_member_completed", "cycle_search_wrong_answer"}


def run(tier, seed):
    t0 = time.time()
    bd = vp.build()
    wd = vp.clean_workdir(PID)
    verdict = vp.Verdict(PID)
    quick = tier != "thorough"
    fam = os.path.join(wd, "cyc_family.ndjson")
    p = vp.run(["python3", os.path.join(vp.ROOT, "tools", "gen_cyc.py"), fam, str(seed),
                "30" if quick else "400", "120" if quick else "4000"])
    nprogs = json.loads(p.stdout.strip().splitlines()[-1])["written"]
    r = vp.tlc("EngineObsGen", cfg="EngineObsGenSim.cfg", env={"FAMILY": fam, "SHARD": "0", "SHARDS": "1"},
               workers=1, timeout=1200,
               extra=["-simulate", f"num={1500 if quick else 25000}", "-depth", "80", "-seed", str(seed)],
               check_ok=False)
    cases = os.path.join(wd, "cases.ndjson")
    nb = 0
    with open(cases, "w") as f:
        for line in r["out"].splitlines():
            if line.startswith('"{'):
                f.write(json.loads(line) + "\n"); nb += 1
    if nb == 0:
        raise vp.ToolError("no behaviours generated:\n" + r["out"][-2000:])
    # directed histories kept from earlier explorations (witness/c06_cases.ndjson): the history on which the
    # thorough tier found FX_SCC_VALUE_RETAINED (a cut query kept its cycle default after the cycle was removed
    # because its callee is still cyclic for another reason), and a non-simple program that must not be judged
    nwit = 0
    with open(cases, "a") as f:
        for line in open(os.path.join(vp.ROOT, "witness", "c06_cases.ndjson")):
            if line.strip():
                f.write(line.strip() + "\n"); nwit += 1
    nb += nwit
    import re
    m = re.search(r"The number of states generated: (\d+)", r["out"])
    gstates = int(m.group(1)) if m else 0
    traces = []
    tr = os.path.join(wd, "seq.ndjson")
    ec.eng_seq(bd, tr, mode="replay", cyc=1, **{"in": cases})
    traces.append((tr, "sequential replay of TLC histories"))
    # executors that read their two ring successors CONCURRENTLY (join_all) and yield after every read:
    # on the single-threaded runtime the two paths really interleave, so a computing query can have two
    # computing callees and paths merge before the closing edge.  The reference value of such programs
    # depends on the interleaving; what is judged is the engine's own cycle search, observed through the
    # cfg-guarded hook (`cyc` events): its answer, and that every query it saw on the cycle is cut short
    famp = os.path.join(wd, "cyc_family_par.ndjson")
    vp.run(["python3", os.path.join(vp.ROOT, "tools", "gen_cyc.py"), famp, str(seed),
            "40" if quick else "400", "150" if quick else "3000", "--par"])
    rp_ = vp.tlc("EngineObsGen", cfg="EngineObsGenSim.cfg", env={"FAMILY": famp, "SHARD": "0", "SHARDS": "1"},
                 workers=1, timeout=1200,
                 extra=["-simulate", f"num={1000 if quick else 15000}", "-depth", "60", "-seed", str(seed + 1)],
                 check_ok=False)
    casesp = os.path.join(wd, "cases_par.ndjson")
    nbp = 0
    with open(casesp, "w") as f:
        for line in rp_["out"].splitlines():
            if line.startswith('"{'):
                f.write(json.loads(line) + "\n"); nbp += 1
    if nbp == 0:
        raise vp.ToolError("no behaviours generated for the parallel family:\n" + rp_["out"][-2000:])
    for y in (1, 2):
        trp = os.path.join(wd, f"seq_par_y{y}.ndjson")
        ec.eng_seq(bd, trp, mode="replay", cyc=1, yields=y, **{"in": casesp})
        traces.append((trp, f"parallel-callee family, executors yield {y}x after each read"))
    for i, (workers, tasks) in enumerate(((2, 4), (8, 12)) if quick else ((2, 3), (4, 8), (8, 16), (16, 32))):
        tc = os.path.join(wd, f"conc_{i}.ndjson")
        vp.run_subject([os.path.join(bd, "eng_conc"), "--kind", "file", "--progs", fam, "--workers", str(workers),
                "--tasks", str(tasks), "--runs", str(60 if quick else 600), "--phases", "2", "--pertask", "4",
                "--sleepus", "150", "--seed", str(seed * 10 + i), "--out", tc], timeout=3000)
        traces.append((tc, f"concurrent entry workers={workers} tasks={tasks}"))
    # design level: the cycle search transcribed step by step (CycleSearch.tla) meets its contract on every
    # digraph of 4 computing queries in every breadth-first order; its two mutations are refuted
    cs = vp.tlc("CycleSearch", cfg="CycleSearch_asis.cfg", workers=4, timeout=900, check_ok=False, xmx="6g")
    cs_sweep = vp.tlc("CycleSearch", cfg="CycleSearch_sweep.cfg", workers=2, timeout=600, check_ok=False)
    cs_nv = vp.tlc("CycleSearch", cfg="CycleSearch_novisited.cfg", workers=1, timeout=300, check_ok=False)
    if not cs["ok"]:
        raise vp.ToolError("CycleSearch (as coded) does not meet its contract in the model:\n" + cs["out"][-2500:])
    cycle_search_model = {"as_coded_meets_contract": cs["ok"], "distinct_states": cs["distinct"],
                          "single_backward_sweep_refuted": "MarksTheCycle" in cs_sweep["invariant_violated"],
                          "no_visited_set_does_not_terminate": "Terminates" in cs_nv["invariant_violated"]}
    states = gstates + cs["distinct"]
    trans = cs["generated"]
    events = 0
    stats = {}
    by_kind = {}
    viols = []
    nruns = 0
    for path, origin in traces:
        res, rr = ec.validate(path, path + ".result.json", timeout=3000)
        states += rr["distinct"]; trans += rr["generated"]; events += res["events"]
        for k, v in res["stats"].items():
            stats[k] = stats.get(k, 0) + v
        nruns += sum(1 for e in vp.read_ndjson(path) if e["e"] == "reset")
        for v in res["viol"]:
            if v["kind"].startswith("harness_"):
                raise vp.ToolError(f"harness inconsistency {v} in {path}")
            if v["kind"] in KINDS:
                by_kind[v["kind"]] = by_kind.get(v["kind"], 0) + 1
                viols.append((path, origin, v))
    for path, origin, v in viols[:4]:
        evs = vp.read_ndjson(path)
        run_events, start = vp.run_containing(evs, v["at"])
        case = None
        if origin.startswith("sequential"):
            run_idx = sum(1 for e in evs[:v["at"] - 1] if e.get("e") == "reset")
            case = [json.loads(l) for l in open(cases)][run_idx]
        verdict.violation(f"{v['kind']} node={v['n']} got={v['got']} want={v['want']} ({origin})",
                          {"property": PID, "violation": v, "origin": origin, "case": case,
                           "events": run_events[:120]})
    rc = verdict.finish()
    sample_case = json.loads(open(cases).readline())
    coverage = {
        "states": states, "transitions": trans,
        "traces_validated_against_impl": nruns,
        "samples": [{"tlc_generated_case": sample_case}],
        "cycle_search_model": cycle_search_model,
        "cyclic_programs": nprogs,
        "histories_from_tlc": nb,
        "events_validated": events,
        "checked": stats,
        "executor_runs_unwound_by_cycle_detection": stats.get("cyc", 0),
        "queries_not_judged_reference_ambiguous": stats.get("ambig", 0),
        "violations_by_kind": by_kind,
    }
    vp.write_evidence(PID, tier, seed, "model_checking", coverage, time.time() - t0, len(verdict.violations),
                      assumptions=["reference value = Program.tla CycValuation, judged only where CycSimple holds",
                                   "cycle edges are guarded by input-only prefixes (family restriction CycWellFormed, "
                                   "checked by TLC for every program)",
                                   "watchdog 90 s per concurrent phase"])
    return rc


def replay(path):
    rp = json.load(open(path))
    if not rp.get("case"):
        print("replay: the violation came from a concurrent run; re-run ./check C06")
        return 2
    bd = vp.build()
    wd = vp.workdir(PID, "replay")
    cin = os.path.join(wd, "case.ndjson")
    open(cin, "w").write(json.dumps(rp["case"]) + "\n")
    tr = os.path.join(wd, "t.ndjson")
    ec.eng_seq(bd, tr, mode="replay", **{"in": cin})
    res, _ = ec.validate(tr, tr + ".result.json")
    bad = [v for v in res["viol"] if v["kind"] in KINDS]
    if bad:
        print(f"VIOLATION property={PID} replay={path}")
        for v in bad[:5]:
            print("  ", v)
        return 1
    print(f"replay {path}: no violation of {PID}")
    return 0


def selftest(seed):
    bd = vp.build()
    wd = vp.clean_workdir(PID + "-selftest")
    fam = os.path.join(wd, "fam.ndjson")
    vp.run(["python3", os.path.join(vp.ROOT, "tools", "gen_cyc.py"), fam, str(seed), "5", "6"])
    # a hand-written history: query every node of each program
    cases = os.path.join(wd, "cases.ndjson")
    with open(cases, "w") as f:
        for l in open(fam):
            prog = json.loads(l)["prog"]
            acts = [{"a": "begin"}] + [{"a": "set", "n": i + 1, "v": 1} for i, nd in enumerate(prog["nodes"])
                                       if nd["kind"] == "In"] + [{"a": "commit"}]
            acts += [{"a": "query", "t": 0, "n": i + 1} for i in range(len(prog["nodes"]))]
            f.write(json.dumps({"prog": prog, "actions": acts}) + "\n")
    tr = os.path.join(wd, "t.ndjson")
    ec.eng_seq(bd, tr, mode="replay", **{"in": cases})
    ev = vp.read_ndjson(tr)
    # turn one cycle default (7) into another value: must be flagged
    done = False
    t2 = os.path.join(wd, "t2.ndjson")
    with open(t2, "w") as f:
        for e in ev:
            if not done and e["e"] == "query" and e["v"] == 7:
                e = dict(e); e["v"] = 0; done = True
            f.write(json.dumps(e) + "\n")
    res, _ = ec.validate(t2, t2 + ".json")
    ok = done and any(v["kind"] == "query_value" for v in res["viol"])
    print(f"selftest {PID}: a corrupted cycle default is flagged: {ok}")
    print("selftest", "passed" if ok else "FAILED")
    return 0 if ok else 2
