"""C06 - dependency cycles are detected: they terminate with cycle defaults.

Reference semantics: Program.tla CycValuation (active dependency graph under
the current inputs; nodes that reach themselves evaluate to their executor's
cycle default, all others normally).  Judged where CycSimple holds (every
node on a cycle has one active successor on a cycle), i.e. where the engine's
depth-first discovery marks the same set whatever the entry point; other
(program, input) pairs are run for progress/panic-freedom only and counted.
Histories come from TLC (EngineObsGen over the cyclic family of
tools/gen_cyc.py: all digraphs on <=3 ring nodes incl. self-loops, a sample on
4, guarded edges switched by input edits); they are replayed sequentially and,
for the concurrent part, queried from many tasks at once (different entry
points into the cycle) on a multi-threaded runtime under a watchdog.

Mechanism level: specs/EngineCyc.tla (detection in the computing table, unwinding,
what a cut query records, repair of cut queries in later sessions) is model-checked
(EngineCycMC) and bound to the code executor run by executor run: behaviours printed
by the model with its prediction (value of every query, every executor run with its
reads and output / cut) are replayed and compared; the counterexamples of the variant
the code does NOT implement (SccFix = "retain", the defect FX_SCC_VALUE_RETAINED) are
replayed as directed tests.  Concurrency: specs/EngineConc.tla (single-flight protocol)
carries the cycle protocol - registered callees, check_cyclic over the computing table, marking,
unwinding, the re-check after a value was obtained; TLC checks deadlock freedom, progress and that
exactly the members of a cycle publish their default for 2-3 tasks entering rings at different
members, refutes two mutations, and its schedules are forced on the real engine (conc_sched)."""
import json
import os
import time

import engcommon as ec
import vp

PID = "C06"
KINDS = {"query_value", "read_value", "query_panicked", "no_progress", "executor_still_running_at_end",
         "cycle_member_completed", "cycle_search_wrong_answer"}


def _json_lines(out, path):
    n = 0
    with open(path, "w") as f:
        for line in out.splitlines():
            if line.startswith('"{'):
                f.write(json.loads(line) + "\n"); n += 1
    return n


def engine_cyc(bd, wd, quick, seed, traces, case_files, verdict):
    """The cycle mechanism model EngineCyc: design check and conformance.  Appends the traces it
    records to `traces` (they are judged by the P-layer like every other trace)."""
    status = {f["id"]: f["status"] for f in json.load(open(os.path.join(vp.ROOT, "known_findings.json")))["findings"]}
    coded = "forget" if status.get("FX_SCC_VALUE_RETAINED") == "fixed" else "retain"
    other = "retain" if coded == "forget" else "forget"
    ev = {"as_coded_variant": coded}
    wit = os.path.join(wd, "cycm_witness.ndjson")
    wprog = json.loads(open(os.path.join(vp.ROOT, "witness", "c06_cases.ndjson")).readline())["prog"]
    open(wit, "w").write(json.dumps({"prog": wprog}) + "\n")
    fam = os.path.join(wd, "cycm_family.ndjson")
    vp.run(["python3", os.path.join(vp.ROOT, "tools", "gen_cyc.py"), fam, str(seed + 7),
            "40" if quick else "200", "80" if quick else "400"])
    lines = [l for l in open(fam) if l.strip()]
    small = os.path.join(wd, "cycm_family_small.ndjson")
    open(small, "w").writelines([l for l in lines if len(json.loads(l)["prog"]["nodes"]) <= 6])
    open(fam, "a").write(json.dumps({"prog": wprog}) + "\n")
    envw = {"FAMILY": wit, "SHARD": "0", "SHARDS": "1"}
    envf = {"FAMILY": fam, "SHARD": "0", "SHARDS": "1"}
    # -- design: the defect exists in the "retain" variant, the coded variant holds
    r_ret = vp.tlc("EngineCycMC", cfg="EngineCycMC_retain.cfg", env=envw, workers=4, timeout=600, check_ok=False)
    ev["retain_variant_refuted_on_witness"] = "Correct" in r_ret["invariant_violated"]
    if coded == "forget" and not ev["retain_variant_refuted_on_witness"]:
        raise vp.ToolError("EngineCyc: the retain variant is not refuted on the witness program:\n" + r_ret["out"][-2000:])
    cfgc = os.path.join(wd, "EngineCycMC_coded.cfg")
    open(cfgc, "w").write(open(os.path.join(vp.SPECS, f"EngineCycMC_{coded}.cfg")).read())
    if quick:
        cfgs = os.path.join(wd, "EngineCycMC_coded_sim.cfg")
        open(cfgs, "w").write(open(cfgc).read().replace("MaxEpochs = 2", "MaxEpochs = 3"))
        r_mc = vp.tlc("EngineCycMC", cfg=cfgs, env=envf, workers=4, timeout=600, check_ok=False,
                      extra=["-simulate", "num=800", "-depth", "40", "-seed", str(seed)])
        ev["coded_variant_check"] = {"mode": "simulate num=800 depth=40, MaxEpochs=3", "programs": len(lines) + 1}
    else:
        r_mc = vp.tlc("EngineCycMC", cfg=cfgc, env={"FAMILY": small, "SHARD": "0", "SHARDS": "1"}, workers=8,
                      timeout=3000, check_ok=False, xmx="8g")
        ev["coded_variant_check"] = {"mode": "exhaustive, MaxEpochs=2 MaxSets=1 MaxQueries=2, programs of <= 6 nodes",
                                     "programs": sum(1 for _ in open(small)), "distinct_states": r_mc["distinct"]}
    if coded == "forget" and (r_mc["invariant_violated"] or "Error:" in r_mc["out"]):
        raise vp.ToolError("EngineCyc: the coded variant violates Correct in the model:\n" + r_mc["out"][-3000:])
    ev["coded_variant_holds"] = not r_mc["invariant_violated"]
    states = r_ret["distinct"] + r_mc["distinct"]
    # -- S->I: behaviours with the model's prediction, replayed and compared run by run
    cfgg = os.path.join(wd, "EngineCycMC_gen.cfg")
    open(cfgg, "w").write(open(os.path.join(vp.SPECS, "EngineCycMC_gen.cfg")).read().replace('SccFix = "fresh"', f'SccFix = "{coded}"'))
    r_gen = vp.tlc("EngineCycMC", cfg=cfgg, env=envf, workers=1, timeout=1500, check_ok=False,
                   extra=["-simulate", f"num={400 if quick else 6000}", "-depth", "40", "-seed", str(seed + 3)])
    beh = os.path.join(wd, "cycm_beh.ndjson")
    nbeh = _json_lines(r_gen["out"], beh)
    if nbeh == 0:
        raise vp.ToolError("EngineCycMC generated no behaviour:\n" + r_gen["out"][-2000:])
    tr = os.path.join(wd, "cycm_replay.ndjson")
    ec.eng_seq(bd, tr, mode="replay", cyc=1, dump=1, **{"in": beh})
    traces.append((tr, "EngineCyc behaviours with predictions"))
    case_files[tr] = beh
    p = vp.run(["python3", os.path.join(vp.ROOT, "tools", "cyc_conform.py"), "compare", beh, tr])
    cmp_ = json.loads(p.stdout.strip().splitlines()[-1])
    ev["predicted_behaviours"] = {k: cmp_[k] for k in ("behaviours", "queries_compared", "executor_runs_compared", "state_snapshots_compared", "mismatches")}
    drift = {"value": 0, "runs": 0, "state": 0, "model_err": 0}
    for m in cmp_["first"]:
        drift[m["kind"]] = drift.get(m["kind"], 0) + 1
    ev["first_mismatch"] = cmp_["first"][:1]
    # a judged query whose value differs from the model's is a violation in its own right (the coded
    # variant is Correct in the model, so the model's value IS the reference there)
    for m in cmp_["first"]:
        if m["kind"] == "value" and coded == "forget":
            judged_bad = [i for i, (a, b) in enumerate(zip(m["model_queries"], m["impl_queries"])) if a != b and m["judged"][i]]
            if judged_bad or m["panics"] or len(m["model_queries"]) != len(m["impl_queries"]):
                verdict.violation(f"query values differ from the mechanism model EngineCyc ({coded}): model {m['model_queries']} "
                                  f"impl {m['impl_queries']}",
                                  {"property": PID, "origin": "EngineCyc prediction", "case": m["case"], "mismatch": m})
    if cmp_["mismatches"]:
        vp.log(f"[C06] MODEL-DRIFT: {cmp_['mismatches']} of {cmp_['behaviours']} behaviours differ from EngineCyc's prediction "
               f"(first kinds: {drift})")
    # -- directed: counterexamples of the variant the code does not implement
    cfgx = os.path.join(wd, "EngineCycMC_cex.cfg")
    t = open(os.path.join(vp.SPECS, "EngineCycMC_cex.cfg")).read().replace('SccFix = "retain"', f'SccFix = "{other}"')
    if quick:
        t = t.replace("MaxQueries = 2", "MaxQueries = 1")
    open(cfgx, "w").write(t)
    r_cex = vp.tlc("EngineCycMC", cfg=cfgx, env=envw, workers=4, timeout=1500, check_ok=False)
    cex = os.path.join(wd, "cycm_cex.ndjson")
    ncex = _json_lines(r_cex["out"], cex)
    states += r_cex["distinct"]
    if not quick:
        # ... and over the small programs of the family (one query per epoch), as far as 15 minutes go
        cfgx1 = os.path.join(wd, "EngineCycMC_cex1.cfg")
        open(cfgx1, "w").write(t.replace("MaxQueries = 2", "MaxQueries = 1"))
        r2 = vp.tlc("EngineCycMC", cfg=cfgx1, env={"FAMILY": small, "SHARD": "0", "SHARDS": "1"}, workers=8, timeout=900,
                    check_ok=False, timeout_ok=True, xmx="8g")
        cex2 = os.path.join(wd, "cycm_cex_family.ndjson")
        n2 = _json_lines(r2["out"], cex2)
        open(cex, "a").writelines(open(cex2).readlines())
        ncex += n2
        states += r2["distinct"]
    ev["counterexamples_of_other_variant"] = {"variant": other, "histories": ncex}
    if other == "retain" and ncex == 0:
        raise vp.ToolError("EngineCycMC: no counterexample of the retain variant was generated:\n" + r_cex["out"][-2000:])
    if ncex:
        if ncex > 400:
            keep = [l for i, l in enumerate(open(cex)) if i % (ncex // 400 + 1) == 0]
            open(cex, "w").writelines(keep)
        trx = os.path.join(wd, "cycm_cex_replay.ndjson")
        ec.eng_seq(bd, trx, mode="replay", cyc=1, **{"in": cex})
        traces.append((trx, f"counterexamples of EngineCyc variant {other}"))
        case_files[trx] = cex
        p = vp.run(["python3", os.path.join(vp.ROOT, "tools", "cyc_conform.py"), "compare", cex, trx])
        c2 = json.loads(p.stdout.strip().splitlines()[-1])
        ev["counterexamples_of_other_variant"].update({"replayed": c2["behaviours"],
                                                       "impl_differs_from_that_variant": c2["mismatches"]})
    # -- firewalls in the mechanism model: termination of the transitive-firewall repair, the known findings
    #    reproduced at the mechanism level, and run-by-run conformance on the two firewall families
    chain_fixed = status.get("FX_FW_TFC_RECURSION") == "fixed"
    envs = {"FAMILY": os.path.join(vp.SPECS, "cyc_fw_small.ndjson"), "SHARD": "0", "SHARDS": "1"}
    envg = {"FAMILY": os.path.join(vp.SPECS, "cyc_gate_small.ndjson"), "SHARD": "0", "SHARDS": "1"}
    r_t = vp.tlc("EngineCycMC", cfg="EngineCycMC_fwterm.cfg", env=envs, workers=4, timeout=900, check_ok=False)
    r_tn = vp.tlc("EngineCycMC", cfg="EngineCycMC_fwterm_nochain.cfg", env=envs, workers=4, timeout=900, check_ok=False)
    r_kf = vp.tlc("EngineCycMC", cfg=f"EngineCycMC_{coded}.cfg", env=envs, workers=2, timeout=600, check_ok=False)
    r_kg = vp.tlc("EngineCycMC", cfg=f"EngineCycMC_{coded}.cfg", env=envg, workers=2, timeout=600, check_ok=False)
    ev["firewalls_in_the_model"] = {
        "tfc_repair_with_chain_terminates": r_t["ok"], "states": r_t["distinct"],
        "tfc_repair_without_chain_runs_out_of_fuel": "Terminates" in r_tn["invariant_violated"],
        "model_reproduces_KF_FW_ON_CYCLE (Correct violated on a firewall-on-cycle program)": "Correct" in r_kf["invariant_violated"],
        "model_reproduces_the_KF_TFC_call_site_on_a_gated_cycle": "Correct" in r_kg["invariant_violated"]}
    states += r_t["distinct"] + r_tn["distinct"] + r_kf["distinct"] + r_kg["distinct"]
    if chain_fixed and not (r_t["ok"] and ev["firewalls_in_the_model"]["tfc_repair_without_chain_runs_out_of_fuel"]):
        raise vp.ToolError("EngineCyc: the transitive-firewall repair model does not behave as expected (chain holds / no chain refuted):\n"
                           + r_t["out"][-1500:] + r_tn["out"][-1500:])
    cfgf = os.path.join(wd, "EngineCycMC_gen_fw.cfg")
    open(cfgf, "w").write(open(cfgg).read().replace("TfcChain = TRUE", f"TfcChain = {'TRUE' if chain_fixed else 'FALSE'}"))
    ev["firewall_families_predicted"] = {}
    for variant in ("fw", "gate"):
        famv = os.path.join(wd, f"cycm_{variant}_family.ndjson")
        vp.run(["python3", os.path.join(vp.ROOT, "tools", "gen_cyc.py"), famv, str(seed + 13), "30", "60" if quick else "200", "--" + variant])
        # the model has no projections: the projection consumers of these families read as Normal queries
        progs = []
        for l in open(famv):
            pr = json.loads(l)
            for nd in pr["prog"]["nodes"]:
                if nd["kind"] == "Pj":
                    nd["kind"] = "Nm"
            progs.append(json.dumps(pr))
        open(famv, "w").write("\n".join(progs) + "\n")
        rg = vp.tlc("EngineCycMC", cfg=cfgf, env={"FAMILY": famv, "SHARD": "0", "SHARDS": "1"}, workers=1, timeout=1500, check_ok=False,
                    extra=["-simulate", f"num={150 if quick else 2000}", "-depth", "40", "-seed", str(seed + 17)])
        behv = os.path.join(wd, f"cycm_{variant}_beh.ndjson")
        nb = _json_lines(rg["out"], behv)
        if nb == 0:
            raise vp.ToolError(f"EngineCycMC generated no behaviour for the {variant} family:\n" + rg["out"][-2000:])
        trv = os.path.join(wd, f"cycm_{variant}_replay.ndjson")
        pv = _limited(bd, "eng_seq", ["--out", trv, "--mode", "replay", "--cyc", "1", "--dump", "1", "--in", behv])
        if pv.returncode != 0:
            verdict.violation(f"no_progress: the harness process died (rc={pv.returncode}) while replaying EngineCyc behaviours of the {variant} family",
                              {"property": PID, "kind": "no_progress", "origin": f"EngineCyc {variant} family", "rc": pv.returncode})
            continue
        pc = vp.run(["python3", os.path.join(vp.ROOT, "tools", "cyc_conform.py"), "compare", behv, trv])
        cv = json.loads(pc.stdout.strip().splitlines()[-1])
        ev["firewall_families_predicted"][variant] = {k: cv[k] for k in ("behaviours", "queries_compared", "executor_runs_compared",
                                                                         "state_snapshots_compared", "same_runs_in_another_order", "mismatches")}
        if cv["mismatches"]:
            vp.log(f"[C06] MODEL-DRIFT: {cv['mismatches']} of {cv['behaviours']} behaviours of the {variant} family differ from EngineCyc's "
                   f"prediction: {json.dumps(cv['first'][:1])[:600]}")
    ev["model_states"] = states
    return ev, states


def conc_cycle_protocol(bd, wd, quick, seed, traces, verdict):
    """EngineConc with dependency cycles: design check (as coded + liveness + two mutations) and TLC schedules
    forced on the real engine through the cfg-guarded points (conc_sched)."""
    ev = {}
    states = 0
    held = {}
    for cfg in ("cycR2", "cycR3", "cycSL"):
        r = vp.tlc("MCEngineConc", cfg=f"EngineConc_{cfg}.cfg", workers=2, timeout=900, check_ok=False)
        held[cfg] = r["ok"]; states += r["distinct"]
        if not r["ok"]:
            raise vp.ToolError(f"EngineConc ({cfg}) violates its invariants as coded:\n" + r["out"][-2500:])
    for cfg in ("cycR2_live", "cycR3_live"):
        r = vp.tlc("MCEngineConc", cfg=f"EngineConc_{cfg}.cfg", workers=1, timeout=900, check_ok=False)
        held[cfg] = r["ok"]; states += r["distinct"]
        if not r["ok"]:
            raise vp.ToolError(f"EngineConc ({cfg}): Progress does not hold as coded:\n" + r["out"][-2500:])
    m1 = vp.tlc("MCEngineConc", cfg="EngineConc_cyc_reglate.cfg", workers=1, timeout=600, check_ok=False)
    m2 = vp.tlc("MCEngineConc", cfg="EngineConc_cyc_markcaller.cfg", workers=1, timeout=600, check_ok=False)
    ev["design"] = {"as_coded_holds": held,
                    "invariants": ["SingleFlight", "OncePerEpoch", "NoOrphanWaiter", "NoStall", "CutOnlyOnCycle", "CutExact"],
                    "liveness": "Progress under weak fairness (2 tasks)",
                    "mutation_RegisterLate_refuted": "NoStall" in m1["invariant_violated"],
                    "mutation_MarkCallerOnly_refuted": "CutExact" in m2["invariant_violated"]}
    if not (ev["design"]["mutation_RegisterLate_refuted"] and ev["design"]["mutation_MarkCallerOnly_refuted"]):
        raise vp.ToolError("EngineConc: a cycle mutation is not refuted by TLC (vacuous invariants?)")
    cases = os.path.join(wd, "sched_cyc.cases")
    g = vp.run(["python3", os.path.join(vp.ROOT, "tools", "gen_conc.py"), cases, str(seed), "40" if quick else "800", "cyclic"],
               timeout=2400, env={"VH_TMP": vp.workdir(PID, "tlcgen")})
    ginfo = json.loads(g.stdout.strip().splitlines()[-1])
    tr = os.path.join(wd, "sched_cyc.ndjson")
    resf = os.path.join(wd, "sched_cyc.res")
    vp.run_subject([os.path.join(bd, "conc_sched"), "--in", cases, "--out", tr, "--res", resf], timeout=3000)
    sres = vp.read_ndjson(resf)
    scases = vp.read_ndjson(cases)
    ev["schedule_replay"] = {"behaviours_generated_by_TLC": ginfo["behaviours"], "steps": ginfo["steps"],
                             "distinct_schedules": len({json.dumps(c["steps"]) for c in scases}),
                             "steps_followed_exactly": sum(r["followed"] for r in sres),
                             "schedules_followed_to_the_end": sum(1 for r in sres if r["drift"] is None and not r["hang"]),
                             "model_drift": sum(1 for r in sres if r["drift"] is not None and not r["hang"]),
                             "first_drift": next((r for r in sres if r["drift"] is not None and not r["hang"]), None),
                             "hangs": sum(1 for r in sres if r["hang"])}
    for r in [r for r in sres if r["hang"]][:3]:
        verdict.violation(f"no_progress: schedule {r['case']} of the cycle protocol does not complete, not even when the tasks "
                          f"run freely after step {r['followed']} ({r['drift']})",
                          {"property": PID, "kind": "no_progress", "origin": "EngineConcGen cyclic schedule replay",
                           "case": scases[r["case"]], "result": r})
    if ev["schedule_replay"]["model_drift"]:
        vp.log(f"[C06] MODEL-DRIFT: {ev['schedule_replay']['model_drift']} cyclic schedules left the specification: "
               f"{ev['schedule_replay']['first_drift']}")
    traces.append((tr, "EngineConc cyclic schedules forced on the engine"))
    return ev, states + ginfo["steps"]


def _viol_keys(trace, res):
    """Violations of C06 kinds keyed by (run index, kind, node, got, want, offset in the run)."""
    evs = vp.read_ndjson(trace)
    resets = [i + 1 for i, e in enumerate(evs) if e.get("e") == "reset"]
    import bisect
    out = {}
    for v in res["viol"]:
        if v["kind"] not in KINDS:
            continue
        run_idx = bisect.bisect_left(resets, v["at"])
        start = resets[run_idx - 1] if run_idx > 0 else 0
        out[(run_idx, v["kind"], v["n"], v["got"], v["want"], v["at"] - start)] = v
    return out


def _limited(bd, binary, args, mem_kb=6_000_000, timeout=1500):
    """Run a harness binary under an address-space limit (a runaway recursion in the code under test must not
    take the machine down); returns the CompletedProcess (no exception on death)."""
    cmd = ["bash", "-c", f"ulimit -v {mem_kb}; exec \"$0\" \"$@\"", os.path.join(bd, binary)] + [str(a) for a in args]
    return vp.run(cmd, timeout=timeout, check=False)


def firewall_on_cycle(bd, wd, quick, seed, verdict, variant="fw"):
    """Cycles through firewalls / projections (tools/gen_cyc.py --fw): the first ring node is a firewall, a
    projection reads it.  Two things are decided: every request terminates (the process neither hangs nor dies:
    FX_FW_TFC_RECURSION), and values.  Values handed out for such programs are wrong in a class of histories
    on the unchanged tree (known finding KF_FW_ON_CYCLE: dirty propagation stops at the firewall, so the two
    sides of the cycle are re-verified independently); a violation is attributed to it only if the pinned
    baseline tree shows the identical wrong observable at the same place of the same history."""
    known = {k["id"]: k for k in vp.load_known() if k["property"] == PID}
    tag = "fwcyc" if variant == "fw" else "gatecyc"
    fam = os.path.join(wd, tag + "_family.ndjson")
    vp.run(["python3", os.path.join(vp.ROOT, "tools", "gen_cyc.py"), fam, str(seed + 11), "30" if quick else "200",
            "60" if quick else "400", "--" + variant])
    r = vp.tlc("EngineObsGen", cfg="EngineObsGenSim.cfg", env={"FAMILY": fam, "SHARD": "0", "SHARDS": "1"},
               workers=1, timeout=1200, check_ok=False,
               extra=["-simulate", f"num={300 if quick else 4000}", "-depth", "80", "-seed", str(seed + 5)])
    cases = os.path.join(wd, tag + "_cases.ndjson")
    n = _json_lines(r["out"], cases)
    if n == 0:
        raise vp.ToolError(f"no behaviours generated for the {tag} family:\n" + r["out"][-2000:])
    if variant == "fw":
        with open(cases, "a") as f:
            for line in open(os.path.join(vp.ROOT, "witness", "c06_fw_tfc_recursion.ndjson")):
                if line.strip():
                    f.write(line.strip() + "\n"); n += 1
    ev = {"histories": n}
    tr = os.path.join(wd, tag + ".ndjson")
    p = _limited(bd, "eng_seq", ["--out", tr, "--mode", "replay", "--cyc", "1", "--in", cases])
    if p.returncode != 0:
        # find the history that brings the process down
        bad = None
        lines = [l for l in open(cases) if l.strip()]
        one = os.path.join(wd, tag + "_one.ndjson")
        for i, l in enumerate(lines):
            open(one, "w").write(l)
            q = _limited(bd, "eng_seq", ["--out", one + ".tr", "--mode", "replay", "--cyc", "1", "--in", one], mem_kb=3_000_000, timeout=60)
            if q.returncode != 0:
                bad = (i, json.loads(l), q.returncode, (q.stdout or "")[-800:])
                break
        verdict.violation(f"no_progress: the harness process died (rc={p.returncode}) while replaying the firewall-on-cycle family"
                          + (f"; history {bad[0]} alone: rc={bad[2]} {bad[3][-200:]}" if bad else ""),
                          {"property": PID, "kind": "no_progress", "origin": "firewall-on-cycle family",
                           "case": bad[1] if bad else None, "rc": p.returncode})
        ev["process_died"] = True
        return ev, 0
    res, rr = ec.validate(tr, tr + ".result.json", timeout=3000)
    mine = _viol_keys(tr, res)
    ev.update({"events_validated": res["events"], "queries": res["stats"].get("queries", 0),
               "queries_not_judged_reference_ambiguous": res["stats"].get("ambig", 0),
               "cut_executor_runs": res["stats"].get("cyc", 0), "deviations": len(mine)})
    for v in res["viol"]:
        if v["kind"].startswith("harness_"):
            raise vp.ToolError(f"harness inconsistency {v} in {tr}")
    same = new = 0
    if mine:
        bdb = ec.build_baseline()
        trb = os.path.join(wd, tag + "_baseline.ndjson")
        pb = _limited(bdb, "eng_seq", ["--out", trb, "--mode", "replay", "--cyc", "1", "--in", cases])
        base = {}
        if pb.returncode == 0:
            resb, _ = ec.validate(trb, trb + ".result.json", timeout=3000)
            base = _viol_keys(trb, resb)
        lines = [l for l in open(cases) if l.strip()]
        for key, v in sorted(mine.items()):
            # which listed finding a deviation that the baseline tree shares is booked under: the family's own
            # (a firewall ON the cycle), or - gate family - the signature EngineObs attached, else the residual class
            kid = "KF_FW_ON_CYCLE" if variant == "fw" else (v.get("kf") or "KF_UNSIG")
            if key in base and kid in known and known[kid].get("status") == "known":
                same += 1
                verdict.known_finding(kid, known[kid]["what"])
            else:
                new += 1
                if new <= 4:
                    verdict.violation(f"{v['kind']} node={v['n']} got={v['got']} want={v['want']} ({tag} family; "
                                      f"the pinned baseline tree does not show this deviation)",
                                      {"property": PID, "violation": v, "origin": tag + " family",
                                       "case": json.loads(lines[key[0]]), "cyc": 1})
    ev["deviations_identical_in_baseline_tree"] = same
    ev["deviations_not_in_baseline_tree"] = new
    return ev, rr["distinct"]


def run(tier, seed):
    t0 = time.time()
    bd = vp.build()
    wd = vp.clean_workdir(PID)
    verdict = vp.Verdict(PID)
    quick = tier != "thorough"
    fam = os.path.join(wd, "cyc_family.ndjson")
    p = vp.run(["python3", os.path.join(vp.ROOT, "tools", "gen_cyc.py"), fam, str(seed),
                "30" if quick else "400", "120" if quick else "4000"])
    nprogs = json.loads(p.stdout.strip().splitlines()[-1])["written"]
    r = vp.tlc("EngineObsGen", cfg="EngineObsGenSim.cfg", env={"FAMILY": fam, "SHARD": "0", "SHARDS": "1"},
               workers=1, timeout=1200,
               extra=["-simulate", f"num={1500 if quick else 25000}", "-depth", "80", "-seed", str(seed)],
               check_ok=False)
    cases = os.path.join(wd, "cases.ndjson")
    nb = 0
    with open(cases, "w") as f:
        for line in r["out"].splitlines():
            if line.startswith('"{'):
                f.write(json.loads(line) + "\n"); nb += 1
    if nb == 0:
        raise vp.ToolError("no behaviours generated:\n" + r["out"][-2000:])
    # directed histories kept from earlier explorations (witness/c06_cases.ndjson): the history on which the
    # thorough tier found FX_SCC_VALUE_RETAINED (a cut query kept its cycle default after the cycle was removed
    # because its callee is still cyclic for another reason), and a non-simple program that must not be judged
    nwit = 0
    with open(cases, "a") as f:
        for line in open(os.path.join(vp.ROOT, "witness", "c06_cases.ndjson")):
            if line.strip():
                f.write(line.strip() + "\n"); nwit += 1
    nb += nwit
    import re
    m = re.search(r"The number of states generated: (\d+)", r["out"])
    gstates = int(m.group(1)) if m else 0
    traces = []
    tr = os.path.join(wd, "seq.ndjson")
    ec.eng_seq(bd, tr, mode="replay", cyc=1, **{"in": cases})
    traces.append((tr, "sequential replay of TLC histories"))
    # executors that read their two ring successors CONCURRENTLY (join_all) and yield after every read:
    # on the single-threaded runtime the two paths really interleave, so a computing query can have two
    # computing callees and paths merge before the closing edge.  The reference value of such programs
    # depends on the interleaving; what is judged is the engine's own cycle search, observed through the
    # cfg-guarded hook (`cyc` events): its answer, and that every query it saw on the cycle is cut short
    famp = os.path.join(wd, "cyc_family_par.ndjson")
    vp.run(["python3", os.path.join(vp.ROOT, "tools", "gen_cyc.py"), famp, str(seed),
            "40" if quick else "400", "150" if quick else "3000", "--par"])
    rp_ = vp.tlc("EngineObsGen", cfg="EngineObsGenSim.cfg", env={"FAMILY": famp, "SHARD": "0", "SHARDS": "1"},
                 workers=1, timeout=1200,
                 extra=["-simulate", f"num={1000 if quick else 15000}", "-depth", "60", "-seed", str(seed + 1)],
                 check_ok=False)
    casesp = os.path.join(wd, "cases_par.ndjson")
    nbp = 0
    with open(casesp, "w") as f:
        for line in rp_["out"].splitlines():
            if line.startswith('"{'):
                f.write(json.loads(line) + "\n"); nbp += 1
    if nbp == 0:
        raise vp.ToolError("no behaviours generated for the parallel family:\n" + rp_["out"][-2000:])
    for y in (1, 2):
        trp = os.path.join(wd, f"seq_par_y{y}.ndjson")
        ec.eng_seq(bd, trp, mode="replay", cyc=1, yields=y, **{"in": casesp})
        traces.append((trp, f"parallel-callee family, executors yield {y}x after each read"))
    for i, (workers, tasks) in enumerate(((2, 4), (8, 12)) if quick else ((2, 3), (4, 8), (8, 16), (16, 32))):
        tc = os.path.join(wd, f"conc_{i}.ndjson")
        vp.run_subject([os.path.join(bd, "eng_conc"), "--kind", "file", "--progs", fam, "--workers", str(workers),
                "--tasks", str(tasks), "--runs", str(60 if quick else 600), "--phases", "2", "--pertask", "4",
                "--sleepus", "150", "--seed", str(seed * 10 + i), "--out", tc], timeout=3000)
        traces.append((tc, f"concurrent entry workers={workers} tasks={tasks}"))
    case_files = {tr: cases}
    cyc_mechanism, cyc_states = engine_cyc(bd, wd, quick, seed, traces, case_files, verdict)
    conc_cyc, conc_states = conc_cycle_protocol(bd, wd, quick, seed, traces, verdict)
    cyc_states += conc_states
    fwcyc, fw_states = firewall_on_cycle(bd, wd, quick, seed, verdict)
    cyc_states += fw_states
    # ... and a firewall NEXT to the cycle that switches the cycle's edges (a gate, Program.tla IsGate)
    gatecyc, gate_states = firewall_on_cycle(bd, wd, quick, seed, verdict, variant="gate")
    cyc_states += gate_states
    # design level: the cycle search transcribed step by step (CycleSearch.tla) meets its contract on every
    # digraph of 4 computing queries in every breadth-first order; its two mutations are refuted
    cs = vp.tlc("CycleSearch", cfg="CycleSearch_asis.cfg", workers=4, timeout=900, check_ok=False, xmx="6g")
    cs_sweep = vp.tlc("CycleSearch", cfg="CycleSearch_sweep.cfg", workers=2, timeout=600, check_ok=False)
    cs_nv = vp.tlc("CycleSearch", cfg="CycleSearch_novisited.cfg", workers=1, timeout=300, check_ok=False)
    if not cs["ok"]:
        raise vp.ToolError("CycleSearch (as coded) does not meet its contract in the model:\n" + cs["out"][-2500:])
    cycle_search_model = {"as_coded_meets_contract": cs["ok"], "distinct_states": cs["distinct"],
                          "single_backward_sweep_refuted": "MarksTheCycle" in cs_sweep["invariant_violated"],
                          "no_visited_set_does_not_terminate": "Terminates" in cs_nv["invariant_violated"]}
    states = gstates + cs["distinct"] + cyc_states
    trans = cs["generated"]
    events = 0
    stats = {}
    by_kind = {}
    viols = []
    nruns = 0
    from concurrent.futures import ThreadPoolExecutor
    with ThreadPoolExecutor(max_workers=3) as ex:
        validated = list(ex.map(lambda po: ec.validate(po[0], po[0] + ".result.json", timeout=3000), traces))
    for (path, origin), (res, rr) in zip(traces, validated):
        states += rr["distinct"]; trans += rr["generated"]; events += res["events"]
        for k, v in res["stats"].items():
            stats[k] = stats.get(k, 0) + v
        nruns += sum(1 for e in vp.read_ndjson(path) if e["e"] == "reset")
        for v in res["viol"]:
            if v["kind"].startswith("harness_"):
                raise vp.ToolError(f"harness inconsistency {v} in {path}")
            if v["kind"] in KINDS:
                by_kind[v["kind"]] = by_kind.get(v["kind"], 0) + 1
                viols.append((path, origin, v))
    for path, origin, v in viols[:4]:
        evs = vp.read_ndjson(path)
        run_events, start = vp.run_containing(evs, v["at"])
        case = None
        if path in case_files:
            run_idx = sum(1 for e in evs[:v["at"] - 1] if e.get("e") == "reset")
            c = [json.loads(l) for l in open(case_files[path])][run_idx]
            case = {"prog": c["prog"], "actions": c["actions"]}
        verdict.violation(f"{v['kind']} node={v['n']} got={v['got']} want={v['want']} ({origin})",
                          {"property": PID, "violation": v, "origin": origin, "case": case,
                           "events": run_events[:120]})
    rc = verdict.finish()
    sample_case = json.loads(open(cases).readline())
    coverage = {
        "states": states, "transitions": trans,
        "traces_validated_against_impl": nruns,
        "samples": [{"tlc_generated_case": sample_case}],
        "cycle_search_model": cycle_search_model,
        "cycle_mechanism_model_EngineCyc": cyc_mechanism,
        "concurrent_cycle_protocol_EngineConc": conc_cyc,
        "firewall_on_cycle_family": fwcyc,
        "cycle_switched_by_a_firewall_family": gatecyc,
        "cyclic_programs": nprogs,
        "histories_from_tlc": nb,
        "events_validated": events,
        "checked": stats,
        "executor_runs_unwound_by_cycle_detection": stats.get("cyc", 0),
        "queries_not_judged_reference_ambiguous": stats.get("ambig", 0),
        "violations_by_kind": by_kind,
    }
    vp.write_evidence(PID, tier, seed, "model_checking", coverage, time.time() - t0, len(verdict.violations),
                      assumptions=["reference value = Program.tla CycValuation, judged only where CycSimple holds",
                                   "cycle edges are guarded by input-only prefixes (family restriction CycWellFormed, "
                                   "checked by TLC for every program)",
                                   "watchdog 90 s per concurrent phase"])
    return rc


def replay(path):
    rp = json.load(open(path))
    if not rp.get("case"):
        print("replay: the violation came from a concurrent run; re-run ./check C06")
        return 2
    bd = vp.build()
    wd = vp.workdir(PID, "replay")
    cin = os.path.join(wd, "case.ndjson")
    open(cin, "w").write(json.dumps(rp["case"]) + "\n")
    tr = os.path.join(wd, "t.ndjson")
    # under an address-space limit: a runaway recursion in the code under test must not take the machine down
    p = _limited(bd, "eng_seq", ["--out", tr, "--mode", "replay", "--cyc", "1", "--in", cin], mem_kb=4_000_000, timeout=300)
    if p.returncode != 0:
        print(f"VIOLATION property={PID} replay={path}")
        print(f"   the process replaying the history died (rc={p.returncode}): {(p.stdout or '')[-300:]}")
        return 1
    res, _ = ec.validate(tr, tr + ".result.json")
    bad = [v for v in res["viol"] if v["kind"] in KINDS]
    if bad:
        print(f"VIOLATION property={PID} replay={path}")
        for v in bad[:5]:
            print("  ", v)
        return 1
    print(f"replay {path}: no violation of {PID}")
    return 0


def selftest(seed):
    bd = vp.build()
    wd = vp.clean_workdir(PID + "-selftest")
    fam = os.path.join(wd, "fam.ndjson")
    vp.run(["python3", os.path.join(vp.ROOT, "tools", "gen_cyc.py"), fam, str(seed), "5", "6"])
    # a hand-written history: query every node of each program
    cases = os.path.join(wd, "cases.ndjson")
    with open(cases, "w") as f:
        for l in open(fam):
            prog = json.loads(l)["prog"]
            acts = [{"a": "begin"}] + [{"a": "set", "n": i + 1, "v": 1} for i, nd in enumerate(prog["nodes"])
                                       if nd["kind"] == "In"] + [{"a": "commit"}]
            acts += [{"a": "query", "t": 0, "n": i + 1} for i in range(len(prog["nodes"]))]
            f.write(json.dumps({"prog": prog, "actions": acts}) + "\n")
    # ... and the witness history, whose last cycle default is judged (one self-loop, CycSimple)
    with open(cases, "a") as f:
        f.write(open(os.path.join(vp.ROOT, "witness", "c06_cases.ndjson")).readline().strip() + "\n")
    tr = os.path.join(wd, "t.ndjson")
    ec.eng_seq(bd, tr, mode="replay", **{"in": cases})
    ev = vp.read_ndjson(tr)
    # turn the last cycle default (7) handed to the user into another value: must be flagged
    last = max((i for i, e in enumerate(ev) if e["e"] == "query" and e["v"] == 7), default=-1)
    done = last >= 0
    t2 = os.path.join(wd, "t2.ndjson")
    with open(t2, "w") as f:
        for i, e in enumerate(ev):
            if i == last:
                e = dict(e); e["v"] = 0
            f.write(json.dumps(e) + "\n")
    res, _ = ec.validate(t2, t2 + ".json")
    ok = done and any(v["kind"] == "query_value" for v in res["viol"])
    print(f"selftest {PID}: a corrupted cycle default is flagged: {ok}")
    # the binding of EngineCyc: behaviours with the model's prediction are replayed; corrupting one recorded
    # field of the engine's state dump (a caller removed from a backward-edge set), one executor run (a read
    # dropped) or one query value must each be reported by tools/cyc_conform.py
    cfgg = os.path.join(wd, "gen.cfg")
    open(cfgg, "w").write(open(os.path.join(vp.SPECS, "EngineCycMC_gen.cfg")).read().replace('SccFix = "fresh"', 'SccFix = "forget"'))
    rg = vp.tlc("EngineCycMC", cfg=cfgg, env={"FAMILY": fam, "SHARD": "0", "SHARDS": "1"}, workers=1, timeout=600, check_ok=False,
                extra=["-simulate", "num=30", "-depth", "40", "-seed", str(seed)])
    beh = os.path.join(wd, "beh.ndjson")
    nb = _json_lines(rg["out"], beh)
    trm = os.path.join(wd, "beh_tr.ndjson")
    ec.eng_seq(bd, trm, mode="replay", cyc=1, dump=1, **{"in": beh})

    def conform(path):
        p = vp.run(["python3", os.path.join(vp.ROOT, "tools", "cyc_conform.py"), "compare", beh, path])
        return json.loads(p.stdout.strip().splitlines()[-1])
    base = conform(trm)
    evm = vp.read_ndjson(trm)
    kinds = {}
    for what in ("state", "runs", "value"):
        hit = False
        out = []
        for e in evm:
            e = dict(e)
            if not hit and what == "state" and e.get("e") == "dump" and e.get("back"):
                e["back"] = e["back"][:-1]; hit = True
            elif not hit and what == "runs" and e.get("e") == "exec" and e.get("reads"):
                e["reads"] = e["reads"][:-1]; hit = True
            elif not hit and what == "value" and e.get("e") == "query":
                e["v"] = (e["v"] + 1) % 3; hit = True
            out.append(e)
        pth = os.path.join(wd, f"beh_tr_{what}.ndjson")
        with open(pth, "w") as f:
            for e in out:
                f.write(json.dumps(e) + "\n")
        c = conform(pth)
        kinds[what] = hit and c["mismatches"] >= 1 and c["first"][0]["kind"] == what
    ok2 = nb > 0 and base["mismatches"] == 0 and all(kinds.values())
    print(f"selftest {PID}: EngineCyc predictions agree with the engine ({base['behaviours']} behaviours, "
          f"{base['state_snapshots_compared']} state snapshots) and each corruption is reported: {kinds}")
    ok = ok and ok2
    print("selftest", "passed" if ok else "FAILED")
    return 0 if ok else 2
