"""C07 - state survives a clean restart and is reused, not recomputed.

Histories with clean restarts at arbitrary positions are run on the real
engine over DbBacked<MemKv> (cache capacities 1, 2, 8, 64; every grouping of
logical into physical batches; the hold-regime histories also over a real
DbBacked<RocksDB> directory, harness/src/bin/eng_persist_real.rs), in two commit-timing regimes driven by the
harness (see harness/src/bin/eng_persist.rs).  The recorded executions are
validated by TLC against EngineObsTrace: every value after a restart must be
the from-scratch value and every executor run must still be justified by the
read-set recorded *before* the restart."""
import json
import os
import time

import engcommon as ec
import vp

PID = "C07"


def wrap_cases(src, dst, regime, seed):
    """Give TLC-generated (prog, actions) cases the persistence parameters."""
    n = 0
    with open(dst, "w") as f:
        for i, line in enumerate(open(src)):
            if not line.strip():
                continue
            c = json.loads(line)
            c.update({"cap": [1, 2, 8, 64][(i + seed) % 4], "grouping": (i // 4 + seed) % 4,
                      "regime": regime, "crash": False, "cutseed": seed * 7919 + i})
            f.write(json.dumps(c) + "\n")
            n += 1
    return n


def real_backend_leg(wd, traces, quick):
    import shutil
    import tempfile
    bdb = vp.build(features="backends")
    base = "/dev/shm" if os.access("/dev/shm", os.W_OK) else wd
    scratch = tempfile.mkdtemp(prefix="vp_c07_rocks_", dir=base)
    info = {"backend": "rocksdb", "cases": 0, "restarts": 0, "sources": []}
    try:
        srcs = [t for t in traces if " hold" in t["origin"] or t["origin"].endswith("hold")]
        if quick:
            srcs = [t for t in srcs if not t["origin"].startswith("random")] + \
                   [t for t in srcs if t["origin"].startswith("random")][:1]
        for k, t in enumerate(srcs):
            tr = os.path.join(wd, f"rocks_{k}.ndjson")
            vp.run_subject([os.path.join(bdb, "eng_persist_real"), "--in", t["cases"], "--out", tr,
                            "--work", scratch] + ["--max", "400" if quick else "4000"], timeout=3000)
            ev = vp.read_ndjson(tr)
            info["cases"] += sum(1 for e in ev if e["e"] == "prog")
            info["restarts"] += sum(1 for e in ev if e["e"] == "restart")
            info["sources"].append(t["origin"])
            traces.append({"trace": tr, "cases": t["cases"], "origin": f"rocksdb directory: {t['origin']}"})
    finally:
        shutil.rmtree(scratch, ignore_errors=True)
    return info


def run(tier, seed):
    t0 = time.time()
    bd = vp.build()
    wd = vp.clean_workdir(PID)
    verdict = vp.Verdict(PID)
    known = ec.known_ids_for(PID)
    quick = tier != "thorough"
    traces = []
    n_seeds, runs, steps = (2, 80, 40) if quick else (16, 150, 50)
    for regime in ("hold", "settle"):
        for i in range(n_seeds):
            s = seed * 1000 + i + (500 if regime == "settle" else 0)
            tr = os.path.join(wd, f"{regime}_{i}.ndjson")
            cs = tr + ".cases"
            ec.eng_persist(bd, tr, seed=s, runs=runs, steps=steps, regime=regime, cases=cs)
            traces.append({"trace": tr, "cases": cs, "origin": f"random {regime} seed={s}"})
    # TLC-generated behaviours with restarts
    gcases, nb, gstates, faminfo = ec.gen_behaviours(wd, seed, 60 if quick else 800,
                                                     1200 if quick else 20000,
                                                     cfg="EngineObsGenSimR.cfg")
    for regime in ("hold", "settle"):
        wc = os.path.join(wd, f"gen_{regime}.cases")
        wrap_cases(gcases, wc, regime, seed)
        tr = os.path.join(wd, f"gen_{regime}.ndjson")
        ec.eng_persist(bd, tr, mode="replay", **{"in": wc})
        traces.append({"trace": tr, "cases": wc, "origin": f"EngineObsGen(restarts) {regime}"})

    # directed family: a backward projection is pending (a firewall was recomputed as a plain callee, its
    # projections not yet re-run) at the moment the store is closed and reopened (tools/gen_pbp_restart.py)
    pcases = os.path.join(wd, "pbp_restart.cases")
    vp.run(["python3", os.path.join(vp.ROOT, "tools", "gen_pbp_restart.py"), pcases, str(seed)])
    for regime in ("hold", "settle"):
        wc = os.path.join(wd, f"pbp_{regime}.cases")
        wrap_cases(pcases, wc, regime, seed)
        tr = os.path.join(wd, f"pbp_{regime}.ndjson")
        ec.eng_persist(bd, tr, mode="replay", **{"in": wc})
        traces.append({"trace": tr, "cases": wc, "origin": f"pending backward projection at restart, {regime}"})

    # the same histories over a real backend: DbBacked<RocksDB>, a restart = engine shutdown + opening the
    # same directory again (no commit gate: write-behind and RocksDB run at their own pace).  The events are
    # judged by the same trace specification; labelled deviations must again be confirmed by the baseline.
    real = real_backend_leg(wd, traces, quick)

    # a callee with 1100 callers: after a clean restart its callers set is rebuilt from the store
    # through the spill path of the key-of-set cache; every caller must still follow an input change
    wide = ec.wide_fanin_leg(PID, bd, wd, verdict, "eng_persist", fan=(1100,) if quick else (1024, 1025, 1100, 2100),
                             restart=True, extra={"cap": 64, "grouping": 0, "regime": "hold", "crash": False, "cutseed": seed})
    summary = ec.collect(PID, traces, verdict, known, "kv", baseline=("eng_persist", []))
    baseline_same = ec.finish_candidates(PID, verdict, summary, wd, "eng_persist", [])
    rc = verdict.finish()
    ev0 = [e for e in vp.read_ndjson(traces[0]["trace"])[:400] if e["e"] in
           ("prog", "restart", "query", "commit", "set")][:16]
    for e in ev0:
        if e["e"] == "prog":
            e["prog"] = {"nodes": len(e["prog"]["nodes"]), "m": e["prog"]["m"]}
    coverage = {
        "states": summary["states"] + gstates,
        "transitions": summary["transitions"],
        "traces_validated_against_impl": sum(sum(1 for l in open(t["cases"]) if l.strip()) for t in traces),
        "samples": [{"first_events_of_a_run_with_restarts": ev0}],
        "events_validated": summary["events"],
        "restarts": summary["stats"].get("restarts", 0),
        "checked": summary["stats"],
        "wide_fan_in_with_restarts": wide,
        "real_backend_leg": real,
        "regimes": ["hold (everything durable at shutdown)", "settle (pipeline idle after each action)"],
        "cache_capacities": [1, 2, 8, 64],
        "groupings": ["one", "up to 3", "all", "seeded 1..4"],
        "behaviours_from_tlc_simulation": nb,
        "violations_by_kind_and_signature": summary["viol_by_kind"],
        "known_finding_hits": {k: h["count"] for k, h in verdict.known_hits.items()},
        "unsignatured_but_baseline_identical": baseline_same,
        "rule": "one trace = one program + one history with clean restarts, replayed on the real engine "
                "over DbBacked<MemKv> (and the hold-regime histories once more over a DbBacked<RocksDB> "
                "directory that is closed and reopened); TLC judges every value and every executor run",
    }
    vp.write_evidence(PID, tier, seed, "model_checking", coverage, time.time() - t0,
                      len(verdict.violations),
                      assumptions=["MemKv is a faithful KvDatabase (it is also a subject of the C11 replay)",
                                   "commit timing is driven by the harness (gate): timing-dependent cache "
                                   "defects are the subject of C09, not of this check",
                                   "Fjall directories are exercised by C11 (reopen) only: its close protocol has "
                                   "known findings there (KF_FJALL_CLOSE_HANG / close race) that would be "
                                   "re-reported here without adding information"])
    return rc


def replay(path):
    rp = json.load(open(path))
    bd = vp.build()
    wd = vp.workdir(PID, "replay")
    cin = os.path.join(wd, "case.ndjson")
    with open(cin, "w") as f:
        f.write(json.dumps(rp["case"]) + "\n")
    tr = os.path.join(wd, "trace.ndjson")
    ec.eng_persist(bd, tr, mode="replay", **{"in": cin})
    res, _ = ec.validate(tr, tr + ".result.json")
    bad = [v for v in res["viol"] if v["kind"] in ec.KINDS[PID]]
    known = ec.known_ids_for(PID)
    rc = 0
    for v in bad:
        if v.get("kf") in known:
            print(f"KNOWN-FINDING: property={PID} {v['kf']}: {known[v['kf']]}")
        else:
            print(f"VIOLATION property={PID} replay={path}")
            print("  ", v)
            rc = 1
    if not bad:
        print(f"replay {path}: no violation of {PID}")
    return rc


def selftest(seed):
    """Corrupt the store between shutdown and reopen is not possible from here;
    instead: drop the `restart` event of a recorded run after perturbing one
    post-restart value, and show TLC flags it."""
    bd = vp.build()
    wd = vp.clean_workdir(PID + "-selftest")
    tr = os.path.join(wd, "t.ndjson")
    ec.eng_persist(bd, tr, seed=seed, runs=4, steps=30, regime="hold", cases=tr + ".cases")
    res, _ = ec.validate(tr, tr + ".json")
    base = len([v for v in res["viol"] if v["kind"] in ec.KINDS[PID] and not v["kf"]])
    ev = vp.read_ndjson(tr)
    seen_restart = False
    done = False
    tr2 = os.path.join(wd, "t2.ndjson")
    with open(tr2, "w") as f:
        for e in ev:
            if e["e"] == "restart":
                seen_restart = True
            if seen_restart and not done and e["e"] == "query":
                e = dict(e); e["v"] += 1; done = True
            f.write(json.dumps(e) + "\n")
    res2, _ = ec.validate(tr2, tr2 + ".json")
    got = len([v for v in res2["viol"] if v["kind"] in ec.KINDS[PID] and not v["kf"]])
    print(f"selftest {PID}: unsignatured violations before={base} after corrupting a post-restart value={got}")
    ok = done and got > base
    print("selftest", "passed" if ok else "FAILED")
    return 0 if ok else 2
