"""C08, real-process crash leg (called from c08.py).

harness/src/bin/eng_crash.rs runs the engine over DbBacked<RocksDB> /
DbBacked<Fjall> in a child process (blob-valued inputs, so that the backend
really flushes while the process is alive), kills it with SIGKILL at a seeded
moment (a: random moment, b: a new data file appeared / the flush was
installed, c: during the close-time flush), reopens the store in a third
process and interrogates it.  Every kill yields one run (prog .. reset) in the
event vocabulary of eng_persist; all runs are concatenated and judged by TLC
with specs/EngineObsTrace.tla, unchanged: the recovered inputs are those of
some committed session, the engine opens, every value equals the from-scratch
value for the recovered inputs."""
import concurrent.futures as cf
import json
import os
import shutil
import time

import engcommon as ec
import vp

PID = "C08"
# kinds judged after the `crash` event of a run (cr = TRUE)
REAL_KINDS = set(ec.KINDS[PID]) | {"no_progress", "query_panicked"}

QUICK_PLAN = ([("rocksdb", "b")] * 5 + [("rocksdb", "c")] * 3 + [("rocksdb", "a")] +
              [("fjall", "a"), ("fjall", "b"), ("fjall", "c")])
THOROUGH_PLAN = 3 * ([("rocksdb", "b")] * 16 + [("rocksdb", "c")] * 8 + [("rocksdb", "a")] * 6 +
                 [("fjall", "a")] * 5 + [("fjall", "c")] * 3 + [("fjall", "b")] * 2)


def _one_kill(bd, wd, i, backend, strategy, s, extra=None):
    """One warm-up / kill / reopen cycle. Returns (trace path, meta dict)."""
    run_dir = os.path.join(wd, f"real_{i}")
    tr = os.path.join(wd, f"real_{i}.ndjson")
    meta = os.path.join(wd, f"real_{i}.meta.json")
    cmd = [os.path.join(bd, "eng_crash"), "--role", "parent", "--work", run_dir, "--out", tr, "--meta", meta,
           "--backend", backend, "--strategy", strategy, "--seed", str(s)]
    for k, v in (extra or {}).items():
        cmd += [f"--{k}", str(v)]
    try:
        p = vp.run(cmd, timeout=600, check=False)
    finally:
        shutil.rmtree(os.path.join(run_dir, "db"), ignore_errors=True)
    if p.returncode == 3:
        # the engine died in a fault-free phase (warm-up, or the heavy child by itself)
        raise vp.SubjectCrash(cmd, p.returncode, (p.stdout or "")[-6000:])
    if p.returncode != 0 or not os.path.exists(tr) or not os.path.exists(meta):
        raise vp.ToolError(f"eng_crash parent failed rc={p.returncode}:\n{(p.stdout or '')[-3000:]}")
    return tr, json.load(open(meta))


def _concat(paths, out):
    offs = []
    n = 0
    with open(out, "w") as f:
        for p in paths:
            offs.append(n)
            for line in open(p):
                if line.strip():
                    f.write(line if line.endswith("\n") else line + "\n")
                    n += 1
    return offs, n


def judge(trace, offs, metas, traces):
    """TLC verdict on the concatenated trace -> (violations, pre-crash deviations, stats)."""
    res, r = ec.validate(trace, trace + ".result.json")
    viols = []
    pre = []
    for v in res["viol"]:
        if v["kind"].startswith(ec.HARNESS_KINDS_PREFIX):
            raise vp.ToolError(f"harness inconsistency {v} in {trace}")
        run = max(j for j, o in enumerate(offs) if o < v["at"])
        if not v["cr"]:
            pre.append({"run": run, "kind": v["kind"], "n": v["n"]})
            continue
        if v["kind"] not in REAL_KINDS:
            continue
        viols.append((run, v))
    return viols, pre, res, r


def real_crash_part(bd_backends, wd, seed, quick, plan=None, extra=None):
    """Returns (violations, coverage).  violations: [{"what": str, "replay": obj}] to be handed to
    vp.Verdict.violation; at most one per kill."""
    t0 = time.time()
    plan = plan or (QUICK_PLAN if quick else THOROUGH_PLAN)
    traces, metas = [], []

    def one(i):
        backend, strategy = plan[i]
        return _one_kill(bd_backends, wd, i, backend, strategy, seed * 1000 + i, extra)
    # kills are timing sensitive: run them one after the other (thorough: two at a time)
    with cf.ThreadPoolExecutor(max_workers=1 if quick else 2) as ex:
        for tr, m in ex.map(one, range(len(plan))):
            traces.append(tr)
            metas.append(m)
    t_kills = time.time() - t0
    allp = os.path.join(wd, "real_all.ndjson")
    offs, n_events = _concat(traces, allp)
    viols, pre, res, r = judge(allp, offs, metas, traces)

    out = []
    by_kind = {}
    seen_runs = set()
    for run, v in viols:
        by_kind[v["kind"]] = by_kind.get(v["kind"], 0) + 1
        if run in seen_runs:
            continue
        seen_runs.add(run)
        m = metas[run]
        ev = vp.read_ndjson(traces[run])
        at = v["at"] - offs[run]
        out.append({
            "what": f"real crash ({m['backend']}, kill: {m['trigger']}): {v['kind']} node={v['n']} got={v['got']} "
                    f"want={v['want']}; reopened engine shows session {m['recovered_session']} "
                    f"({m['cut']} of {m['of']} reported committed)",
            "replay": {"property": PID, "real_crash": True, "violation": v, "event_offset": at,
                       "run": {"backend": m["backend"], "strategy": m["strategy"], "seed": m["seed"],
                               "extra": extra or {}},
                       "meta": m,
                       # the recorded run itself (kill timing is not reproducible): replay re-validates it
                       # with TLC and then retries the same kill plan on the current tree
                       "trace": ev},
        })

    def rate(sel):
        ms = [m for m in metas if sel(m)]
        return {"kills": len(ms), "really_killed": sum(1 for m in ms if m["killed"]),
                "partial_durability": sum(1 for m in ms if m["partial_durability"]),
                "nothing_of_the_heavy_phase_durable": sum(1 for m in ms if m["recovered_session"] == m["warm"] - 1),
                "everything_reported_durable": sum(1 for m in ms if m["recovered_session"] >= 0
                                                   and m["lost_reported_sessions"] <= 0)}
    per = {}
    for b, s in sorted(set(plan)):
        per[f"{b}/{s}"] = rate(lambda m, b=b, s=s: m["backend"] == b and m["strategy"] == s)
    coverage = {
        "kills": len(plan),
        "kills_really_killed": sum(1 for m in metas if m["killed"]),
        "kills_with_partial_durability": sum(1 for m in metas if m["partial_durability"]),
        "kills_with_partial_durability_strategy_b": sum(1 for m in metas if m["partial_durability"]
                                                         and m["strategy"] == "b"),
        "kills_strategy_b": sum(1 for m in metas if m["strategy"] == "b"),
        "per_backend_and_strategy": per,
        "distinct_recovered_sessions": len({(m["seed"], m["recovered_session"]) for m in metas}),
        "events_validated": res["events"],
        "checked": res["stats"],
        "states": r["distinct"], "transitions": r["generated"],
        "violations_by_kind_after_crash": by_kind,
        "pre_crash_deviations_not_judged_here": pre[:5],
        "reopen_processes_died": sum(1 for m in metas if m["reopen_rc"] != 0),
        "samples": [{k: m[k] for k in ("backend", "strategy", "trigger", "kill_after_ms", "cut", "of",
                                       "recovered_session", "partial_durability", "db_bytes_at_kill")}
                    for m in metas[:6]],
        "wall_s_kills": round(t_kills, 1), "wall_s": round(time.time() - t0, 1),
        "rule": "one kill = warm-up child (clean shutdown), heavy child killed with SIGKILL, reopen in a third "
                "process; partial durability = the reopened engine shows the inputs of a session of the killed "
                "process (at least one durable) and at least one later session the child had reported committed "
                "is lost",
    }
    return out, coverage


def replay_real(rp, path="<replay>"):
    """Replay of a real-crash violation: (1) the recorded run is re-judged by TLC (deterministic, shows
    what was observed); (2) the same kill plan is retried on the current tree.  The verdict is (2): kill
    timing is not reproducible exactly, so up to `tries` kills are made."""
    wd = vp.clean_workdir(PID + "-replay-real")
    tr = os.path.join(wd, "recorded.ndjson")
    with open(tr, "w") as f:
        for e in rp["trace"]:
            f.write(json.dumps(e) + "\n")
    res, _ = ec.validate(tr, tr + ".result.json")
    bad = [v for v in res["viol"] if v["cr"] and v["kind"] in REAL_KINDS]
    print(f"recorded run: {len(bad)} violation(s) of {PID} after the crash event")
    for v in bad[:5]:
        print("  ", v)
    bd = vp.build(features="backends")
    run = rp["run"]
    live = 0
    tries = 10
    for i in range(tries):
        t, m = _one_kill(bd, wd, i, run["backend"], run["strategy"], run["seed"], run.get("extra"))
        r2, _ = ec.validate(t, t + ".result.json")
        b2 = [v for v in r2["viol"] if v["cr"] and v["kind"] in REAL_KINDS]
        if b2:
            live += 1
            print(f"  retry {i}: {b2[0]['kind']} node={b2[0]['n']} got={b2[0]['got']} want={b2[0]['want']} "
                  f"({m['trigger']})")
            if live >= 2:
                break
    if live:
        print(f"VIOLATION property={PID} replay={path}")
        print(f"  current tree: {live} kill(s) of the same plan violate {PID}")
        return 1
    print(f"replay {path}: not reproduced on the current tree in {tries} kills of the same plan "
          f"(kill timing is not deterministic; the recorded run above is what was observed)")
    return 0


def selftest_real(seed):
    """Anti-vacuity of the real leg: a recorded healthy run is accepted; the same run with (1) one
    recovered input replaced by the value of a different session and (2) one post-crash derived value
    made stale is rejected."""
    bd = vp.build(features="backends")
    wd = vp.clean_workdir(PID + "-selftest-real")
    tr, m = _one_kill(bd, wd, 0, "rocksdb", "b", seed * 1000 + 7)
    ev = vp.read_ndjson(tr)
    res, _ = ec.validate(tr, tr + ".result.json")
    base = [v for v in res["viol"] if v["cr"] and v["kind"] in REAL_KINDS]
    ok = not base
    # (1) torn batch: input 1 from another session than the others
    t1 = os.path.join(wd, "torn.ndjson")
    with open(t1, "w") as f:
        for e in ev:
            if e["e"] == "recovered":
                e = dict(e)
                e["inputs"] = [[n, (v + 5) % 127 if n == 1 else v] for n, v in e["inputs"]]
            f.write(json.dumps(e) + "\n")
    r1, _ = ec.validate(t1, t1 + ".result.json")
    k1 = {v["kind"] for v in r1["viol"] if v["cr"]}
    # (2) stale derived value after the crash
    t2 = os.path.join(wd, "stale.ndjson")
    done = False
    crashed = False
    with open(t2, "w") as f:
        for e in ev:
            crashed = crashed or e["e"] == "crash"
            if crashed and not done and e["e"] == "query" and e["n"] > m["k"]:
                e = dict(e)
                e["v"] = (e["v"] + 1) % 127
                done = True
            f.write(json.dumps(e) + "\n")
    r2, _ = ec.validate(t2, t2 + ".result.json")
    k2 = {v["kind"] for v in r2["viol"] if v["cr"]}
    print(f"selftest real leg: healthy run violations={len(base)}; torn recovered inputs -> {sorted(k1)}; "
          f"stale derived value -> {sorted(k2)}")
    ok = ok and "recovered_inputs_not_a_committed_state" in k1 and "query_value" in k2
    return ok
