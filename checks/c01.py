"""C01 - incremental answers equal a from-scratch evaluation."""
import engcommon


def run(tier, seed):
    return engcommon.engine_check("C01", tier, seed)


def replay(path):
    return engcommon.engine_replay("C01", path)


def selftest(seed):
    return engcommon.engine_selftest("C01", seed)
