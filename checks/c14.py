"""C14 - type and query identities are unique and stable across runs.

Pipeline (DESIGN.md section 5, C14):
  1. Design level (TLC, never a verdict on the code): specs/TypeId.tla maps
     type expressions into the free algebra of Leaf / SizeLeaf / Node
     (= from_unique_type_name / from_raw_parts / combine) exactly as
     stable_type_id/src/lib.rs and the derive fold them.  Invariants
     Injective, OrderSensitive, NestingSensitive, UniqueDecoding over a small
     hand-written signature (TypeIdMC) and over the wide real-side signature
     (tools/typeid_sig.json through TypeIdJson).  Mutation configurations must
     each produce a collision (anti-vacuity); TypeId_local.cfg is the scheme
     AS CODED for same-named types local to two functions and fails
     (KF_C14_LOCAL_TYPES).
  2. Spec -> implementation: the universe TLC printed (term + tree) is
     compiled into harness/src/bin/typeid_terms.rs (tools/gen_typeid_terms.py);
     the binary prints, per term, the id the code under test gives the Rust
     type and the tree evaluated with the real H / combine.
  3. Implementation -> spec: three processes (one with another cwd, an empty
     environment and ASLR switched off) record the type ids; typeid_query
     records QueryIDs as the engine computes them, the store cells the engine
     wrote, the answers of one shared engine and of an engine REOPENED in
     another process over the store the first one wrote.  TLC validates the
     concatenated trace with specs/TypeIdTrace.tla.
  4. Verdicts are property level only: *_collision, *_unstable,
     value_of_other_query.  id != scheme is model drift.  unknown_term /
     query_id_not_engine_address / a stale built-in name table are tool errors.
"""
import json
import os
import random
import re
import shutil
import sys
import time
from concurrent.futures import ThreadPoolExecutor

import vp

sys.path.insert(0, os.path.join(vp.ROOT, "tools"))
import gen_typeid_terms as gen  # noqa: E402

PID = "C14"
TERMS_RS = os.path.join(vp.HARNESS, "src", "bin", "typeid_terms.rs")

LOCAL_KNOWN = [{
    "property": "C14", "id": "KF_C14_LOCAL_TYPES", "status": "known",
    "what": "two distinct types of the same name declared in two function bodies (or blocks) of one module get the same "
            "StableTypeID: #[derive(Identifiable)] names a type \"pkg@version::\" module_path!() \"::\" Name and module_path!() "
            "does not contain the enclosing function; as query types they get the same QueryID, share executor registration, "
            "store slot and cached value (the engine answers one query with the value computed for the other)",
    "witness": "harness/src/typeid.rs: lq::scope_a::LocalQ(1) and lq::scope_b::LocalQ(1) (and the bases LocalA / LocalB of the type "
               "universe); `typeid_query --local 1`: register both executors in one engine, query scope_a::LocalQ(1) then "
               "scope_b::LocalQ(1): the second answer is 'run1|vh::typeid::lq::scope_a::LocalQ|LocalQ(1)'",
    "signature": {"kinds": ["type_id_collision", "query_id_collision", "store_slot_collision", "value_of_other_query"],
                  "rule": "the two owners are equal after replacing scope_a/scope_b by scope_x and LocalA/LocalB by LocalX"},
}]

# (cfg, invariant that must be violated, what it models)
MUTATIONS = [
    ("ac", "Injective", "(a) combine associative-commutative (xor/add style)"),
    ("comm", "Injective", "(a') combine merely commutative: (A,(B,C)) = (A,B,(C,)) through the shared tuple name"),
    ("forget", "Injective", "(b) Option<T> forgets .combine(T::STABLE_TYPE_ID)"),
    ("forget2", "Injective", "(b') Result<T,E> forgets E"),
    ("samename", "Injective", "(c) two constructors share one name string"),
    ("nomodule", "Injective", "(c') the derive drops module_path!()"),
    ("flatten", "Injective", "(d) nested tuples flattened: ((A,B),C) = (A,B,C)"),
    ("nosize", "Injective", "(e) [T; N] ignores N"),
    ("local", "Injective", "AS CODED: same-named types local to two functions share one leaf (KF_C14_LOCAL_TYPES)"),
]
ACTIONS = ["Pick", "AddBase", "AddStd", "AddTuple", "AddArray", "AddDerived"]
TRACE_ACTIONS = ["Admit", "AdmitDone", "ScanIds", "ScanIdsDone", "ScanOwners", "Finish"]
TOOL_KINDS = {"unknown_term", "query_id_not_engine_address"}


# ------------------------------------------------------------------ building

def build():
    try:
        return vp.build()
    except vp.ToolError:
        # a binary of another check does not compile at the moment: build only ours
        for b in ("typeid_terms", "typeid_query"):
            p = vp.run(["cargo", "build", "--offline", "--bin", b], cwd=vp.HARNESS, timeout=3600, check=False)
            if p.returncode != 0:
                raise vp.ToolError("harness build failed:\n" + (p.stdout or "")[-6000:])
        return vp.bindir()


# ------------------------------------------------------------------ TLC side

def ce_of(out):
    """cur / collides_with of the last state of a counterexample (ALIAS Shown)."""
    cur = re.findall(r'/\\ cur = "([^"]*)"', out)
    coll = re.findall(r"/\\ collides_with = (\{[^}]*\})", out)
    return {"term": cur[-1] if cur else "", "collides_with": re.findall(r'"([^"]*)"', coll[-1])[:3] if coll else []}


def design_check(wd):
    r = vp.tlc("TypeIdMC", "TypeId_small.cfg", workers=4, timeout=600, coverage=True,
               metadir=os.path.join(wd, "meta-small"))
    if not r["ok"] or r["invariant_violated"]:
        raise vp.ToolError("TypeId.tla (scheme as coded, small signature) does not pass in the model - design-level "
                           "counterexample, not a verdict on the code:\n" + r["out"][-3000:])
    cov = vp.tlc_coverage(r["out"])
    dead = [a for a in ACTIONS if cov.get(a, (0, 0))[1] == 0]
    if dead:
        raise vp.ToolError(f"TypeId.tla: actions never taken: {dead}")
    st = [json.loads(json.loads(l)) for l in r["out"].splitlines() if l.startswith('"{\\"universe')]
    return {"cfg": "TypeId_small.cfg", "states": r["distinct"], "transitions": r["generated"], "depth": r["depth"],
            "invariants": ["TypeOK", "Injective", "OrderSensitive", "NestingSensitive", "UniqueDecoding"],
            "actions": {a: cov[a][1] for a in ACTIONS}, "stats": st[-1] if st else {}}


def anti_vacuity(wd):
    def one(m):
        cfg, inv, what = m
        r = vp.tlc("TypeIdMC", f"TypeId_{cfg}.cfg", workers=1, timeout=600, check_ok=False,
                   metadir=os.path.join(wd, "meta-mut-" + cfg))
        return m, r
    res = {}
    with ThreadPoolExecutor(max_workers=4) as ex:
        for (cfg, inv, what), r in ex.map(one, MUTATIONS):
            if inv not in r["invariant_violated"]:
                raise vp.ToolError(f"TypeId_{cfg}.cfg: expected TLC to find a violation of {inv} ({what}):\n" + r["out"][-2000:])
            res[cfg] = {"what": what, "violated": inv, "counterexample": ce_of(r["out"])}
    return res


def write_sig(path, tier, only=None, drop=()):
    with open(path, "w") as f:
        json.dump(gen.tlc_sig(tier, only=only, drop=drop), f)
    return path


def generate(tier, wd):
    """TLC over the real-side signature: invariants on everything but the `local`
    profile, which is the known as-coded defect (must fail in the model, too)."""
    t0 = time.time()
    sig_main = write_sig(os.path.join(wd, f"sig_{tier}_main.json"), tier, drop=("local",))
    r = vp.tlc("TypeIdJson", "TypeId_json.cfg", workers=4, timeout=1500, env={"C14_SIG": sig_main},
               metadir=os.path.join(wd, "meta-gen-" + tier))
    if not r["ok"] or r["invariant_violated"]:
        raise vp.ToolError("TypeId.tla over tools/typeid_sig.json: the scheme as coded does not pass in the model "
                           "(design-level counterexample, not a verdict on the code): " + json.dumps(ce_of(r["out"]))
                           + "\n" + r["out"][-1500:])
    terms = gen.read_tlc_terms(r["out"], is_text=True)
    st = [json.loads(json.loads(l)) for l in r["out"].splitlines() if l.startswith('"{\\"universe')]
    info = {"tier": tier, "states": r["distinct"], "transitions": r["generated"], "terms": len(terms),
            "stats": st[-1] if st else {}, "wall_s": round(time.time() - t0, 1)}
    if not st or st[-1]["universe"] != len(terms):
        raise vp.ToolError(f"generator: printed {len(terms)} terms, universe {st[-1] if st else '?'}")
    # the as-coded defect, on the real signature
    sig_local = write_sig(os.path.join(wd, f"sig_{tier}_local.json"), tier, only=("local",))
    rl = vp.tlc("TypeIdJson", "TypeId_json.cfg", workers=1, timeout=600, env={"C14_SIG": sig_local}, check_ok=False,
                metadir=os.path.join(wd, "meta-genl-" + tier))
    info["local_profile_model"] = {"violated": rl["invariant_violated"], "counterexample": ce_of(rl["out"])}
    rg = vp.tlc("TypeIdJson", "TypeId_json_gen.cfg", workers=1, timeout=600, env={"C14_SIG": sig_local},
                metadir=os.path.join(wd, "meta-genl2-" + tier))
    local_terms = gen.read_tlc_terms(rg["out"], is_text=True)
    if not local_terms:
        raise vp.ToolError("generator: no terms for the `local` profile")
    info["local_terms"] = len(local_terms)
    info["states"] += rg["distinct"]
    info["transitions"] += rg["generated"]
    terms.update(local_terms)
    sig_all = write_sig(os.path.join(wd, f"sig_{tier}_all.json"), tier)
    return terms, info, sig_all


def confusable(terms):
    """Terms made of the same multiset of names and sizes as another term: the
    cases where only order / nesting distinguishes the identifiers."""
    by = {}
    for t, o in terms.items():
        by.setdefault(gen.leaves_of_tree(o["tree"]), []).append(t)
    classes = [sorted(v) for v in by.values() if len(v) > 1]
    return sum(len(c) for c in classes), sum(len(c) * (len(c) - 1) // 2 for c in classes), classes


# -------------------------------------------------------------- recording

def perturbed(seed, n):
    """Environment of run n >= 3: other cwd, emptied environment with junk
    variables, address space randomisation off."""
    rnd = random.Random(seed * 31 + n)
    env = {"PATH": "/usr/bin:/bin", "HOME": "/nonexistent", "LANG": rnd.choice(["C", "tr_TR.UTF-8", "ja_JP.UTF-8"]),
           "TZ": rnd.choice(["UTC", "Asia/Kolkata", "America/St_Johns"]),
           "RUST_BACKTRACE": "0", "VH_JUNK_" + str(rnd.randrange(10 ** 6)): "x" * rnd.randrange(1, 4000)}
    cwd = rnd.choice(["/tmp", "/", "/usr/lib"])
    prefix = ["setarch", "x86_64", "-R"] if shutil.which("setarch") else []
    return env, cwd, prefix


def run_bin(cmd, env=None, cwd=None, prefix=None):
    import subprocess
    full = (prefix or []) + cmd
    try:
        p = subprocess.run(full, cwd=cwd, env=env, timeout=600, stdout=subprocess.PIPE, stderr=subprocess.STDOUT, text=True)
    except subprocess.TimeoutExpired as e:
        raise vp.ToolError(f"timeout: {' '.join(full)[:200]}") from e
    if p.returncode != 0 and prefix:
        # setarch not permitted in this sandbox: run without it
        return run_bin(cmd, env=env, cwd=cwd, prefix=None)
    if p.returncode != 0:
        raise vp.SubjectCrash(full, p.returncode, (p.stdout or "")[-6000:])
    return p


def record(bindir, wd, seed, tag="rec", with_local=True, nruns=3):
    """Runs the two binaries in nruns processes each; returns (trace path, info)."""
    files, procs = [], []
    hseeds = [0, (seed * 2654435761 + 12345) % (1 << 63)]
    for n in range(1, nruns + 1):
        env, cwd, prefix = (None, None, None) if n < 3 else perturbed(seed, n)
        out = os.path.join(wd, f"{tag}.types.{n}.ndjson")
        run_bin([os.path.join(bindir, "typeid_terms"), "--out", out, "--run", str(n)], env=env, cwd=cwd, prefix=prefix)
        files.append(out)
        for hi, hs in enumerate(hseeds):
            out = os.path.join(wd, f"{tag}.query.{n}.h{hi}.ndjson")
            store = os.path.join(wd, f"{tag}.store.h{hi}.json")
            cmd = [os.path.join(bindir, "typeid_query"), "--out", out, "--run", str(n), "--hseed", str(hs),
                   "--local", "1" if with_local else "0"]
            cmd += ["--store-out", store] if n == 1 else ["--store-in", store]
            run_bin(cmd, env=env, cwd=cwd, prefix=prefix)
            files.append(out)
        procs.append({"run": n, "cwd": cwd or os.getcwd(), "env": "inherited" if env is None else f"emptied + {len(env)} vars",
                      "aslr": "off (setarch -R)" if prefix else "on"})
    trace = os.path.join(wd, f"{tag}.trace.ndjson")
    pids = set()
    with open(trace, "w") as f:
        for p in files:
            txt = open(p).read()
            f.write(txt)
            last = json.loads(txt.strip().splitlines()[-1])
            if last.get("k") != "end":
                raise vp.ToolError(f"{p}: no end record (crashed?)")
            pids.add(last["pid"])
    if len(pids) != len(files):
        raise vp.ToolError("recording: process ids are not pairwise different")
    return trace, {"files": len(files), "processes": procs, "hasher_seeds": hseeds}


def validate(trace, sig, wd, tag="val", coverage=False):
    out = os.path.join(wd, f"{tag}.result.json")
    if os.path.exists(out):
        os.remove(out)
    r = vp.tlc("TypeIdTrace", "TypeIdTrace.cfg", workers=1, timeout=1500, coverage=coverage,
               env={"C14_SIG": sig, "TRACE": trace, "OUT": out}, metadir=os.path.join(wd, "meta-" + tag))
    if not r["ok"] or not os.path.exists(out):
        raise vp.ToolError("TypeIdTrace: trace not consumed:\n" + r["out"][-3000:])
    res = json.load(open(out))
    for k in ("viol", "drift"):
        if isinstance(res.get(k), dict):  # empty sequence
            res[k] = []
    res["tlc"] = {"states": r["distinct"], "transitions": r["generated"], "wall_s": round(r["wall_s"], 1)}
    if coverage:
        cov = vp.tlc_coverage(r["out"])
        dead = [a for a in TRACE_ACTIONS if cov.get(a, (0, 0))[1] == 0]
        if dead:
            raise vp.ToolError(f"TypeIdTrace: actions never taken: {dead}")
        res["tlc"]["actions"] = {a: cov[a][1] for a in TRACE_ACTIONS}
    return res


# ----------------------------------------------------------------- judging

def norm_local(s):
    return s.replace("scope_a", "scope_x").replace("scope_b", "scope_x").replace("LocalA", "LocalX").replace("LocalB", "LocalX")


def is_local_alias(v):
    if v["kind"] not in LOCAL_KNOWN[0]["signature"]["kinds"]:
        return False
    a, b = v["a"], v["b"]
    return a != b and norm_local(a) == norm_local(b) and ("scope_" in a or "Local" in a)


def known_entries(verdict):
    ids = {k["id"]: k for k in LOCAL_KNOWN}
    for k in vp.load_known():
        if k.get("property") == PID:
            ids[k["id"]] = k
    return {i: k for i, k in ids.items() if k.get("status") == "known"}


def records_of(trace, owners):
    out = []
    for line in open(trace):
        r = json.loads(line)
        o = r.get("term") if r.get("k") == "type" else f"{r.get('ty')} {r.get('key')}"
        if o in owners:
            r.pop("slots", None)
            out.append(r)
    return out[:24]


def judge(res, trace, verdict, seed, tier):
    """Returns (tool_errors, n_known)."""
    known = known_entries(verdict)
    tool, seen = [], set()
    for v in res["viol"]:
        if v["kind"] in TOOL_KINDS:
            tool.append(v)
            continue
        if "KF_C14_LOCAL_TYPES" in known and is_local_alias(v):
            verdict.known_finding("KF_C14_LOCAL_TYPES", known["KF_C14_LOCAL_TYPES"]["what"][:160])
            continue
        key = (v["kind"], v["a"], v["b"])
        if key in seen:
            continue
        seen.add(key)
        if len(seen) > 25:  # the first 25 get replay files, the rest is only counted
            verdict.violations.append({"what": f"{v['kind']}: {v['a']} / {v['b']}", "replay": verdict.violations[-1]["replay"]})
            continue
        owners = {v["a"], v["b"]} if v["kind"].endswith("collision") or v["kind"] == "value_of_other_query" else {v["a"]}
        vp.log(f"[C14] {v['kind']}: {v['a']} / {v['b']} ({v['id']})")
        verdict.violation(f"{v['kind']}: {v['a']} / {v['b']}", {
            "property": PID, "seed": seed, "tier": tier, "kind": v["kind"], "a": v["a"], "b": v["b"], "id": v["id"],
            "owners": sorted(owners), "records": records_of(trace, owners),
            "how": "./check C14 --replay <this file> re-records the identities on the current tree and validates the records "
                   "of these owners with specs/TypeIdTrace.tla"})
    return tool


def samples_of(terms, trace, classes, res):
    s = []
    ids = {}
    for line in open(trace):
        r = json.loads(line)
        if r["k"] == "type" and r["run"] == 1:
            ids[r["term"]] = r
    for c in classes[:400:100] + classes[-2:]:
        s.append({"same_names_different_structure": [{"term": t, "rust": ids[t]["rust"], "tree": terms[t]["tree"],
                                                      "id": ids[t]["id"]} for t in c[:4] if t in ids]})
    for line in open(trace):
        r = json.loads(line)
        if r["k"] == "query" and r["run"] == 1 and r["key"].startswith(("QVecs", "QPair(''", "GQ(1")) and len(s) < 16:
            s.append({"query": r["ty"], "key": r["key"], "tid": r["tid"], "hash": r["hash"], "store_cells": r["nslots"]})
    return s


def finish(tier, seed, t0, verdict, design, av, ginfo, rinfo, res, terms, trace, name_check, tool):
    conf_terms, conf_pairs, classes = confusable(terms)
    rc = verdict.finish()
    cov = {
        "states": design["states"] + ginfo["states"] + res["tlc"]["states"],
        "transitions": design["transitions"] + ginfo["transitions"] + res["tlc"]["transitions"],
        "traces_validated_against_impl": rinfo["files"],
        "samples": samples_of(terms, trace, classes, res),
        "exhaustive": True,
        "type_universe": {"terms": len(terms), "generated_by": "TLC (specs/TypeId.tla, signature tools/typeid_sig.json)",
                          "profiles": [p["name"] for p in gen.load_sig()["profiles"][tier]],
                          "terms_differing_from_another_only_in_order_or_nesting": conf_terms,
                          "such_pairs": conf_pairs, "model": ginfo},
        "design_model_small": design,
        "anti_vacuity": av,
        "recording": rinfo,
        "trace_validation": {k: res[k] for k in ("records", "facts", "universe", "recorded_terms", "stats", "tlc")},
        "type_records": res["stats"]["types"], "query_records": res["stats"]["queries"],
        "answers_checked": res["stats"]["values"],
        "answers_from_a_store_written_by_another_process": res["stats"]["reopened"],
        "of_which_served_without_re_execution": res["stats"]["reused"],
        "model_drift": res["ndrift"], "model_drift_first": res["drift"][:3],
        "name_table": name_check,
        "tool_level_mismatches": tool[:3],
        "known_findings": sorted(verdict.known_hits),
        "violations_found": [{"kind": v["what"]} for v in verdict.violations[:10]],
    }
    vp.write_evidence(PID, tier, seed, "model_checking", cov, time.time() - t0, len(verdict.violations), assumptions=[
        "from_unique_type_name and combine are 128-bit functions: the model treats them as the free algebra; their "
        "collision freedom is examined only by evaluating the real functions on the generated universe (pairwise distinct ids)",
        "lifetimes are erased (&'a T and &'static T are one type for the scheme); cargo features smallvec / bitvec are off",
        "cross-version stability is not claimed: the derive mixes CARGO_PKG_VERSION into the name by design",
        "all processes run the same binary on this target (x86_64 little endian); cross-compilation targets are not examined",
        "QueryID of the engine is observed through the store cells the engine writes (MemKv) and Engine::verif_dump (cfg qbice_verif)",
    ])
    vp.log(f"[C14] terms={len(terms)} records={res['records']} drift={res['ndrift']} known={sorted(verdict.known_hits)} "
           f"violations={len(verdict.violations)} tool={len(tool)} rc={rc}")
    if rc == 0 and tool:
        raise vp.ToolError(f"binding broken (not a verdict): {json.dumps(tool[:3])[:1500]}")
    if rc == 0 and (name_check["in_table_not_in_lib"] or name_check["in_lib_not_in_table"]):
        raise vp.ToolError(f"tools/typeid_sig.json is out of date against stable_type_id/src/lib.rs: {name_check}")
    return rc


def install_universe(terms):
    changed = gen.write_if_changed(TERMS_RS, gen.gen_rust(terms))
    if changed:
        vp.log(f"[C14] regenerated {TERMS_RS} ({len(terms)} terms)")
        vp._built.clear()
    return changed


def run(tier, seed):
    t0 = time.time()
    wd = vp.clean_workdir(PID)
    verdict = vp.Verdict(PID)
    a, b = gen.check_names()
    name_check = {"in_table_not_in_lib": a, "in_lib_not_in_table": b}
    design = design_check(wd)
    av = anti_vacuity(wd)
    qterms, qinfo, qsig = generate("quick", wd)
    terms, ginfo, sig = (qterms, qinfo, qsig) if tier == "quick" else generate("thorough", wd)
    try:
        install_universe(terms)
        bindir = build()
        trace, rinfo = record(bindir, wd, seed)
        res = validate(trace, sig, wd, coverage=True)
        tool = judge(res, trace, verdict, seed, tier)
        if res["recorded_terms"] != len(terms) and not tool:
            raise vp.ToolError(f"recorded {res['recorded_terms']} terms, universe has {len(terms)}")
        return finish(tier, seed, t0, verdict, design, av, ginfo, rinfo, res, terms, trace, name_check, tool)
    finally:
        if tier != "quick":
            # leave the committed (quick) universe in the tree
            install_universe(qterms)


def replay(path):
    rp = json.load(open(path))
    wd = vp.workdir(PID, "replay")
    tier = rp.get("tier", "quick")
    terms, _ginfo, sig = generate(tier, wd)
    try:
        install_universe(terms)
        bindir = build()
        trace, _ = record(bindir, wd, rp.get("seed", 1), tag="replay")
    finally:
        if tier != "quick":
            install_universe(generate("quick", wd)[0])
    owners = set(rp.get("owners", []))
    sub = os.path.join(wd, "replay.sub.ndjson")
    with open(sub, "w") as f:
        for line in open(trace):
            r = json.loads(line)
            o = r.get("term") if r.get("k") == "type" else f"{r.get('ty')} {r.get('key')}"
            if o in owners or r.get("k") == "end":
                f.write(line)
    res = validate(sub, sig, wd, tag="replay")
    hits = [v for v in res["viol"] if v["kind"] == rp.get("kind")]
    for v in hits:
        print(f"REPRODUCED {v['kind']}: {v['a']} / {v['b']} ({v['id']})")
    if hits:
        print(f"VIOLATION property={PID} replay={path}")
        return 1
    print("not reproduced on the current tree")
    return 0


def selftest(seed):
    """The binding must reject corrupted records, accept drift as drift, and the
    model must reject every mutation."""
    wd = vp.clean_workdir(PID + "-selftest")
    rnd = random.Random(seed)
    ok = True
    av = anti_vacuity(wd)
    for cfg, r in av.items():
        print(f"selftest M: TypeId_{cfg}.cfg -> {r['violated']} violated: {r['counterexample']['term']} collides with "
              f"{r['counterexample']['collides_with'][:2]}   [{r['what']}]")
    terms, _ginfo, sig = generate("quick", wd)
    install_universe(terms)
    bindir = build()
    trace, rinfo = record(bindir, wd, seed, tag="self")
    res = validate(trace, sig, wd, tag="self0")
    other = [v for v in res["viol"] if not is_local_alias(v)]
    print(f"selftest 0: accepted trace: {res['records']} records of {rinfo['files']} processes, drift {res['ndrift']}, "
          f"violations besides the known local-type aliasing: {len(other)}")
    ok &= not other and res["ndrift"] == 0
    recs = [json.loads(l) for l in open(trace)]
    types = [i for i, r in enumerate(recs) if r["k"] == "type" and "Local" not in r["term"]]
    queries = [i for i, r in enumerate(recs) if r["k"] == "query" and "LocalQ" not in r["ty"]]
    values = [i for i, r in enumerate(recs) if r["k"] == "value" and "LocalQ" not in r["ty"]]

    def run_mut(tag, mutate):
        rs = [dict(r) for r in recs]
        what = mutate(rs)
        p = os.path.join(wd, f"self.{tag}.ndjson")
        with open(p, "w") as f:
            for r in rs:
                f.write(json.dumps(r) + "\n")
        out = validate(p, sig, wd, tag="self-" + tag)
        return what, [v for v in out["viol"] if not is_local_alias(v)], out

    def share_id(rs):
        a, b = rnd.sample([i for i in types if rs[i]["run"] == 1], 2)
        for r in rs:
            if r["k"] == "type" and r["term"] == rs[a]["term"]:
                r["id"] = rs[b]["id"]
        return rs[a]["term"], rs[b]["term"]
    (a, b), vs, out = run_mut("share", share_id)
    hit = [v for v in vs if v["kind"] == "type_id_collision" and {v["a"], v["b"]} == {a, b}]
    print(f"selftest 1: id of {a} replaced by the id of {b} (all runs) -> {sorted({v['kind'] for v in vs})}, drift {out['ndrift']}")
    ok &= len(hit) == 1 and len(vs) == 1

    def flip_run2(rs):
        i = rnd.choice([i for i in types if rs[i]["run"] == 2])
        h = rs[i]["id"]
        rs[i]["id"] = ("0" if h[0] != "0" else "1") + h[1:]
        rs[i]["scheme"] = rs[i]["id"]
        return rs[i]["term"]
    t, vs, out = run_mut("flip", flip_run2)
    print(f"selftest 2: id of {t} altered in the record of process 2 only -> {[(v['kind'], v['a']) for v in vs]}")
    ok &= len(vs) == 1 and vs[0]["kind"] == "type_id_unstable" and vs[0]["a"] == t

    def drift_only(rs):
        i = rnd.choice(types)
        for r in rs:
            if r["k"] == "type" and r["term"] == rs[i]["term"]:
                r["scheme"] = "0" * 32
        return rs[i]["term"]
    t, vs, out = run_mut("drift", drift_only)
    print(f"selftest 3: scheme value of {t} altered (the code would use another, still injective scheme) -> "
          f"violations {len(vs)}, drift {out['ndrift']} (drift is never a verdict)")
    ok &= not vs and out["ndrift"] == rinfo["files"] // 3

    def unknown(rs):
        i = rnd.choice(types)
        rs[i]["term"] = "Bogus<" + rs[i]["term"] + ">"
        return rs[i]["term"]
    t, vs, out = run_mut("unknown", unknown)
    print(f"selftest 4: a record for a term the specification does not generate ({t}) -> {sorted({v['kind'] for v in vs})}")
    ok &= any(v["kind"] == "unknown_term" for v in vs)

    def q_share(rs):
        a, b = rnd.sample([i for i in queries if rs[i]["run"] == 1 and rs[i]["hseed"] == 0], 2)
        for r in rs:
            if r["k"] == "query" and (r["ty"], r["key"]) == (rs[a]["ty"], rs[a]["key"]):
                for k in ("tid", "hash", "etid", "ehash"):
                    r[k] = rs[b][k]
        return f"{rs[a]['ty']} {rs[a]['key']}", f"{rs[b]['ty']} {rs[b]['key']}"
    (a, b), vs, out = run_mut("qshare", q_share)
    print(f"selftest 5: QueryID of [{a}] replaced by the one of [{b}] -> {sorted({v['kind'] for v in vs})}")
    ok &= [v["kind"] for v in vs] == ["query_id_collision"] and {vs[0]["a"], vs[0]["b"]} == {a, b}

    def q_unstable(rs):
        i = rnd.choice([i for i in queries if rs[i]["run"] == 3])
        h = rs[i]["hash"]
        rs[i]["hash"] = rs[i]["ehash"] = ("0" if h[0] != "0" else "1") + h[1:]
        return f"{rs[i]['ty']} {rs[i]['key']}"
    t, vs, out = run_mut("qflip", q_unstable)
    print(f"selftest 6: key hash of [{t}] altered in process 3 -> {[(v['kind'], v['a']) for v in vs]}")
    ok &= len(vs) == 1 and vs[0]["kind"] == "query_id_unstable" and vs[0]["a"] == t

    def slot_move(rs):
        i = rnd.choice([i for i in queries if rs[i]["run"] == 2])
        rs[i]["slots"] = rs[i]["slots"].replace("W", "X", 1)
        return f"{rs[i]['ty']} {rs[i]['key']}"
    t, vs, out = run_mut("slot", slot_move)
    print(f"selftest 7: store cells of [{t}] differ in process 2 -> {[(v['kind'], v['a']) for v in vs]}")
    ok &= len(vs) == 1 and vs[0]["kind"] == "store_slot_unstable" and vs[0]["a"] == t

    def wrong_value(rs):
        i, j = rnd.sample([i for i in values if rs[i]["phase"] == "reopen"], 2)
        rs[i]["got_ty"], rs[i]["got_key"] = rs[j]["ty"], rs[j]["key"]
        return f"{rs[i]['ty']} {rs[i]['key']}"
    t, vs, out = run_mut("value", wrong_value)
    print(f"selftest 8: reopened engine answers [{t}] with the value of another query -> {[(v['kind'], v['a']) for v in vs]}")
    ok &= len(vs) == 1 and vs[0]["kind"] == "value_of_other_query" and vs[0]["a"] == t

    def engine_addr(rs):
        i = rnd.choice(queries)
        rs[i]["ehash"] = "0" * 32
        return f"{rs[i]['ty']} {rs[i]['key']}"
    t, vs, out = run_mut("addr", engine_addr)
    print(f"selftest 9: the engine's store address of [{t}] differs from the harness-computed QueryID -> "
          f"{[v['kind'] for v in vs]} (tool error class)")
    ok &= [v["kind"] for v in vs] == ["query_id_not_engine_address"]

    # the known finding is found by the same machinery and only matched by its signature
    kf = [v for v in res["viol"] if is_local_alias(v)]
    print(f"selftest K: local-type aliasing found on the real code: {sorted({v['kind'] for v in kf})} ({len(kf)} records), e.g. "
          f"{kf[0]['a']} / {kf[0]['b']}" if kf else "selftest K: local-type aliasing NOT found")
    ok &= bool(kf)
    fake = {"kind": "type_id_collision", "a": "Option<u8>", "b": "Option<u16>", "id": "x"}
    ok &= not is_local_alias(fake)
    print("SELFTEST", "OK" if ok else "FAILED")
    return 0 if ok else 2
