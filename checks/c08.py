"""C08 - a crash loses recent work but never yields wrong answers.

Fault enumeration: a history is run on the real engine over DbBacked<MemKv>
(all groupings of logical batches into physical commits); MemKv keeps the
ordered log of physical commits.  For every boundary between physical commits
(all of them up to 24 per run, else a seeded sample always containing the
first and last ones) a fresh store is built from that prefix, a new engine is
opened on it and interrogated; then one more session and a full sweep of
queries follow.  TLC (EngineObsTrace: Crash / Recovered actions) decides:
the engine opens, the inputs it shows are those of some committed session,
every value equals the from-scratch value for those inputs."""
import json
import os
import time

import engcommon as ec
import vp

PID = "C08"


def run(tier, seed):
    t0 = time.time()
    bd = vp.build()
    wd = vp.clean_workdir(PID)
    verdict = vp.Verdict(PID)
    known = ec.known_ids_for(PID)
    quick = tier != "thorough"
    traces = []
    n_seeds, runs, steps = (2, 50, 25) if quick else (12, 120, 40)
    for nofw in (1, 0):
        for i in range(n_seeds):
            s = seed * 1000 + i + (300 if nofw else 0)
            tr = os.path.join(wd, f"crash_{'nm' if nofw else 'fw'}_{i}.ndjson")
            ec.eng_persist(bd, tr, seed=s, runs=runs if nofw else runs // 2, steps=steps, crash=1,
                           nofw=nofw, cases=tr + ".cases")
            traces.append({"trace": tr, "cases": tr + ".cases", "nofw": nofw,
                           "origin": f"crash cuts seed={s} {'normal-only' if nofw else 'with firewalls'}"})

    # programs with firewalls and projections in the sweep regime (a witness per firewall is queried
    # first after every commit): the pre-crash phase is free of known findings, so the value verdicts
    # after the crash count for these programs too
    for i in range(n_seeds):
        s = seed * 1000 + i + 600
        tr = os.path.join(wd, f"crash_sweep_{i}.ndjson")
        ec.eng_persist(bd, tr, seed=s, runs=runs // 2, steps=steps, crash=1, nofw=0, sweep=1, cases=tr + ".cases")
        traces.append({"trace": tr, "cases": tr + ".cases", "nofw": 0,
                       "origin": f"crash cuts seed={s} with firewalls, sweep regime"})

    # validate; judge only what happens after a crash event (cr = TRUE)
    import concurrent.futures as cf
    results = []

    def one(t):
        res, r = ec.validate(t["trace"], t["trace"] + ".result.json")
        return t, res, r
    with cf.ThreadPoolExecutor(max_workers=6) as ex:
        results = list(ex.map(one, traces))

    states = transitions = events = cuts = 0
    by_kind = {}
    contaminated = 0
    candidates = []
    stats = {}
    for t, res, r in results:
        states += r["distinct"]; transitions += r["generated"]; events += res["events"]
        for k, v in res["stats"].items():
            stats[k] = stats.get(k, 0) + v
        evs = vp.read_ndjson(t["trace"])
        cuts += sum(1 for e in evs if e["e"] == "crash")
        # runs whose pre-crash phase shows a known-finding violation: their persisted
        # state may legitimately contain the stale values of KF_TFC / KF_PBP
        run_of = []
        k = 0
        for e in evs:
            run_of.append(k)
            if e["e"] == "reset":
                k += 1
        kf_runs = {run_of[v["at"] - 1] for v in res["viol"] if not v["cr"]}
        for v in res["viol"]:
            if not v["cr"]:
                continue
            if v["kind"].startswith("harness_"):
                raise vp.ToolError(f"harness inconsistency {v}")
            if v["kind"] not in ec.KINDS[PID] and v["kind"] not in ec.KINDS["C03"]:
                continue
            if v["kind"] in ec.KINDS["C03"]:
                continue  # after a crash every run is justified (recomputing is allowed)
            key = v["kind"]
            by_kind[key] = by_kind.get(key, 0) + 1
            value_kind = v["kind"] in ("query_value", "read_value")
            if value_kind and run_of[v["at"] - 1] in kf_runs:
                contaminated += 1
                continue
            candidates.append((t, v))
    summary = {"candidates": candidates}
    baseline_same = ec.finish_candidates(PID, verdict, summary, wd, "eng_persist", [])
    # real-process leg: kill -9 of a child running the engine over the real RocksDB / Fjall backends
    import c08real
    bdb = vp.build(features="backends")
    rviol, rcov = c08real.real_crash_part(bdb, wd, seed, quick)
    for v in rviol:
        verdict.violation(v["what"], v["replay"])
    rc = verdict.finish()
    sample = []
    for e in vp.read_ndjson(traces[0]["trace"]):
        if e["e"] in ("crash", "recovered"):
            sample.append(e)
        if len(sample) >= 8:
            break
    coverage = {
        "evaluations": cuts,
        "distinct_nontrivial": cuts,
        "rule": "one evaluation = one (history, cut) pair: an engine reopened on the first k physical "
                "commits of the run's MemKv log; all cuts are distinct prefixes; a cut is non-trivial "
                "by construction (the engine must open and answer every node)",
        "samples": sample,
        "states": states, "transitions": transitions,
        "events_validated": events,
        "checked": stats,
        "violations_by_kind_after_crash": by_kind,
        "post_crash_value_deviations_in_runs_with_known_finding_history": contaminated,
        "unsignatured_but_baseline_identical": baseline_same,
        "groupings": ["one", "up to 3", "all", "seeded 1..4"],
        "real_process_crash": rcov,
    }
    vp.write_evidence(PID, tier, seed, "fault_enumeration", coverage, time.time() - t0,
                      len(verdict.violations),
                      assumptions=["simulated leg: crash = loss of a suffix of MemKv's physical commits, each commit "
                                   "atomic (the KvDatabase contract); real leg: SIGKILL of a process running over "
                                   "RocksDB / Fjall (the OS page cache survives: not a power-loss test)",
                                   "the first phase runs with the commit gate closed, so what is in each "
                                   "physical commit does not depend on thread timing",
                                   "value checks after a crash are verdicts only for runs whose pre-crash "
                                   "phase is free of known-finding deviations (normal-only programs always are)"])
    return rc


def replay(path):
    rp = json.load(open(path))
    if rp.get("real_crash"):
        import c08real
        return c08real.replay_real(rp, path)
    bd = vp.build()
    wd = vp.workdir(PID, "replay")
    cin = os.path.join(wd, "case.ndjson")
    with open(cin, "w") as f:
        f.write(json.dumps(rp["case"]) + "\n")
    tr = os.path.join(wd, "trace.ndjson")
    ec.eng_persist(bd, tr, mode="replay", **{"in": cin})
    res, _ = ec.validate(tr, tr + ".result.json")
    bad = [v for v in res["viol"] if v["cr"] and v["kind"] in ec.KINDS[PID]]
    if bad:
        print(f"VIOLATION property={PID} replay={path}")
        for v in bad[:5]:
            print("  ", v)
        return 1
    print(f"replay {path}: no violation of {PID}")
    return 0


def selftest(seed):
    bd = vp.build()
    wd = vp.clean_workdir(PID + "-selftest")
    tr = os.path.join(wd, "t.ndjson")
    ec.eng_persist(bd, tr, seed=seed, runs=3, steps=20, crash=1, nofw=1, cases=tr + ".cases")
    ev = vp.read_ndjson(tr)
    # corrupt one recovered input vector into a state that was never committed
    done = False
    tr2 = os.path.join(wd, "t2.ndjson")
    with open(tr2, "w") as f:
        for e in ev:
            if not done and e["e"] == "recovered" and all(v != -100 for _, v in e["inputs"]):
                e = dict(e); e["inputs"] = [[n, 77] for n, _ in e["inputs"]]; done = True
            f.write(json.dumps(e) + "\n")
    res2, _ = ec.validate(tr2, tr2 + ".json")
    got = [v for v in res2["viol"] if v["kind"] == "recovered_inputs_not_a_committed_state"]
    print(f"selftest {PID}: corrupted recovered inputs flagged: {len(got)}")
    ok = done and len(got) >= 1
    import c08real
    ok = ok and c08real.selftest_real(seed)
    print("selftest", "passed" if ok else "FAILED")
    return 0 if ok else 2
