"""C03 - only justified work is re-executed."""
import engcommon


def run(tier, seed):
    return engcommon.engine_check("C03", tier, seed)


def replay(path):
    return engcommon.engine_replay("C03", path)


def selftest(seed):
    return engcommon.engine_selftest("C03", seed)
