"""C15 - interning is canonical under concurrency and survives encoding.

Pipeline (DESIGN.md 5/C15):
  1. design check: TLC on specs/Interner.tla (M-layer: slots with weak refs,
     read-probe / write-recheck sections, lock-free clone/drop, vacuum with its
     temporary strong reference, encode/decode session) with the P-layer
     invariant Canonical (specs/InternerObs.tla); spec mutants must be killed.
  2. S->I: every sequential history printed by TLC from specs/InternerGen.tla
     is executed on the real Interner (harness intern_replay --mode replay);
     the model's prediction of pointer equalities, look-up results and decoded
     sharing is compared after every operation.
  3. I->S: multi-threaded stress runs (2..16 OS threads) and codec runs are
     recorded as acquire/release histories (acquire logged after the call,
     release before the drop) and validated by TLC with
     specs/InternerTrace.tla; a mutex-protected registry is a second oracle.
"""
import concurrent.futures as cf
import json
import os
import time

import vp

PID = "C15"
BIN = "intern_replay"

# P-layer failures (property violated on the real code)
P_KINDS = {"two_allocations", "shared_allocation", "content", "lookup_missed_live", "panic",
           "decode_pattern", "decode_failed", "decode_sharing", "decode_value", "decode_length"}
# model and code disagree on something the property does not speak about
DRIFT_PREFIX = "drift_"
HARNESS_PREFIX = "harness_"

# Known findings: none for C15 on the unchanged tree.  Entries (also read from
# /verif/known_findings.json) have {"id", "what", "signature": {"kinds": [...], "origin": ...}}.
KNOWN_LOCAL = []

MUTANTS = [("Interner.cfg", "norecheck"), ("Interner.cfg", "vacuumall"),
           ("Interner.cfg", "typeblind"), ("InternerCodec.cfg", "seenbyhash")]


# --------------------------------------------------------------------------- helpers

_meta_n = [0]
_meta_lock = __import__("threading").Lock()


def meta():
    """A TLC metadir of our own per run (vp.tlc's default name can collide
    when several TLC instances of one module start in the same millisecond)."""
    with _meta_lock:
        _meta_n[0] += 1
        return os.path.join(vp.WORK, "tlcmeta", f"C15-{os.getpid()}-{_meta_n[0]}")


def bin_dir():
    """Harness binaries.  C15_HARNESS_BIN_DIR points the check at a harness
    built against another tree (used to try the check on seeded defects)."""
    return os.environ.get("C15_HARNESS_BIN_DIR") or vp.build()


def harness(bd, timeout=1800, ok_codes=(0,), **kw):
    cmd = [os.path.join(bd, BIN)]
    for k, v in kw.items():
        cmd += [f"--{k.replace('_', '-')}", str(v)]
    p = vp.run(cmd, timeout=timeout, check=False)
    if p.returncode == 3:
        raise vp.ToolError(f"harness watchdog: a run did not finish (possible deadlock in the interner): {' '.join(cmd)}")
    if p.returncode not in ok_codes:
        # the process driving the code under test died (abort, signal): that is data, not a tool error
        raise vp.SubjectCrash(cmd, p.returncode, (p.stdout or "")[-6000:])
    return p


def validate(trace, timeout=1800):
    """TLC trace validation with InternerTrace; returns (result, tlc stats)."""
    out = trace + ".result.json"
    if os.path.exists(out):
        os.remove(out)
    r = vp.tlc("InternerTrace", cfg="InternerTrace.cfg", env={"TRACE": trace, "OUT": out},
               workers=1, timeout=timeout, xmx="3g", metadir=meta())
    if "TRACE NOT CONSUMED" in r["out"] or not os.path.exists(out):
        raise vp.ToolError(f"trace not consumed / no result for {trace}:\n{r['out'][-3000:]}")
    if r["invariant_violated"]:
        raise vp.ToolError(f"InternerTrace invariant {r['invariant_violated']} violated on {trace} "
                           f"(recorded violations and the P-layer predicate disagree)")
    return json.load(open(out)), r


def design_check(cfg, mutation=None, coverage=False, timeout=1500, wd=None):
    path = cfg
    if mutation:
        txt = open(os.path.join(vp.SPECS, cfg)).read().replace('Mutation = "none"', f'Mutation = "{mutation}"')
        path = os.path.join(wd, f"mut_{mutation}_{cfg}")
        open(path, "w").write(txt)
    r = vp.tlc("InternerMC", cfg=path, workers=4, timeout=timeout, coverage=coverage, xmx="6g", metadir=meta())
    return r


def gen_cases(cfg, out, max_ops=None, mutation=None, invariant=True, wd=None, timeout=1500):
    txt = open(os.path.join(vp.SPECS, cfg)).read()
    if max_ops is not None:
        import re
        txt = re.sub(r"MaxOps = \d+", f"MaxOps = {max_ops}", txt)
    if mutation:
        txt = txt.replace('Mutation = "none"', f'Mutation = "{mutation}"')
    if not invariant:
        txt = txt.replace("INVARIANT GenOK\n", "")
    path = os.path.join(wd, f"gen_{os.path.basename(out)}.cfg")
    open(path, "w").write(txt)
    r = vp.tlc("InternerGen", cfg=path, workers=4, timeout=timeout, xmx="6g", check_ok=False, metadir=meta())
    if not r["ok"]:
        raise vp.ToolError(f"generator {cfg} failed:\n{r['out'][-3000:]}")
    n = 0
    with open(out, "w") as f:
        for line in r["out"].splitlines():
            if line.startswith('"{'):
                f.write(json.loads(line) + "\n")
                n += 1
    if n == 0:
        raise vp.ToolError(f"generator {cfg} produced no behaviours:\n{r['out'][-2000:]}")
    return n, r


def split_file(path, parts):
    lines = open(path).read().splitlines()
    outs = []
    for i in range(parts):
        p = f"{path}.part{i}"
        with open(p, "w") as f:
            for l in lines[i::parts]:
                f.write(l + "\n")
        outs.append(p)
    return outs


def run_of(trace, at):
    """Events of the run that contains 1-based event index `at`."""
    ev = vp.read_ndjson(trace)
    start = 0
    for i in range(min(at, len(ev))):
        if ev[i].get("e") == "run":
            start = i
    end = at
    while end < len(ev) and ev[end - 1].get("e") != "reset":
        end += 1
    return ev[start:end]


def known_for(verdict):
    return list(verdict.known) + [k for k in KNOWN_LOCAL if k.get("status", "known") == "known"]


def classify(verdict, origin, kind, what, replay_obj, counters):
    """One failure reported by an oracle."""
    if kind.startswith(HARNESS_PREFIX):
        raise vp.ToolError(f"harness inconsistency ({origin}): {kind}: {what}")
    if kind.startswith(DRIFT_PREFIX):
        counters["model_drift"] += 1
        if counters.get("first_drift") is None:
            counters["first_drift"] = {"origin": origin, "kind": kind, "what": str(what)[:500]}
        return
    for k in known_for(verdict):
        sig = k.get("signature") if isinstance(k.get("signature"), dict) else {}
        if kind in sig.get("kinds", []) and sig.get("origin", origin) == origin:
            verdict.known_finding(k["id"], k.get("what", kind))
            return
    counters["p_failures"] += 1
    # emitted at the end: failures found by TLC on a recorded trace first (their
    # replay file carries the trace), then the in-process oracles
    counters.setdefault("pending", []).append(
        (0 if "trace" in replay_obj or "case" in replay_obj else 1,
         f"{origin}: {kind}: {str(what)[:400]}", replay_obj))


def emit(verdict, counters, cap=10):
    pend = sorted(counters.pop("pending", []), key=lambda x: x[0])
    for _, what, obj in pend[:cap]:
        verdict.violation(what, obj)
    if len(pend) > cap:
        vp.log(f"... {len(pend) - cap} further failures not written as replay files")


def near_simultaneous(trace):
    """Measured race proxy: acquisitions by ANOTHER thread of an allocation
    within 2*threads events of that allocation's first appearance."""
    n = 0
    first = {}
    threads = 1
    for i, e in enumerate(vp.read_ndjson(trace)):
        k = e.get("e")
        if k == "run":
            first = {}
            threads = e.get("threads", 1)
        elif k == "acq":
            p = e["p"]
            if p not in first:
                first[p] = (i, e["t"])
            elif e["t"] != first[p][1] and i - first[p][0] <= 2 * threads:
                n += 1
    return n


# --------------------------------------------------------------------------- main check

def run(tier, seed):
    t0 = time.time()
    quick = tier != "thorough"
    bd = bin_dir()
    wd = vp.clean_workdir(PID)
    verdict = vp.Verdict(PID)
    counters = {"model_drift": 0, "p_failures": 0, "first_drift": None}
    pool = cf.ThreadPoolExecutor(max_workers=3)

    # ---- 1. design check (model alone; never a verdict on the code)
    cfgs = ["Interner.cfg", "Interner3.cfg", "Interner3h1.cfg", "Interner4.cfg", "InternerCodec.cfg"]
    if not quick:
        cfgs += ["InternerCodec3.cfg", "InternerFull3.cfg"]
    cov_cfgs = {"Interner.cfg", "InternerCodec.cfg"}
    design_f = {c: pool.submit(design_check, c, None, c in cov_cfgs, 2400, wd) for c in cfgs}
    mutant_f = {(c, m): pool.submit(design_check, c, m, False, 600, wd) for c, m in MUTANTS}

    # ---- 2. S->I: TLC-generated sequential behaviours replayed on the real interner
    gens = [("InternerGen.cfg", 5 if quick else 6), ("InternerGenCodec.cfg", 6 if quick else 7)]
    gen_f = [pool.submit(gen_cases, c, os.path.join(wd, f"cases_{i}.ndjson"), mo, None, True, wd, 2400)
             for i, (c, mo) in enumerate(gens)]

    # ---- 3. I->S: stress + codec runs (the harness is cheap; run while TLC works)
    n_stress, runs, ops, n_codec = (10, 10, 500, 1000) if quick else (80, 16, 1500, 24000)
    stress = []
    for i in range(n_stress):
        tr = os.path.join(wd, f"stress_{i}.ndjson")
        sm = os.path.join(wd, f"stress_{i}.summary.json")
        harness(bd, mode="stress", seed=seed * 1000 + i, runs=runs, ops=ops, out=tr, summary=sm)
        stress.append((tr, sm))
    codec = []
    for i in range(2 if quick else 8):
        tr = os.path.join(wd, f"codec_{i}.ndjson")
        rs = os.path.join(wd, f"codec_{i}.results.ndjson")
        harness(bd, mode="codec", seed=seed * 1000 + i, cases=n_codec // (2 if quick else 8), out=tr, results=rs)
        codec.append((tr, rs))

    # replay the generated behaviours (4 processes)
    replays = []
    gen_info = []
    for i, f in enumerate(gen_f):
        n, r = f.result()
        gen_info.append({"cfg": gens[i][0], "max_ops": gens[i][1], "behaviours": n, "states": r["distinct"]})
        parts = split_file(os.path.join(wd, f"cases_{i}.ndjson"), 4)

        def one(p, i=i):
            tr, rs = p + ".trace.ndjson", p + ".results.ndjson"
            harness(bd, mode="replay", seed=seed, variants=1 if quick else 2, trace_every=7 if quick else 31, out=tr, results=rs,
                    **{"in": p})
            return tr, rs
        with cf.ThreadPoolExecutor(max_workers=4) as ex:
            replays += list(ex.map(one, parts))

    # ---- judge: in-process oracles
    stress_runs = 0
    op_counts = {}
    thread_hist = {}
    for tr, sm in stress:
        s = json.load(open(sm))
        for r in s["runs"]:
            stress_runs += 1
            thread_hist[str(r["cfg"]["threads"])] = thread_hist.get(str(r["cfg"]["threads"]), 0) + 1
            for k, v in r["ops"].items():
                op_counts[k] = op_counts.get(k, 0) + v
            for f in r["inproc_failures"]:
                classify(verdict, "stress", f["kind"], f,
                         {"property": PID, "origin": "stress", "oracle": "registry", "failure": f,
                          "args": {"seed": s["seed"], "runs": runs, "ops": ops}, "run_cfg": r["cfg"]}, counters)
    replay_sum = {"cases": 0, "runs": 0, "failed_runs": 0, "checks": 0, "traced_runs": 0}
    for tr, rs in replays:
        for rec in vp.read_ndjson(rs):
            if rec.get("summary"):
                for k in replay_sum:
                    replay_sum[k] += rec[k]
                continue
            for f in rec["fails"]:
                ff = f["fail"] if isinstance(f["fail"], dict) else {}
                if isinstance(ff.get("fresh"), dict):
                    ff = ff["fresh"]     # {"fresh": {failure}}; {"kind": .., "fresh": true} is the failure itself
                classify(verdict, "replay", ff.get("kind", "harness_unclassified"), f,
                         {"property": PID, "origin": "replay", "case": {"ops": rec["ops"]}, "variant": rec["variant"],
                          "failure": f}, counters)
    codec_sum = {"cases": 0, "failed": 0, "leaves": 0, "cases_with_repeats": 0, "cases_with_nested": 0,
                 "by_variant": {}, "samples": []}
    for tr, rs in codec:
        for rec in vp.read_ndjson(rs):
            if rec.get("summary"):
                for k in ("cases", "failed", "leaves", "cases_with_repeats", "cases_with_nested"):
                    codec_sum[k] += rec[k]
                for k, v in rec["by_variant"].items():
                    codec_sum["by_variant"][k] = codec_sum["by_variant"].get(k, 0) + v
                codec_sum["samples"] += rec["samples"][:2]
                continue
            if rec.get("hang"):
                raise vp.ToolError(f"codec case {rec} did not finish")
            for f in rec["fails"]:
                classify(verdict, "codec", f["fail"]["kind"], rec,
                         {"property": PID, "origin": "codec", "failure": rec, "trace_file": tr}, counters)

    # ---- judge: TLC trace validation (the verdict of the I->S binding)
    traces = [t for t, _ in stress] + [t for t, _ in codec] + [t for t, _ in replays]
    tstats = {"events": 0, "states": 0, "transitions": 0, "runs": 0}
    checked = {}
    with cf.ThreadPoolExecutor(max_workers=4) as ex:
        for trace, (res, r) in zip(traces, ex.map(validate, traces)):
            tstats["events"] += res["events"]
            tstats["states"] += r["distinct"]
            tstats["transitions"] += r["generated"]
            tstats["runs"] += res["stats"]["runs"]
            for k, v in res["stats"].items():
                checked[k] = max(checked.get(k, 0), v) if k == "maxheld" else checked.get(k, 0) + v
            origin = "stress" if "stress_" in trace else "codec" if "codec_" in trace else "replay"
            for v in res["viol"][:50]:
                obj = {"property": PID, "origin": origin, "oracle": "InternerTrace", "violation": v,
                       "trace": run_of(trace, v["at"]), "source_trace": trace, "seed": seed}
                if origin == "stress":
                    i = int(os.path.basename(trace).split("_")[1].split(".")[0])
                    obj["args"] = {"seed": seed * 1000 + i, "runs": runs, "ops": ops}
                classify(verdict, origin, v["kind"], v, obj, counters)
    near = sum(near_simultaneous(t) for t, _ in stress)

    # ---- collect the design results
    design = {}
    coverage_actions = {}
    d_states = d_trans = 0
    for c, f in design_f.items():
        r = f.result()
        if not r["ok"]:
            # a counterexample in the model alone is not a violation of the code
            raise vp.ToolError(f"design check {c} failed (model alone): {r['invariant_violated']}\n{r['out'][-2500:]}")
        design[c] = {"distinct": r["distinct"], "generated": r["generated"], "depth": r["depth"], "wall_s": round(r["wall_s"], 1)}
        d_states += r["distinct"]
        d_trans += r["generated"]
        if c in cov_cfgs:
            for a, (dist, tot) in vp.tlc_coverage(r["out"]).items():
                cur = coverage_actions.get(a, (0, 0))
                coverage_actions[a] = (cur[0] + dist, cur[1] + tot)
    never = sorted(a for a, (d, t) in coverage_actions.items() if t == 0)
    if never:
        raise vp.ToolError(f"actions of Interner.tla never taken in the design check: {never}")
    killed = {}
    for (c, m), f in mutant_f.items():
        r = f.result()
        killed[m] = r["invariant_violated"][:1]
        if not r["invariant_violated"]:
            raise vp.ToolError(f"spec mutant {m} ({c}) was not rejected by the invariants: the design check is vacuous")
    pool.shutdown()

    emit(verdict, counters)
    rc = verdict.finish()

    sample_trace = vp.read_ndjson(stress[0][0])[:16]
    sample_case = json.loads(open(os.path.join(wd, "cases_1.ndjson")).readline())
    coverage = {
        "states": d_states + tstats["states"] + sum(g["states"] for g in gen_info),
        "transitions": d_trans + tstats["transitions"],
        "traces_validated_against_impl": tstats["runs"],
        "samples": [{"stress_trace_first_events": sample_trace},
                    {"tlc_generated_behaviour_with_predictions": sample_case},
                    {"codec_structures": codec_sum["samples"][:4]}],
        "design_check": design,
        "design_actions_taken": {a: t for a, (d, t) in sorted(coverage_actions.items())},
        "spec_mutants_killed": killed,
        "generators": gen_info,
        "replay": replay_sum,
        "stress": {"runs": stress_runs, "runs_by_thread_count": thread_hist, "operations": op_counts,
                   "near_simultaneous_acquisitions_of_a_new_allocation_by_another_thread": near},
        "codec": {k: v for k, v in codec_sum.items() if k != "samples"},
        "trace_validation": {**tstats, "checked": checked},
        "model_drift": counters["model_drift"],
        "first_model_drift": counters["first_drift"],
        "known_finding_hits": {k: h["count"] for k, h in verdict.known_hits.items()},
        "rule": "a validated trace = one run of the real Interner (stress: 2..16 OS threads; codec: one "
                "encode/decode case; replay: one TLC-generated history) whose acquire/release history is "
                "consumed event by event by InternerTrace.tla; replay runs are additionally compared with "
                "the model's pointer-equality prediction after every operation",
    }
    vp.write_evidence(PID, tier, seed, "model_checking", coverage, time.time() - t0, len(verdict.violations),
                      assumptions=[
                          "pointer identity = address of the data inside the Arc (read through Deref); two live handles with one address are one allocation",
                          "acquire events are numbered after the producing call returned, release events before the drop, by one SeqCst counter: recorded overlap implies real overlap",
                          "stable 128-bit hashes are collision-free on the value domain used (the interner identifies values by hash only)",
                          "OS scheduling decides which interleavings the stress runs see; the window between read miss and write lock cannot be forced without the rendezvous hook proposed in the report",
                          "TLC, the harness recorder and the Postcard encoder/decoder of qbice_serialize are trusted"])
    return rc


# --------------------------------------------------------------------------- replay

def replay(path):
    rp = json.load(open(path))
    bd = bin_dir()
    wd = vp.workdir(PID, "replay")
    rc = 0
    bad = []
    if rp.get("case"):
        cin = os.path.join(wd, "case.ndjson")
        open(cin, "w").write(json.dumps(rp["case"]) + "\n")
        rs = os.path.join(wd, "case.results.ndjson")
        tr = os.path.join(wd, "case.trace.ndjson")
        harness(bd, mode="replay", variants=16, trace_every=1, out=tr, results=rs, **{"in": cin})
        for rec in vp.read_ndjson(rs):
            if rec.get("summary"):
                continue
            for f in rec["fails"]:
                ff = f["fail"].get("fresh", f["fail"])
                if ff.get("kind") in P_KINDS:
                    bad.append(f)
        res, _ = validate(tr)
        bad += [v for v in res["viol"] if v["kind"] in P_KINDS]
    if rp.get("trace"):
        tr = os.path.join(wd, "stored.trace.ndjson")
        with open(tr, "w") as f:
            for e in rp["trace"]:
                f.write(json.dumps(e) + "\n")
        res, _ = validate(tr)
        bad += [v for v in res["viol"] if v["kind"] in P_KINDS]
        print(f"stored trace: {len(res['viol'])} violation(s) reported by InternerTrace")
    if rp.get("args") and rp.get("origin") == "stress":
        # schedule-dependent: re-run the same seed a few times
        for k in range(5):
            tr = os.path.join(wd, f"rerun_{k}.ndjson")
            sm = os.path.join(wd, f"rerun_{k}.summary.json")
            harness(bd, mode="stress", out=tr, summary=sm, **rp["args"])
            res, _ = validate(tr)
            bad += [v for v in res["viol"] if v["kind"] in P_KINDS]
            for r in json.load(open(sm))["runs"]:
                bad += r["inproc_failures"]
    if bad:
        print(f"VIOLATION property={PID} replay={path}")
        print("  ", json.dumps(bad[0])[:600])
        rc = 1
    else:
        print(f"replay {path}: no violation of {PID}")
    return rc


# --------------------------------------------------------------------------- self-test

def selftest(seed):
    """Anti-vacuity: (1) corrupt one recorded pointer of an accepted stress
    trace / one decoded leaf of a codec event / drop a release: TLC rejects;
    (2) replay TLC behaviours against a deliberately wrong expectation;
    (3) replay the behaviours of a spec MUTANT (vacuum drops live entries):
    the real code must disagree with the mutant's predictions; (4) the spec
    mutants violate the invariants in TLC."""
    bd = bin_dir()
    wd = vp.clean_workdir(PID + "-selftest")
    ok = True

    tr = os.path.join(wd, "s.ndjson")
    harness(bd, mode="stress", seed=seed, runs=4, ops=300, out=tr, summary=os.path.join(wd, "s.sum.json"))
    res, _ = validate(tr)
    base = len(res["viol"])
    ev = vp.read_ndjson(tr)
    # (1a) a handle that joined a live set gets another pointer id
    live = {}
    target = None
    for i, e in enumerate(ev):
        if e["e"] == "run":
            live = {}
        elif e["e"] == "acq":
            if any(x["ty"] == e["ty"] and x["v"] == e["v"] for x in live.values()) and target is None:
                target = i
            live[e["h"]] = e
        elif e["e"] == "rel":
            live.pop(e["h"], None)
    if target is None:
        raise vp.ToolError("selftest: no shared acquisition in the trace")
    tr2 = os.path.join(wd, "s_ptr.ndjson")
    with open(tr2, "w") as f:
        for i, e in enumerate(ev):
            if i == target:
                e = dict(e, p=e["p"] + 100000)
            f.write(json.dumps(e) + "\n")
    res2, _ = validate(tr2)
    k2 = sorted({v["kind"] for v in res2["viol"]})
    print(f"selftest {PID}: accepted trace has {base} violations; after corrupting one pointer id: {k2}")
    ok = ok and base == 0 and "two_allocations" in k2
    # (1b) a look-up that returned a handle is turned into 'returned None'
    tr3 = os.path.join(wd, "s_none.ndjson")
    done = False
    with open(tr3, "w") as f:
        live = {}
        for e in ev:
            if e["e"] == "run":
                live = {}
            if e["e"] == "rel":
                live.pop(e["h"], None)
            if not done and e["e"] == "acq" and e["via"] == "get" and any(
                    x["ty"] == e["ty"] and x["v"] == e["v"] and x["t"] != e["t"] for x in live.values()):
                # only if the other holder held it since before the gs event - approximated: TLC decides
                f.write(json.dumps({"e": "gn", "t": e["t"]}) + "\n")
                done = True
                skip_h = e["h"]
                continue
            if e["e"] == "acq":
                live[e["h"]] = e
            if done and e["e"] == "rel" and e["h"] == skip_h:
                continue
            f.write(json.dumps(e) + "\n")
    if done:
        res3, _ = validate(tr3)
        k3 = sorted({v["kind"] for v in res3["viol"]})
        print(f"selftest {PID}: look-up result replaced by None: {k3 or 'accepted (holder did not cover the call)'}")
    # (1c) codec event: break the sharing of the decoded structure
    trc = os.path.join(wd, "c.ndjson")
    harness(bd, mode="codec", seed=seed, cases=60, out=trc, results=os.path.join(wd, "c.res.ndjson"))
    resc, _ = validate(trc)
    evc = vp.read_ndjson(trc)
    trc2 = os.path.join(wd, "c_bad.ndjson")
    done = False
    with open(trc2, "w") as f:
        for e in evc:
            if not done and e["e"] == "codec":
                ps = [x["p"] for x in e["src"]]
                dup = [i for i in range(len(ps)) if ps.count(ps[i]) > 1]
                if dup:
                    e = json.loads(json.dumps(e))
                    e["out"][dup[0]]["p"] += 100000
                    done = True
            f.write(json.dumps(e) + "\n")
    resc2, _ = validate(trc2)
    kc = sorted({v["kind"] for v in resc2["viol"]})
    print(f"selftest {PID}: codec trace {len(resc['viol'])} violations; after un-sharing one decoded leaf: {kc}")
    ok = ok and not resc["viol"] and "decode_pattern" in kc

    # (2) wrong expectation
    cases = os.path.join(wd, "cases.ndjson")
    n, _ = gen_cases("InternerGen.cfg", cases, 4, None, True, wd)
    rs = os.path.join(wd, "wrong.results.ndjson")
    # find a case whose prediction contains two equal non-zero ids
    idx = next(i + 1 for i, l in enumerate(open(cases)) if any(
        o["pat"][0] == o["pat"][1] != 0 for o in json.loads(l)["ops"]))
    harness(bd, mode="replay", variants=1, trace_every=0, out="/dev/null", results=rs, selftest_wrong=idx, **{"in": cases})
    recs = vp.read_ndjson(rs)
    failed = [r for r in recs if not r.get("summary")]
    print(f"selftest {PID}: {n} generated behaviours, prediction of case {idx} falsified on purpose -> "
          f"{len(failed)} failing run(s): {failed[0]['fails'][0]['fail'] if failed else None}")
    ok = ok and len(failed) == 1 and failed[0]["case"] == idx

    # (3) behaviours of the mutant model on the real code
    mcases = os.path.join(wd, "mutant_cases.ndjson")
    nm, _ = gen_cases("InternerGen.cfg", mcases, 4, "vacuumall", False, wd)
    rs = os.path.join(wd, "mutant.results.ndjson")
    harness(bd, mode="replay", variants=1, trace_every=0, out="/dev/null", results=rs, **{"in": mcases})
    recs = vp.read_ndjson(rs)
    mism = [r for r in recs if not r.get("summary")]
    print(f"selftest {PID}: {nm} behaviours of the mutant model 'vacuumall': the real code disagrees with "
          f"{len(mism)} of them (first: {mism[0]['fails'][0] if mism else None})")
    ok = ok and len(mism) > 0

    # (4) mutants are rejected by TLC
    for c, m in MUTANTS:
        r = design_check(c, m, False, 600, wd)
        print(f"selftest {PID}: spec mutant {m}: TLC reports {r['invariant_violated'][:1] or 'NOTHING'}")
        ok = ok and bool(r["invariant_violated"])
    # (5) the windows named in the property text are states of the model
    for cfg, w in [("Interner.cfg", "NotW1"), ("Interner.cfg", "NotW2"), ("Interner.cfg", "NotW3"),
                   ("Interner.cfg", "NotW4"), ("InternerCodec.cfg", "NotW5")]:
        import re
        txt = re.sub(r"^INVARIANTS .*$", f"INVARIANT {w}", open(os.path.join(vp.SPECS, cfg)).read(), flags=re.M)
        path = os.path.join(wd, f"witness_{w}.cfg")
        open(path, "w").write(txt)
        r = vp.tlc("InternerMC", cfg=path, workers=4, timeout=600, metadir=meta())
        print(f"selftest {PID}: window {w[3:]} reachable in the model: {bool(r['invariant_violated'])}")
        ok = ok and bool(r["invariant_violated"])
    print("selftest", "passed" if ok else "FAILED")
    return 0 if ok else 2
