"""C05 - cancellation or an executor panic never corrupts the engine.

Fault enumeration on the real engine (harness/src/bin/eng_cancel.rs): for
seeded programs (with and without firewalls/projections) and a prefix
history, (a) the user query of each of three targets is polled k times and
dropped, for every k up to completion (the engine yields at every nested
query, and at the JoinSet joins of firewall repair, unordered checks, backward
projection and at the dirty-propagation wait); (b) a session's commit() is
polled k times and dropped, for every k; (c) every executor in turn is armed to
panic.  After the fault: every node is queried, one more session flips every
input, every node is queried again, the engine is shut down (over
DbBacked<MemKv> the store must drain).  TLC (EngineObsTrace: Cancelled / Arm /
QueryPanicked actions) decides: every later value is the from-scratch value, a
panic reaches the user exactly when the armed executor ran, nothing hangs.

Concurrent dimension: specs/EngineConc.tla has an `Abandon` action (the owner
of computing entries drops its request or panics while suspended in its
executor; unwinding removes the entries and wakes the subscribers).  TLC
generates schedules with one abandoned request; conc_sched forces them on the
real engine: the waiting tasks must take over and complete."""
import json
import os
import time

import engcommon as ec
import vp

PID = "C05"
KINDS = {"query_value", "read_value", "set_result", "no_progress", "query_panicked", "panic_swallowed",
         "crash_open_panic", "executor_still_running_at_end"}
ec.KINDS[PID] = KINDS


def run(tier, seed):
    t0 = time.time()
    bd = vp.build()
    wd = vp.clean_workdir(PID)
    verdict = vp.Verdict(PID)
    known = ec.known_ids_for(PID)
    quick = tier != "thorough"
    traces = []
    plans = [("mem", 0, 20), ("mem", 1, 12), ("kv", 0, 12), ("kv", 1, 6)] if quick else \
            [("mem", 0, 40), ("mem", 1, 25), ("kv", 0, 30), ("kv", 1, 15)]
    plans = [p + (0,) for p in plans] + ([("mem", 1, 12, 1), ("mem", 0, 8, 1)] if quick else
                                          [("mem", 1, 40, 1), ("mem", 0, 30, 1), ("kv", 1, 20, 1)])
    for i, (cfg, nofw, progs, ext) in enumerate(plans):
        tr = os.path.join(wd, f"cancel_{i}_{cfg}.ndjson")
        vp.run_subject([os.path.join(bd, "eng_cancel"), "--cfg", cfg, "--nofw", str(nofw), "--progs", str(progs),
                "--ext", str(ext), "--seed", str(seed * 10 + i), "--out", tr, "--cases", tr + ".cases"], timeout=3000)
        traces.append({"trace": tr, "cases": tr + ".cases", "origin": f"{cfg} nofw={nofw}"})
    # concurrent dimension: behaviours of specs/EngineConcGen.tla in which one request is abandoned
    # (future dropped / executor panic) while its executor is suspended and other tasks wait for the
    # queries it was computing; forced on the real engine step by step (conc_sched)
    sched_cases = os.path.join(wd, "abandon.cases")
    g = vp.run(["python3", os.path.join(vp.ROOT, "tools", "gen_conc.py"), sched_cases, str(seed),
                "60" if quick else "1200", "abandon"], timeout=2400, env={"VH_TMP": vp.workdir(PID, "tlcgen")})
    ginfo = json.loads(g.stdout.strip().splitlines()[-1])
    sched_tr = os.path.join(wd, "abandon.ndjson")
    sched_res = os.path.join(wd, "abandon.res")
    vp.run_subject([os.path.join(bd, "conc_sched"), "--in", sched_cases, "--out", sched_tr, "--res", sched_res],
                   timeout=3000)
    sres = vp.read_ndjson(sched_res)
    scases = vp.read_ndjson(sched_cases)
    ab = {"cancel": sum(1 for c in scases for st in c["steps"] if st["a"] == "AbandonCancel"),
          "panic": sum(1 for c in scases for st in c["steps"] if st["a"] == "AbandonPanic")}
    sched_info = {"behaviours_generated_by_TLC": ginfo["behaviours"], "steps": ginfo["steps"],
                  "abandoned_by_cancel": ab["cancel"], "abandoned_by_panic": ab["panic"],
                  "steps_followed_exactly": sum(r["followed"] for r in sres),
                  "schedules_followed_to_the_end": sum(1 for r in sres if r["drift"] is None and not r["hang"]),
                  "model_drift": sum(1 for r in sres if r["drift"] is not None and not r["hang"]),
                  "first_drift": next((r for r in sres if r["drift"] is not None and not r["hang"]), None),
                  "hangs": sum(1 for r in sres if r["hang"])}
    for r in [r for r in sres if r["hang"]][:3]:
        verdict.violation(f"no_progress: after a request was abandoned, schedule {r['case']} does not complete, not even "
                          f"when the tasks run freely after step {r['followed']} ({r['drift']})",
                          {"property": PID, "kind": "no_progress", "origin": "EngineConcGen abandon schedule replay",
                           "case": scases[r["case"]], "result": r})
    ab_res, ab_r = ec.validate(sched_tr, sched_tr + ".result.json")
    for v in [v for v in ab_res["viol"] if v["kind"] in KINDS and v["kind"] != "no_progress"][:3]:
        verdict.violation(f"{v['kind']} node={v['n']} got={v['got']} want={v['want']} (abandon schedule replay)",
                          {"property": PID, "violation": v, "origin": "EngineConcGen abandon schedule replay"})
    sched_info["events_validated"] = ab_res["events"]

    # a sub-query future dropped inside a live executor (hedged read, DSL mode 4): the executor requests a
    # slow probe, reads a guard and a guarded dependency, then drops the pending probe; the dependencies
    # it recorded must keep their order (a later repair checks the guard before the guarded one)
    hcases = os.path.join(wd, "hedge.cases")
    vp.run(["python3", os.path.join(vp.ROOT, "tools", "gen_hedge.py"), hcases, str(seed), "6" if quick else "60"])
    for y in (1, 2):
        trh = os.path.join(wd, f"hedge_y{y}.ndjson")
        ec.eng_seq(bd, trh, mode="replay", yields=y, cfg="mem", **{"in": hcases})
        traces.append({"trace": trh, "cases": hcases, "origin": f"hedged reads dropped inside executors (yields={y})",
                       "strict": True})

    # an unordered group {slow chain, fast node} under REPAIR: both members are dirty, the fast one is found
    # changed (or panics) while the check of the slow one is still suspended inside its re-execution; what the
    # engine then abandons must not damage what the re-execution records (tools/gen_unord.py race)
    rcases = os.path.join(wd, "unord_race.cases")
    vp.run(["python3", os.path.join(vp.ROOT, "tools", "gen_unord.py"), "race", rcases, str(seed)])
    for y in (1, 3):
        trr = os.path.join(wd, f"unord_race_y{y}.ndjson")
        ec.eng_seq(bd, trr, mode="replay", yields=y, cfg="mem", **{"in": rcases})
        traces.append({"trace": trr, "cases": rcases, "origin": f"unordered group repaired while a member is slow (yields={y})",
                       "strict": True})

    summary = ec.collect(PID, traces, verdict, known, "mem")
    baseline_same = ec.finish_candidates(PID, verdict, summary, wd, "eng_cancel", [])
    rc = verdict.finish()
    faults = {"cancel": 0, "cancel_commit": 0, "panic": 0, "cancel_refresh": 0}
    sample = []
    for t in traces:
        for l in open(t["cases"]):
            c = json.loads(l)
            if "fault" not in c:
                faults["hedged_read_dropped_in_executor"] = faults.get("hedged_read_dropped_in_executor", 0) + 1
                continue
            faults[c["fault"]["f"]] += 1
            if len(sample) < 3 and c["fault"]["f"] != "cancel" or (len(sample) < 1):
                sample.append({"fault": c["fault"], "nodes": len(c["prog"]["nodes"]), "prefix_actions": len(c["actions"])})
    total = sum(faults.values())
    coverage = {
        "evaluations": total,
        "distinct_nontrivial": total,
        "rule": "one evaluation = (program, prefix, fault): a cancel point k of a query or of commit(), or an "
                "armed executor; cases are distinct by construction (k enumerated 0.. until the operation "
                "completes); each is followed by two full sweeps of queries, a session and a shutdown",
        "samples": sample,
        "faults": faults,
        "abandoned_owner_with_waiters_schedules": sched_info,
        "states": summary["states"], "transitions": summary["transitions"],
        "events_validated": summary["events"],
        "checked": summary["stats"],
        "violations_by_kind_and_signature": summary["viol_by_kind"],
        "known_finding_hits": {k: h["count"] for k, h in verdict.known_hits.items()},
        "unsignatured_but_baseline_identical": baseline_same,
    }
    vp.write_evidence(PID, tier, seed, "fault_enumeration", coverage, time.time() - t0, len(verdict.violations),
                      assumptions=["suspension points are those reached on a single-threaded runtime with "
                                   "YieldFrequency::EveryNQuery(0); awaits that are always ready there (uncontended "
                                   "locks) are not cancel points of this enumeration",
                                   "a guarded section continues as a detached task; the driver lets it finish "
                                   "before it goes on (200 yields + 1 ms)",
                                   "watchdog 60 s per case"])
    return rc


def replay(path):
    rp = json.load(open(path))
    bd = vp.build()
    wd = vp.workdir(PID, "replay")
    cin = os.path.join(wd, "case.ndjson")
    open(cin, "w").write(json.dumps(rp["case"]) + "\n")
    tr = os.path.join(wd, "t.ndjson")
    vp.run_subject([os.path.join(bd, "eng_cancel"), "--mode", "replay", "--in", cin, "--out", tr], timeout=600)
    res, _ = ec.validate(tr, tr + ".result.json")
    known = ec.known_ids_for(PID)
    bad = [v for v in res["viol"] if v["kind"] in KINDS]
    rc = 0
    for v in bad:
        if v.get("kf") in known:
            print(f"KNOWN-FINDING: property={PID} {v['kf']}: {known[v['kf']]}")
        else:
            print(f"VIOLATION property={PID} replay={path}")
            print("  ", v)
            rc = 1
    if not bad:
        print(f"replay {path}: no violation of {PID}")
    return rc


def selftest(seed):
    bd = vp.build()
    wd = vp.clean_workdir(PID + "-selftest")
    tr = os.path.join(wd, "t.ndjson")
    vp.run_subject([os.path.join(bd, "eng_cancel"), "--cfg", "mem", "--nofw", "1", "--progs", "1", "--seed", str(seed),
            "--out", tr, "--cases", tr + ".cases"], timeout=600)
    ev = vp.read_ndjson(tr)
    # (1) a panic that reaches the user without an armed executor having run must be flagged
    t2 = os.path.join(wd, "t2.ndjson")
    done = False
    with open(t2, "w") as f:
        for e in ev:
            if not done and e["e"] == "query":
                f.write(json.dumps({"e": "qpanic", "t": e["t"], "n": e["n"]}) + "\n"); done = True
                continue
            f.write(json.dumps(e) + "\n")
    res, _ = ec.validate(t2, t2 + ".json")
    ok1 = any(v["kind"] == "query_panicked" for v in res["viol"])
    # (2) an armed executor that ran although the user got a value: panic swallowed
    t3 = os.path.join(wd, "t3.ndjson")
    armed = False
    done = False
    with open(t3, "w") as f:
        for e in ev:
            if e["e"] == "arm":
                armed = True
            if armed and not done and e["e"] == "qpanic":
                f.write(json.dumps({"e": "query", "t": e["t"], "n": e["n"], "v": 0}) + "\n"); done = True
                continue
            f.write(json.dumps(e) + "\n")
    res3, _ = ec.validate(t3, t3 + ".json")
    ok2 = (not done) or any(v["kind"] == "panic_swallowed" for v in res3["viol"])
    print(f"selftest {PID}: unexpected user-level panic flagged: {ok1}; swallowed panic flagged: {ok2} (exercised: {done})")
    ok = ok1 and ok2
    print("selftest", "passed" if ok else "FAILED")
    return 0 if ok else 2
